/*!
 * C06 (unit "stensor") - closed-form derivative helpers whose argument is a
 * symmetric tensor are true derivatives.
 * Oracle: converged central finite differences (long double, three steps,
 * Richardson) of the reference primitive, see C06_fd.hxx.  The derivative with
 * respect to a symmetric tensor is taken along the orthonormal Mandel basis.
 * Non-trivial: N=3 (or N=2 with a non-zero off-diagonal term) and a direction
 * with at least two non-zero components.
 */
#include "C06_fd.hxx"
#include "TFEL/Math/stensor.hxx"
#include "TFEL/Math/st2tost2.hxx"

using namespace tfel::math;

namespace {

  constexpr bool SYM = true;

  bool offdiag(const M3& m) { return m(0, 1) != 0 || m(0, 2) != 0 || m(1, 2) != 0; }

  //! d det / dX (cofactor matrix), reference formula, checked against FD in each case
  M3 cofactor(const M3& x) { return ref::transpose(ref::cofactorT(x)); }

  template <unsigned short N, typename T>
  void determinant(verif::Case& c) {
    using S = stensor<N, T>;
    const bool flt = std::is_same_v<T, float>;
    const double sc = gen::scale(c, flt ? 6 : 20);
    const S s = gen::toStensor<S>(gen::sym(c, N, sc));
    const M3 X = gen::stensorToM3(s);
    const M3 dir = fd::direction(c, N, SYM);
    c.nontrivial((N == 3 || (N == 2 && offdiag(X))) && fd::support(dir, N, SYM) >= 2 &&
                 ref::norm(X) > 0);
    const R nX = std::max<R>(ref::norm(X), R(sc) * 1e-3L);
    const R h = 1e-4L * nX;
    const R rel = flt ? 1e-4L : 1e-9L;
    const auto det = [](const M3& x) { return ref::det(x); };
    const auto devdet = [](const M3& x) { return ref::det(ref::dev(x)); };
    // first derivatives
    fd::check2(c, computeDeterminantDerivative(s), N, SYM, det, X, h, nX * nX, rel, dir,
               "C06.stensor.det.first", "computeDeterminantDerivative");
    fd::check2(c, computeDeviatorDeterminantDerivative(s), N, SYM, devdet, X, h, nX * nX, rel, dir,
               "C06.stensor.devdet.first", "computeDeviatorDeterminantDerivative");
    // self-check of the reference gradients used as primitives below
    const auto g1 = [](const M3& x) { return ref::sym(cofactor(x)); };
    const auto g2 = [](const M3& x) { return ref::dev(ref::sym(cofactor(ref::dev(x)))); };
    fd::check2(c, ref::toStensor(g1(X)), N, SYM, det, X, h, nX * nX, 1e-12L, dir,
               "C06.harness.reference_gradient", "reference det gradient");
    fd::check2(c, ref::toStensor(g2(X)), N, SYM, devdet, X, h, nX * nX, 1e-12L, dir,
               "C06.harness.reference_gradient", "reference dev-det gradient");
    // second derivatives = derivatives of the first
    const auto H = computeDeterminantSecondDerivative(s);
    fd::check4(c, H, N, SYM, SYM, g1, X, h, nX, rel, dir, "C06.stensor.det.second",
               "computeDeterminantSecondDerivative");
    const auto Hd = computeDeviatorDeterminantSecondDerivative(s);
    fd::check4(c, Hd, N, SYM, SYM, g2, X, h, nX, rel, dir, "C06.stensor.devdet.second",
               "computeDeviatorDeterminantSecondDerivative");
    const int n = f4::dimOf(N, SYM);
    const R u = U<T>();
    fd::checkSymmetric(c, H, n, 16 * u * nX, "C06.stensor.det.second", "second derivative");
    fd::checkSymmetric(c, Hd, n, 16 * u * nX, "C06.stensor.devdet.second", "second derivative");
  }

  template <unsigned short N, typename T>
  void products(verif::Case& c) {
    using S = stensor<N, T>;
    using C4 = st2tost2<N, T>;
    const bool flt = std::is_same_v<T, float>;
    const double sc = gen::scale(c, flt ? 6 : 20);
    const S a = gen::toStensor<S>(gen::sym(c, N, sc));
    const S b = gen::toStensor<S>(gen::sym(c, N, sc));
    const C4 C = f4::fromT4<C4>(f4::gen(c, N, SYM, SYM, 1.), N, SYM, SYM);
    const M3 A = gen::stensorToM3(a), B = gen::stensorToM3(b);
    const T4 Cr = f4::toT4(C, N, SYM, SYM);
    const M3 dir = fd::direction(c, N, SYM);
    c.nontrivial((N == 3 || (N == 2 && (offdiag(A) || offdiag(B)))) &&
                 fd::support(dir, N, SYM) >= 2);
    const R nA = std::max<R>(ref::norm(A), R(sc) * 1e-3L);
    const R nB = std::max<R>(ref::norm(B), R(sc) * 1e-3L);
    const R nC = ref::norm(Cr);
    const R h = 1e-4L * nA;
    const R rel = flt ? 1e-4L : 1e-9L;
    const M3 Z;  // zero
    // d(s^2)/ds
    fd::check4(c, C4(C4::dsquare(a)), N, SYM, SYM, [](const M3& x) { return x * x; }, A, h, nA,
               rel, dir, "C06.stensor.dsquare", "dsquare(s)");
    // d(s(c)^2)/dc with ds/dc = C : primitive c -> (a + C:c)^2 at c = 0
    fd::check4(
        c, C4(C4::dsquare(a, C)), N, SYM, SYM,
        [&](const M3& x) {
          const M3 y = A + ref::ddot(Cr, x);
          return y * y;
        },
        Z, h, nA * std::max<R>(nC, 1), rel, dir, "C06.stensor.dsquare_chain", "dsquare(s,C)");
  }

  template <unsigned short N, typename T>
  void stpd(verif::Case& c) {
    using S = stensor<N, T>;
    using C4 = st2tost2<N, T>;
    const bool flt = std::is_same_v<T, float>;
    const double sc = gen::scale(c, flt ? 6 : 20);
    const S a = gen::toStensor<S>(gen::sym(c, N, sc));
    const S b = gen::toStensor<S>(gen::sym(c, N, sc));
    const M3 A = gen::stensorToM3(a), B = gen::stensorToM3(b);
    const M3 dir = fd::direction(c, N, SYM);
    c.nontrivial((N == 3 || (N == 2 && (offdiag(A) || offdiag(B)))) &&
                 fd::support(dir, N, SYM) >= 2);
    const R nA = std::max<R>(ref::norm(A), R(sc) * 1e-3L);
    const R nB = std::max<R>(ref::norm(B), R(sc) * 1e-3L);
    const R h = 1e-4L * nA;
    const R rel = flt ? 1e-4L : 1e-9L;
    // stpd: header comment = d(a.b+b.a)/da ; docs/web/tensors.md = derivative of the
    // symmetric product (a.b+b.a)/2 with respect to a
    const C4 P(C4::stpd(b));
    fd::check4(c, P, N, SYM, SYM, [&](const M3& x) { return x * B + B * x; }, A, h, nB, rel, dir,
               "C06.stensor.stpd.header_meaning", "stpd(b) vs d(a.b+b.a)/da");
    fd::check4(c, P, N, SYM, SYM, [&](const M3& x) { return R(0.5) * (x * B + B * x); }, A, h, nB,
               rel, dir, "C06.stensor.stpd.vs_symmetric_product",
               "stpd(b) vs d(symmetric_product(a,b))/da");
  }

  template <unsigned short N, typename T>
  void aba(verif::Case& c) {
    using S = stensor<N, T>;
    using C4 = st2tost2<N, T>;
    const bool flt = std::is_same_v<T, float>;
    const double sc = gen::scale(c, flt ? 6 : 20);
    const S a = gen::toStensor<S>(gen::sym(c, N, sc));
    const S b = gen::toStensor<S>(gen::sym(c, N, sc));
    const M3 A = gen::stensorToM3(a), B = gen::stensorToM3(b);
    const M3 dir = fd::direction(c, N, SYM);
    c.nontrivial((N == 3 || (N == 2 && (offdiag(A) || offdiag(B)))) &&
                 fd::support(dir, N, SYM) >= 2);
    const R nA = std::max<R>(ref::norm(A), R(sc) * 1e-3L);
    const R nB = std::max<R>(ref::norm(B), R(sc) * 1e-3L);
    const R rel = flt ? 1e-4L : 1e-9L;
    // a.b.a (docs/web/tensors.md "Second symmetric product")
    fd::check4(c, C4(symmetric_product_derivative_daba_da(a, b)), N, SYM, SYM,
               [&](const M3& x) { return x * B * x; }, A, 1e-4L * nA, nA * nB, rel, dir,
               "C06.stensor.daba_da", "symmetric_product_derivative_daba_da");
    fd::check4(c, C4(symmetric_product_derivative_daba_db(a)), N, SYM, SYM,
               [&](const M3& x) { return A * x * A; }, B, 1e-4L * nB, nA * nA, rel, dir,
               "C06.stensor.daba_db", "symmetric_product_derivative_daba_db");
  }

  //! eigen projector of index i of a symmetric matrix whose eigenvalues are
  //! close to l[] (distinct): matched by nearest eigenvalue
  M3 projector(const M3& x, const R l[3], int i, int N) {
    R vp[3];
    M3 V;
    ref::jacobi(x, vp, V);
    int best = 0;
    if (N == 2 && i == 2) {
      // out of plane direction
      M3 p;
      p(2, 2) = 1;
      return p;
    }
    R d = -1;
    for (int k = 0; k < 3; ++k) {
      if (N == 2 && std::fabs(V(2, k)) > 0.5L) continue;  // skip the axial eigenvector
      const R e = std::fabs(vp[k] - l[i]);
      if (d < 0 || e < d) {
        d = e;
        best = k;
      }
    }
    R v[3] = {V(0, best), V(1, best), V(2, best)};
    return ref::dyad(v, v);
  }

  template <unsigned short N>
  void eigen(verif::Case& c) {
    using T = double;
    using S = stensor<N, T>;
    using C4 = st2tost2<N, T>;
    const double sc = gen::scale(c, 20);
    // distinct eigenvalues: relative gaps >= 0.05
    R l[3];
    l[0] = c.sreal(1., "l0");
    l[1] = l[0] + (c.boolean("sgn1") ? 1 : -1) * c.real(0.05, 1., "gap1");
    const R lo = std::min(l[0], l[1]), hi = std::max(l[0], l[1]);
    l[2] = c.boolean("above") ? hi + c.real(0.05, 1., "gap2") : lo - c.real(0.05, 1., "gap2");
    if (c.boolean("middle") && hi - lo > 0.1L) l[2] = lo + (hi - lo) * c.real(0.3, 0.7, "mid");
    const M3 Q0 = gen::rot(c, N);
    tvector<3u, T> vp;
    for (unsigned short i = 0; i < 3; ++i) vp[i] = static_cast<T>(l[i] * R(sc));
    const auto m = gen::toRotationMatrix<rotation_matrix<T>>(Q0);
    const M3 Q = gen::rotationMatrixToM3(m);
    M3 D;
    R lam[3];
    for (int i = 0; i < 3; ++i) D(i, i) = lam[i] = vp[i];
    const M3 X = ref::sym(Q * D * ref::transpose(Q));
    const M3 dir = fd::direction(c, N, SYM);
    c.nontrivial(N >= 2 && gen::misalignment(Q) > 1e-3 && fd::support(dir, N, SYM) >= 2);
    R gap = std::fabs(lam[0] - lam[1]);
    if (N == 3) gap = std::min({gap, std::fabs(lam[0] - lam[2]), std::fabs(lam[1] - lam[2])});
    const R nX = ref::norm(X);
    const R h = 1e-3L * gap;
    // eigen tensors n_i = e_i (x) e_i = d lambda_i / ds
    S n[3];
    S::computeEigenTensors(n[0], n[1], n[2], m);
    S dl[3];
    S::computeEigenValuesDerivatives(dl[0], dl[1], dl[2], m);
    const auto nn = S::computeEigenTensors(m);
    const R u = U<T>();
    // the columns of the rounded m are the eigenvectors of X up to u*|X|/gap
    const R tolP = 2048 * u * std::max<R>(1, nX / gap);
    for (int i = 0; i < 3; ++i) {
      const M3 P = projector(X, lam, i, N);
      cmpS(c, n[i], P, tolP, "C06.eigen.tensors", "computeEigenTensors");
      const S nt = i == 0 ? std::get<0>(nn) : (i == 1 ? std::get<1>(nn) : std::get<2>(nn));
      cmpS(c, nt, P, tolP, "C06.eigen.tensors", "computeEigenTensors (tuple)");
      // derivative of the eigenvalue: FD of lambda_i(s) = n_i(s):s
      const auto lambda = [&](const M3& x) { return ref::ddot(projector(x, lam, i, N), x); };
      fd::check2(c, dl[i], N, SYM, lambda, X, h, R(1), 1e-9L * std::max<R>(1, nX / gap), dir,
                 "C06.eigen.values_derivatives", "computeEigenValuesDerivatives");
    }
    // eigen tensors derivatives
    C4 dn[3];
    S::computeEigenTensorsDerivatives(dn[0], dn[1], dn[2], vp, m, static_cast<T>(1e-10L * gap));
    for (int i = 0; i < 3; ++i) {
      const auto ni = [&](const M3& x) { return projector(x, lam, i, N); };
      fd::check4(c, dn[i], N, SYM, SYM, ni, X, h, 1 / gap, 1e-8L * std::max<R>(1, nX / gap), dir,
                 "C06.eigen.tensors_derivatives", "computeEigenTensorsDerivatives");
    }
  }

}  // namespace

#define C06_INST(NAME, FCT)                          \
  VERIF_SUB(NAME##_1d) { FCT<1u, double>(c); }       \
  VERIF_SUB(NAME##_2d) { FCT<2u, double>(c); }       \
  VERIF_SUB(NAME##_3d) { FCT<3u, double>(c); }       \
  VERIF_SUB_W(NAME##_3f, 0.3) { FCT<3u, float>(c); }

C06_INST(determinant, determinant)
C06_INST(products, products)
C06_INST(stpd, stpd)
C06_INST(aba, aba)
VERIF_SUB_W(eigen_1d, 0.1) { eigen<1u>(c); }
VERIF_SUB(eigen_2d) { eigen<2u>(c); }
VERIF_SUB(eigen_3d) { eigen<3u>(c); }

VERIF_MAIN("C06_stensor")
