/*!
 * C03 - Symmetric eigen-solvers return a valid spectral decomposition.
 *
 * One source, four translation units (spec: cxxflags -DC03_PART=1..4) so that
 * the 8 solvers x {2D,3D} x {double,float} are compiled in parallel.
 *
 * Oracle: ref::jacobi (long double cyclic Jacobi, refmath.hxx) for the
 * eigenvalues + validity predicates on what the solver returns
 * (finite, orthonormal, reconstructs the tensor, computeEigenValues and
 * computeEigenVectors agree, documented 2D layout).
 *
 * Tolerances (u = epsilon of the tested type, |s| = Frobenius norm), all
 * calibrated over 8 seeds (mutants/C03.md):
 *   eigenvalues
 *     FSES Jacobi / QL / Cuppen, GTE QR, every solver in 2D : 8192 u |s|
 *     TFEL Cardano, Harari (3D)                             : 256 sqrt(u) |s|
 *       (docs/web/tensors.md: "more efficient but less accurate"; a repeated
 *       root of the characteristic polynomial is known to sqrt(u))
 *     Kopp's closed form syevc3 (FSES analytical, hybrid)    :
 *       256 sqrt(u)|s| min((|s|/|dev s|)^2, ...) see the body (uncentred
 *       characteristic polynomial)
 *   eigenvectors (orthonormality, reconstruction / |s|), by class of the
 *   reference spectrum (separated / near_degenerate / degenerate):
 *     Jacobi, QL, GTE: 8192 u; Cuppen: 2e6 u
 *     TFEL, Harari: 256 sqrt(u) separated; 256 u/gap near degenerate and
 *       0.5 degenerate (cross product eigenvectors, the code merges
 *       eigenvalues closer than 1000 u: u/sep can reach 1e-3), capped at 0.5
 *     Kopp based solvers: level of their eigenvalues when well conditioned,
 *       0.5 (gross failure only) when ill conditioned
 * Domain: |s|^6 and the 4th power of the non-zero components must not
 * under/overflow (scale 1e-30..1e30, float 1e-2..1e2; tiny components are
 * flushed to zero, counted in class in.flushed_tiny_component).
 */
#include "gens.hxx"
#include "TFEL/Math/stensor.hxx"
#include "TFEL/Math/tmatrix.hxx"
#include "TFEL/Math/tvector.hxx"

#ifndef C03_PART
#define C03_PART 1
#endif

using ref::M3;
using ref::R;
using namespace tfel::math;
using ES = stensor_common::EigenSolver;

namespace {

  template <typename T>
  constexpr R U() {
    return static_cast<R>(std::numeric_limits<T>::epsilon());
  }

  template <ES es>
  constexpr const char* esName() {
    if constexpr (es == ES::TFELEIGENSOLVER) return "tfel";
    else if constexpr (es == ES::FSESANALYTICALEIGENSOLVER) return "fsesanalytical";
    else if constexpr (es == ES::FSESJACOBIEIGENSOLVER) return "fsesjacobi";
    else if constexpr (es == ES::FSESQLEIGENSOLVER) return "fsesql";
    else if constexpr (es == ES::FSESCUPPENEIGENSOLVER) return "fsescuppen";
    else if constexpr (es == ES::FSESHYBRIDEIGENSOLVER) return "fseshybrid";
    else if constexpr (es == ES::GTESYMMETRICQREIGENSOLVER) return "gteqr";
    else return "harari";
  }
  //! analytical family (documented lower accuracy) - only in 3D
  template <ES es, unsigned short N>
  constexpr bool analytical() {
    return N == 3 && (es == ES::TFELEIGENSOLVER || es == ES::FSESANALYTICALEIGENSOLVER ||
                      es == ES::FSESHYBRIDEIGENSOLVER || es == ES::HARARIEIGENSOLVER);
  }

  // calibrated constants, see mutants/C03.md for the measured maxima
#ifndef C03_K_IT
#define C03_K_IT 8192
#endif
  constexpr R K_IT = C03_K_IT;   // x u |s|
  constexpr R K_AN = 256;   // x sqrt(u) |s|
  constexpr R K_NEAR = 256;  // x u |s| / gap, TFEL/Harari eigenvectors at near-degenerate spectra
#ifndef C03_K_CUPPEN
#define C03_K_CUPPEN 2e6
#endif
  constexpr R K_CUPPEN = C03_K_CUPPEN;  // x u, eigenvectors of the divide and conquer solver

  bool offdiag(const M3& m) {
    return m(0, 1) != 0 || m(0, 2) != 0 || m(1, 2) != 0;
  }
  int zeroComponents(const M3& m) {
    int n = 0;
    for (int i = 0; i < 3; ++i)
      for (int j = i; j < 3; ++j) n += m(i, j) == 0 ? 1 : 0;
    return n;
  }

  /*!
   * Symmetric tensor of dimension N with the emphasis classes of DESIGN C03.
   * \param u: unit round-off of the tested type (for the "k ulp apart" class)
   */
  M3 genTensor(verif::Case& c, int N, R u) {
    M3 m;
    auto spectral = [&](R l0, R l1, R l2, bool allowAxis) {
      M3 D;
      D(0, 0) = l0;
      D(1, 1) = l1;
      D(2, 2) = l2;
      if (allowAxis && c.chance(1, 3, "axis_aligned")) {
        // permutation only: exact equalities survive
        const auto p = c.integer(0, N == 3 ? 5 : 1, "perm");
        static const int P[6][3] = {{0, 1, 2}, {1, 0, 2}, {0, 2, 1}, {2, 1, 0}, {1, 2, 0}, {2, 0, 1}};
        M3 r;
        for (int i = 0; i < 3; ++i) r(i, i) = D(P[p][i], P[p][i]);
        return r;
      }
      const M3 q = gen::rot(c, N);
      return ref::sym(q * D * ref::transpose(q));
    };
    const auto cls = c.integer(0, 11, "class");
    switch (cls) {
      case 0:
      case 1:
        c.tag("in.dense");
        for (int i = 0; i < 3; ++i) m(i, i) = c.sreal(1., "d");
        m(0, 1) = m(1, 0) = c.sreal(1., "xy");
        if (N == 3) {
          m(0, 2) = m(2, 0) = c.sreal(1., "xz");
          m(1, 2) = m(2, 1) = c.sreal(1., "yz");
        }
        break;
      case 2:
        c.tag("in.diagonal");
        for (int i = 0; i < 3; ++i) m(i, i) = c.sreal(1., "d");
        break;
      case 3: {
        c.tag("in.diag_a00");
        const auto p = c.integer(0, 2, "pos");
        m(p, p) = c.boolean("unit") ? R(1) : R(c.sreal(1., "a"));
        if (c.chance(1, 4, "two_nonzero")) m((p + 1) % 3, (p + 1) % 3) = c.sreal(1., "b");
        break;
      }
      case 4:
        c.tag("in.zero");
        break;
      case 5: {
        c.tag("in.two_equal");
        const R a = c.sreal(1., "a"), b = c.sreal(1., "b");
        m = c.boolean("pair_first") ? spectral(a, a, b, true) : spectral(a, b, b, true);
        break;
      }
      case 6: {
        c.tag("in.three_equal");
        const R a = c.boolean("unit") ? R(1) : R(c.sreal(1., "a"));
        m(0, 0) = m(1, 1) = m(2, 2) = a;
        break;
      }
      case 7: {
        c.tag("in.nearly_equal");
        const R a = (c.boolean("neg") ? -1 : 1) * c.real(0.25, 1., "a");
        const R k1 = c.log10real(0, 6, "ulps1");
        const R k2 = c.log10real(0, 6, "ulps2");
        const auto third = c.integer(0, 2, "third");
        const R l2 = third == 0 ? -a : (third == 1 ? a * (1 - k2 * u) : a / 3);
        m = spectral(a, a * (1 + k1 * u), l2, true);
        break;
      }
      case 8: {
        c.tag("in.single_offdiag");
        const auto k = N == 3 ? c.integer(0, 2, "which") : 0;
        const int I[3] = {0, 0, 1}, J[3] = {1, 2, 2};
        m(I[k], J[k]) = m(J[k], I[k]) = c.boolean("unit") ? R(1) : R(c.sreal(1., "x"));
        const auto dg = c.integer(0, 2, "diag");
        if (dg == 1) m(0, 0) = m(1, 1) = m(2, 2) = c.sreal(1., "a");
        if (dg == 2)
          for (int i = 0; i < 3; ++i) m(i, i) = c.sreal(1., "d");
        break;
      }
      case 9: {
        c.tag("in.graded");
        const R s0 = c.boolean("neg") ? -1 : 1;
        m = spectral(s0, s0 * c.log10real(-6, -2, "g1"), c.log10real(-10, -6, "g2"), true);
        break;
      }
      case 10:
        c.tag("in.small_int");
        for (int i = 0; i < 3; ++i) m(i, i) = static_cast<R>(c.integer(-3, 3, "d"));
        m(0, 1) = m(1, 0) = static_cast<R>(c.integer(-3, 3, "xy"));
        if (N == 3) {
          m(0, 2) = m(2, 0) = static_cast<R>(c.integer(-3, 3, "xz"));
          m(1, 2) = m(2, 1) = static_cast<R>(c.integer(-3, 3, "yz"));
        }
        break;
      default:
        m = gen::sym(c, N, 1.);
    }
    return m;
  }

  template <typename T>
  bool finite3(const tvector<3u, T>& v) {
    return std::isfinite(v[0]) && std::isfinite(v[1]) && std::isfinite(v[2]);
  }
  template <typename T>
  bool finite33(const tmatrix<3u, 3u, T>& m) {
    for (unsigned short i = 0; i < 3; ++i)
      for (unsigned short j = 0; j < 3; ++j)
        if (!std::isfinite(m(i, j))) return false;
    return true;
  }
  //! exact decimal image of the stored (Mandel) components
  template <typename S>
  std::string show(const S& s) {
    std::ostringstream os;
    os.precision(std::numeric_limits<std::decay_t<decltype(s[0])>>::max_digits10);
    os << "stensor{";
    for (std::size_t k = 0; k < s.size(); ++k) os << (k ? "," : "") << s[k];
    os << "}";
    return os.str();
  }
  template <typename V>
  std::string show3(const V& v) {
    std::ostringstream os;
    os.precision(17);
    os << "(" << (double)v[0] << "," << (double)v[1] << "," << (double)v[2] << ")";
    return os.str();
  }

  template <ES es, unsigned short N, typename T>
  void spectral(verif::Case& c) {
    using S = stensor<N, T>;
    const std::string sol = esName<es>();
    const R u = U<T>();
    // scale: powers whose 6th power stays in range (closed forms use |s|^6)
    const double sc = gen::scale(c, std::is_same_v<T, float> ? 2 : 30);
    const M3 A0 = genTensor(c, N, u);
    const bool refine = c.boolean("refine");
    S s = gen::toStensor<S>(R(sc) * A0);
    // domain: components whose 4th power underflows (the Householder step of
    // FSES computes 1/x^2 and its square) are outside the domain, as are
    // overflow-scale tensors (DESIGN 3.1): flushed to zero, counted
    {
      const T floor_ = std::is_same_v<T, float> ? T(1e-8) : T(1e-70);
      bool flushed = false;
      for (auto& x : s)
        if (x != 0 && std::fabs(x) < floor_) {
          x = 0;
          flushed = true;
        }
      if (flushed) c.tag("in.flushed_tiny_component");
    }
    const M3 A = gen::stensorToM3(s);  // the value actually passed
    const R nA = ref::norm(A);
    const R tiny = static_cast<R>(std::numeric_limits<T>::min()) * 1e3L;
    // domain: |s|^6 must not underflow (closed forms), only possible in float
    // when a single tiny component survives: rare, discarded and counted
    if (std::is_same_v<T, float> && nA > 0 && nA < 1e-4L) c.discard();
    // reference spectrum
    R rvp[3];
    M3 RV;
    ref::jacobi(A, rvp, RV);
    R rs[3] = {rvp[0], rvp[1], rvp[2]};
    ref::sort3(rs);
    const R gmin = std::min(rs[1] - rs[0], rs[2] - rs[1]);
    const bool repeated = gmin <= 1e-6L * nA;
    const bool haszero = std::fabs(rs[0]) <= 1e-12L * nA || std::fabs(rs[1]) <= 1e-12L * nA ||
                         std::fabs(rs[2]) <= 1e-12L * nA;
    c.nontrivial(repeated || haszero || offdiag(A));
    if (repeated) c.tag("spectrum.repeated_or_near");
    if (haszero) c.tag("spectrum.zero_eigenvalue");
    if (offdiag(A)) c.tag("shape.nondiagonal");
    // ---- input classes (computed from the reference only, never from the
    // tested code).  They select tolerances and are part of the keys, so that
    // a recorded finding only excludes its own class.
    // (a) finiteness claim: zero eigenvalue of multiplicity >= 2 (zero tensor,
    // uniaxial states, rank one) or >= 3 exactly zero components: zero_block;
    // otherwise |lambda|min <= 1e-4 |lambda|max: graded
    int nzero = 0;
    R lmin = std::fabs(rs[0]), lmax = std::fabs(rs[0]);
    for (const R l : rs) {
      nzero += std::fabs(l) <= 8 * u * nA ? 1 : 0;
      lmin = std::min(lmin, std::fabs(l));
      lmax = std::max(lmax, std::fabs(l));
    }
    const bool zeroBlock = nzero >= 2 || zeroComponents(A) >= 3;
    const bool graded = !zeroBlock && lmin <= 1e-4L * lmax;
    if (zeroBlock) c.tag("shape.zero_block");
    if (graded) c.tag("spectrum.graded");
    const std::string fcls = zeroBlock ? ".zero_block" : (graded ? ".graded" : "");
    // (b) eigenvalue claim, Harari only: third invariant of the deviator zero
    // at working precision (the d = 1 branch of HarariEigenSolver.ixx)
    const M3 dA = ref::dev(A);
    const R ndA = ref::norm(dA);
    const bool zeroJ3 = ndA > 0 && std::fabs(ref::det(dA)) <= 64 * u * ndA * ndA * ndA;
    if (zeroJ3) c.tag("spectrum.zero_j3");
    const std::string ecls = (es == ES::HARARIEIGENSOLVER && N == 3 && zeroJ3) ? ".zero_j3" : "";
    // (c) eigenvector claims: gap classes relative to |s|.  A gap below 4u is
    // "equal" (what rounding the components of an exactly degenerate tensor
    // produces): degenerate; a gap in (4u, 1e-3): near_degenerate; otherwise
    // separated.
    R gB = 0;  // smallest near-degenerate relative gap, 0 if none
    bool degenerate = nA == 0;
    if (nA > 0) {
      for (const R g : {rs[1] - rs[0], rs[2] - rs[1]}) {
        const R gr = g / nA;
        if (gr <= 4 * u) degenerate = true;
        if (gr > 4 * u && gr < 1e-3L && (gB == 0 || gr < gB)) gB = gr;
      }
    }
    const bool nearDeg = gB > 0;
    std::string vcls;
    if (nearDeg) vcls = ".near_degenerate";
    else if (degenerate) vcls = ".degenerate";
    // Kopp's closed-form eigenvectors (FSES analytical, FSES hybrid) have no
    // crisp failure class: they degrade continuously with the gap and with the
    // decoupling of a basis vector.  Two classes only: ill_conditioned =
    // smallest relative gap < 0.05 or two off-diagonal terms below 1e-3 |s|.
    constexpr bool kopp = N == 3 && (es == ES::FSESANALYTICALEIGENSOLVER ||
                                     es == ES::FSESHYBRIDEIGENSOLVER);
    if (kopp) {
      const R small = 1e-3L * nA;
      const int zoff = (std::fabs(A(0, 1)) <= small) + (std::fabs(A(0, 2)) <= small) +
                       (std::fabs(A(1, 2)) <= small);
      vcls = (nA == 0 || gmin < 0.05L * nA || zoff >= 2) ? ".ill_conditioned" : "";
    }
    c.tag("spectrum" + (vcls.empty() ? std::string(".separated") : vcls));
    const bool illConditioned = vcls == ".ill_conditioned";
    // FSES analytical: failures were found in every class (its error estimate
    // ignores the cancellation in the uncentred products): one key for the
    // whole eigenvector claim of that solver
    if (N == 3 && es == ES::FSESANALYTICALEIGENSOLVER) vcls.clear();

    // ---- tolerances, relative to |s| (see the header of this file)
    constexpr bool an = analytical<es, N>();
    constexpr bool cuppen = N == 3 && es == ES::FSESCUPPENEIGENSOLVER;
    const R su = std::sqrt(u);
    R rel_v;  // eigenvalues
    if (kopp) {
      // Kopp's closed form (syevc3) works on the uncentred characteristic
      // polynomial: its discriminant is a difference of terms of size |s|^6
      // known to k u |s|^6; phi = atan2(sqrt(disc), q)/3 with |q| ~ 2 p^1.5,
      // p = 1.5 |dev s|^2, so the eigenvalue error is
      // ~ sqrt(k u) |s| (|s|/|dev s|)^2 / 3, and never more than
      // c |dev s| + sqrt(k u)|s| (all roots are m/3 + O(sqrt p), p itself is
      // known to k u |s|^2).
      // measured (8 seeds): error <= 0.65 sqrt(u)|s|/r^2 and <= 1.3 |dev s|
      // with r = |dev s|/|s|; both laws get the same factor K_AN (>= 100 x)
      const R r = nA > 0 ? ndA / nA : 0;
      rel_v = K_AN * r + K_AN * su;
      if (r > 0) rel_v = std::min(rel_v, K_AN * su / (r * r));
      rel_v = std::max(rel_v, K_AN * su);
    } else {
      rel_v = an ? K_AN * su : K_IT * u;
    }
    const R tolv = rel_v * nA + tiny;
    R tolq;  // eigenvectors: orthonormality (absolute), reconstruction (x |s|)
    if (!an) {
      tolq = cuppen ? K_CUPPEN * u : K_IT * u;
    } else if (kopp) {
      // separated spectra: the level of the eigenvalues; (nearly) repeated
      // eigenvalues: Kopp 2008 does not control the accuracy of the cross
      // product eigenvectors there, only gross failures (singular V) are
      // reported
      tolq = illConditioned ? R(0.5) : rel_v;
    } else {
      // TFEL Cardano / Harari (both use StensorComputeEigenVectors<3>):
      // cross-product eigenvectors, error ~ u |s| / sep where sep is the
      // separation of the *computed* eigenvalues.  Eigenvalues closer than
      // rel_prec = 1000 u are treated as equal by that code; a repeated
      // eigenvalue is computed with an error up to sqrt(u)|s| so that sep can
      // be anywhere above 1000 u in the degenerate class.
      tolq = K_AN * su;
      if (degenerate) tolq = R(0.5);  // K_NEAR u / (1000 u) = 0.256, observed 3.3e-3: gross failures only
      else if (nearDeg) tolq = std::min(R(0.5), std::max(tolq, K_NEAR * u / std::max(gB, 1000 * u)));
    }
#ifdef C03_CALIB
    tolq = 1e30L;  // calibration builds only record the raw errors
#endif
    const R tolr = tolq * nA + tiny;
    const std::string fam = an ? "analytical" : "accurate";
    const std::string dim = N == 2 ? ".2d" : ".3d";

    // ---- computeEigenValues
    T v0, v1, v2;
    s.template computeEigenValues<es>(v0, v1, v2, refine);
    tvector<3u, T> vals{v0, v1, v2};
    c.check(finite3(vals), "C03.finite." + sol + fcls,
            "computeEigenValues<" + sol + "> returned " + show3(vals) + " for " + show(s));
    R vs[3] = {v0, v1, v2};
    ref::sort3(vs);
    for (int k = 0; k < 3; ++k) {
      c.close(vs[k], rs[k], tolv, "C03.eigenvalues." + fam + "." + sol + ecls,
              "computeEigenValues<" + sol + ">, sorted eigenvalue " + std::to_string(k) + " of " +
                  show(s));
      if (nA > 0)
        c.err("raw_u.eigenvalues." + sol + dim,
              static_cast<double>(std::fabs(vs[k] - rs[k]) / (u * nA)));
      if (kopp && ndA > 0) {
        const R r = ndA / nA;
        c.err("raw_kopp.r2_over_sqrtu." + sol,
              static_cast<double>(std::fabs(vs[k] - rs[k]) * r * r / (su * nA)));
        c.err("raw_kopp.over_dev." + sol, static_cast<double>(std::fabs(vs[k] - rs[k]) / ndA));
      }
    }
    if (N == 2) {
      // documented: "In 2D, the last eigenvalue always corresponds to the
      // out-of-plane direction"
      c.check(v2 == s[2], "C03.layout2d." + sol, "third eigenvalue is not s(2)");
    }

    // ---- computeEigenVectors
    tvector<3u, T> vp;
    tmatrix<3u, 3u, T> m;
    s.template computeEigenVectors<es>(vp, m, refine);
    c.check(finite3(vp) && finite33(m), "C03.finite." + sol + fcls,
            "computeEigenVectors<" + sol + "> returned non-finite values, vp=" + show3(vp) +
                " for " + show(s));
    R ws[3] = {vp[0], vp[1], vp[2]};
    ref::sort3(ws);
    for (int k = 0; k < 3; ++k) {
      c.close(ws[k], rs[k], tolv, "C03.eigenvalues." + fam + "." + sol + ecls,
              "computeEigenVectors<" + sol + ">, sorted eigenvalue " + std::to_string(k) + " of " +
                  show(s));
      // (5) both entry points agree (each is within tolv of the reference)
      c.close(ws[k], vs[k], 2 * tolv, "C03.values_vs_vectors." + sol + ecls,
              "eigenvalues of computeEigenValues and computeEigenVectors differ");
    }
    const M3 V = gen::rotationMatrixToM3(m);
    // Harari: in the zero_j3 class a wrong eigenvalue that is still within the
    // eigenvalue tolerance (small trace) also spoils its eigenvector: same
    // defect, same class in the key
    const std::string vkey =
        "C03.eigenvectors." + fam + "." + sol + (ecls.empty() ? vcls : ecls);
    // (3) orthonormality
    const R eo = ref::norm(ref::transpose(V) * V - M3::Id());
    c.err("raw_u.orthonormality." + sol + dim + vcls, static_cast<double>(eo / u));
    if (an && !kopp && nearDeg) c.err("raw_gap.orthonormality." + sol, static_cast<double>(eo * gB / u));
    c.close(eo, 0, tolq, vkey, "||V^T V - I|| for " + show(s));
    // (4) reconstruction
    M3 D;
    for (int i = 0; i < 3; ++i) D(i, i) = vp[i];
    const R er = ref::norm(V * D * ref::transpose(V) - A);
    if (nA > 0) {
      c.err("raw_u.reconstruction." + sol + dim + vcls, static_cast<double>(er / (u * nA)));
      if (an && !kopp && nearDeg)
        c.err("raw_gap.reconstruction." + sol, static_cast<double>(er * gB / (u * nA)));
    }
    c.close(er, 0, tolr, vkey, "||V diag(vp) V^T - s|| for " + show(s) + " vp=" + show3(vp));
    if (N == 2) {
      c.check(vp[2] == s[2], "C03.layout2d." + sol, "third eigenvalue is not s(2)");
      const bool ok = std::fabs(std::fabs(V(2, 2)) - 1) <= tolq && std::fabs(V(0, 2)) <= tolq &&
                      std::fabs(V(1, 2)) <= tolq && std::fabs(V(2, 0)) <= tolq &&
                      std::fabs(V(2, 1)) <= tolq;
      c.check(ok, "C03.layout2d." + sol, "third eigenvector is not the out-of-plane direction");
    }
  }

}  // namespace

#define C03_SOLVER(NAME, SOLVER)                                            \
  VERIF_SUB(NAME##_2d) { spectral<ES::SOLVER, 2u, double>(c); }             \
  VERIF_SUB(NAME##_3d) { spectral<ES::SOLVER, 3u, double>(c); }             \
  VERIF_SUB_W(NAME##_2f, 0.5) { spectral<ES::SOLVER, 2u, float>(c); }       \
  VERIF_SUB_W(NAME##_3f, 0.5) { spectral<ES::SOLVER, 3u, float>(c); }

#if C03_PART == 1
C03_SOLVER(tfel, TFELEIGENSOLVER)
C03_SOLVER(harari, HARARIEIGENSOLVER)
VERIF_MAIN("C03_analytical1")
#elif C03_PART == 2
C03_SOLVER(fsesanalytical, FSESANALYTICALEIGENSOLVER)
C03_SOLVER(fseshybrid, FSESHYBRIDEIGENSOLVER)
VERIF_MAIN("C03_analytical2")
#elif C03_PART == 3
C03_SOLVER(fsesjacobi, FSESJACOBIEIGENSOLVER)
C03_SOLVER(fsesql, FSESQLEIGENSOLVER)
VERIF_MAIN("C03_iterative1")
#else
C03_SOLVER(fsescuppen, FSESCUPPENEIGENSOLVER)
C03_SOLVER(gteqr, GTESYMMETRICQREIGENSOLVER)
VERIF_MAIN("C03_iterative2")
#endif
