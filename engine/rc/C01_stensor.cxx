/*!
 * C01 - Symmetric tensor algebra matches its 3x3 matrix meaning.
 * Oracle: ref:: long double dense algebra (refmath.hxx), differential.
 * Non-trivial: N >= 2 with at least one non-zero off-diagonal component.
 */
#include "gens.hxx"
#include "TFEL/Math/stensor.hxx"
#include "TFEL/Math/tmatrix.hxx"
#include "TFEL/Math/tvector.hxx"
#include "TFEL/Math/st2tost2.hxx"

using ref::M3;
using ref::R;
using namespace tfel::math;

namespace {

  template <typename T>
  constexpr R U() {
    return static_cast<R>(std::numeric_limits<T>::epsilon());
  }

  bool offdiag(const M3& m) {
    return m(0, 1) != 0 || m(0, 2) != 0 || m(1, 2) != 0;
  }

  //! compare a TFEL stensor with a reference matrix, component by component
  template <typename S>
  void cmp(verif::Case& c, const S& s, const M3& e, R tol, const std::string& key,
           const std::string& what) {
    const auto N = s.size() == 3 ? 1 : (s.size() == 4 ? 2 : 3);
    const auto v = ref::toStensor(e);
    for (int k = 0; k < ref::stensorSize(N); ++k) {
      c.close(static_cast<R>(s[k]), v[k], tol, key,
              what + " component " + std::to_string(k));
    }
  }

  template <unsigned short N, typename T>
  void algebra(verif::Case& c) {
    using S = stensor<N, T>;
    const int kmax = std::is_same_v<T, float> ? 10 : 30;
    const double sc = gen::scale(c, kmax);
    const S a = gen::toStensor<S>(gen::sym(c, N, sc));
    const S b = gen::toStensor<S>(gen::sym(c, N, sc));
    const M3 A = gen::stensorToM3(a), B = gen::stensorToM3(b);
    c.nontrivial(N >= 2 && (offdiag(A) || offdiag(B)));
    const R u = U<T>();
    const R nA = ref::norm(A), nB = ref::norm(B);
    const R tiny = static_cast<R>(std::numeric_limits<T>::min()) * 1e3L;
    // trace
    c.close(trace(a), ref::trace(A), 64 * u * nA + tiny, "C01.trace", "trace");
    // contraction == Frobenius inner product
    c.close(a | b, ref::ddot(A, B), 64 * u * nA * nB + tiny, "C01.contraction",
            "a|b");
    // determinant
    c.close(det(a), ref::det(A), 64 * u * nA * nA * nA + tiny, "C01.det", "det");
    // deviator
    cmp(c, S(deviator(a)), ref::dev(A), 64 * u * nA + tiny, "C01.deviator", "deviator");
    // von Mises
    c.close(sigmaeq(a), ref::vonMises(A), 64 * u * nA + tiny, "C01.sigmaeq", "sigmaeq");
    // square
    cmp(c, S(square(a)), A * A, 64 * u * nA * nA + tiny, "C01.square", "square");
    // symmetric product: (a.b+b.a)/2 (docs/web/tensors.md; the header comment
    // omits the 1/2, see release notes 3.0.18 / issue 998)
    cmp(c, S(symmetric_product(a, b)), R(0.5) * (A * B + B * A), 128 * u * nA * nB + tiny,
        "C01.symmetric_product", "symmetric_product");
    // linear combinations through expression templates
    cmp(c, S(a + b), A + B, 8 * u * (nA + nB) + tiny, "C01.sum", "a+b");
    cmp(c, S(2 * a - b), R(2) * A - B, 8 * u * (2 * nA + nB) + tiny, "C01.lincomb",
        "2a-b");
  }

  template <unsigned short N, typename T>
  void inverse(verif::Case& c) {
    using S = stensor<N, T>;
    const double sc = gen::scale(c, std::is_same_v<T, float> ? 8 : 30);
    // SPD-like construction with bounded conditioning, random signs
    M3 m = gen::spd(c, N, 1e-3, 1.);
    if (c.boolean("negate")) m = R(-1) * m;
    const S a = gen::toStensor<S>(R(sc) * m);
    const M3 A = gen::stensorToM3(a);
    R vp[3];
    M3 V;
    ref::jacobi(A, vp, V);
    R lmin = std::fabs(vp[0]), lmax = std::fabs(vp[0]);
    for (auto x : vp) {
      lmin = std::min(lmin, std::fabs(x));
      lmax = std::max(lmax, std::fabs(x));
    }
    if (lmin == 0) c.discard();
    const R cond = lmax / lmin;
    c.nontrivial(N >= 2 && offdiag(A));
    const S ia = invert(a);
    const M3 IA = ref::inverse(A);
    const R u = U<T>();
    cmp(c, ia, IA, 256 * u * cond * ref::norm(IA), "C01.invert", "invert");
    const M3 P = A * gen::stensorToM3(ia) - M3::Id();
    c.check(ref::norm(P) <= 256 * u * cond, "C01.invert",
            "||A inv(A) - I|| = " + std::to_string(static_cast<double>(ref::norm(P))));
  }

  template <unsigned short N, typename T>
  void basis(verif::Case& c) {
    using S = stensor<N, T>;
    const double sc = gen::scale(c, std::is_same_v<T, float> ? 10 : 30);
    const S a = gen::toStensor<S>(gen::sym(c, N, sc));
    const M3 A = gen::stensorToM3(a);
    const auto r = gen::toRotationMatrix<rotation_matrix<T>>(gen::rot(c, N));
    const M3 Rm = gen::rotationMatrixToM3(r);
    c.nontrivial(N >= 2 && gen::misalignment(Rm) > 1e-3 && ref::norm(A) > 0);
    const R u = U<T>();
    const R tiny = static_cast<R>(std::numeric_limits<T>::min()) * 1e3L;
    const R tol = 128 * u * ref::norm(A) + tiny;
    const M3 E = ref::transpose(Rm) * A * Rm;  // change_basis(s,r) = r^T s r
    cmp(c, S(change_basis(a, r)), E, tol, "C01.change_basis", "change_basis");
    S a2 = a;
    a2.changeBasis(r);
    cmp(c, a2, E, tol, "C01.change_basis", "changeBasis (in place)");
    // documented equivalence with the st2tost2 rotation operator
    const auto rs = st2tost2<N, T>::fromRotationMatrix(r);
    cmp(c, S(rs * a), E, 4 * tol, "C01.change_basis_st2tost2",
        "st2tost2::fromRotationMatrix(r)*s");
    // invariants
    c.close(trace(S(change_basis(a, r))), ref::trace(A), tol, "C01.change_basis",
            "trace invariance");
  }

  template <unsigned short N, typename T>
  void roundtrips(verif::Case& c) {
    using S = stensor<N, T>;
    constexpr auto n = StensorDimeToSize<N>::value;
    const double sc = gen::scale(c, std::is_same_v<T, float> ? 10 : 30);
    const M3 A0 = gen::sym(c, N, sc);
    const S a = gen::toStensor<S>(A0);
    const M3 A = gen::stensorToM3(a);
    c.nontrivial(N >= 2 && offdiag(A));
    const R u = U<T>();
    const R tiny = static_cast<R>(std::numeric_limits<T>::min()) * 1e3L;
    const R tol = 8 * u * ref::maxabs(A) + tiny;
    // exportTab gives the matrix components (Voigt for stresses, no factor)
    T tab[6] = {0, 0, 0, 0, 0, 0};
    a.exportTab(tab);
    for (int k = 0; k < static_cast<int>(n); ++k) {
      int i, j;
      ref::stensorIndex(k, i, j);
      c.close(tab[k], A(i, j), tol, "C01.exportTab", "exportTab");
    }
    S b;
    b.importTab(tab);
    for (int k = 0; k < static_cast<int>(n); ++k)
      c.close(b[k], a[k], 8 * u * std::fabs(static_cast<R>(a[k])) + tiny, "C01.importTab_exportTab",
              "importTab(exportTab)");
    // importTab then exportTab on raw arrays
    T raw[6], raw2[6];
    for (int k = 0; k < 6; ++k) raw[k] = static_cast<T>(c.sreal(sc, "raw"));
    S d;
    d.importTab(raw);
    d.exportTab(raw2);
    for (int k = 0; k < static_cast<int>(n); ++k)
      c.close(raw2[k], raw[k], 8 * u * std::fabs(static_cast<R>(raw[k])) + tiny,
              "C01.exportTab_importTab", "exportTab(importTab)");
    // importVoigt: engineering shear strains (gamma = 2 eps)
    S e;
    e.importVoigt(raw);
    const M3 E = gen::stensorToM3(e);
    for (int k = 0; k < static_cast<int>(n); ++k) {
      int i, j;
      ref::stensorIndex(k, i, j);
      const R expected = k < 3 ? static_cast<R>(raw[k]) : static_cast<R>(raw[k]) / 2;
      c.close(E(i, j), expected, 8 * u * std::fabs(static_cast<R>(raw[k])) + tiny, "C01.importVoigt",
              "importVoigt");
    }
    // get/setComponent
    const int imax = N == 1 ? 1 : 3;
    for (int rep = 0; rep < 3; ++rep) {
      unsigned short i = static_cast<unsigned short>(c.integer(0, 2, "i"));
      unsigned short j = static_cast<unsigned short>(c.integer(0, 2, "j"));
      if (N == 1) j = i;
      if (N == 2 && (i == 2 || j == 2)) i = j = 2;
      (void)imax;
      c.close(getComponent(a, i, j), A(i, j), tol, "C01.getComponent", "getComponent");
      const T x = static_cast<T>(c.sreal(sc, "x"));
      S g = a;
      setComponent<T>(g, i, j, x);
      c.close(getComponent(g, i, j), x, 8 * u * std::fabs(static_cast<R>(x)) + tiny,
              "C01.setComponent", "getComponent(setComponent)");
      const M3 G = gen::stensorToM3(g);
      c.close(G(i, j), x, 8 * u * std::fabs(static_cast<R>(x)) + tiny, "C01.setComponent",
              "matrix entry after setComponent");
      c.close(G(j, i), x, 8 * u * std::fabs(static_cast<R>(x)) + tiny, "C01.setComponent",
              "symmetric entry after setComponent");
    }
  }

  template <unsigned short N, typename T>
  void builders(verif::Case& c) {
    using S = stensor<N, T>;
    const double sc = gen::scale(c, std::is_same_v<T, float> ? 10 : 30);
    const R u = U<T>();
    // buildFromMatrix
    const M3 A0 = gen::sym(c, N, sc);
    tmatrix<3, 3, T> m;
    for (unsigned short i = 0; i < 3; ++i)
      for (unsigned short j = 0; j < 3; ++j) m(i, j) = static_cast<T>(A0(i, j));
    M3 Am;
    for (unsigned short i = 0; i < 3; ++i)
      for (unsigned short j = 0; j < 3; ++j) Am(i, j) = m(i, j);
    c.nontrivial(N >= 2 && offdiag(Am));
    cmp(c, S(S::buildFromMatrix(m)), ref::sym(Am), 8 * u * ref::maxabs(Am),
        "C01.buildFromMatrix", "buildFromMatrix");
    // dyadic products
    // the builders take 3-vectors whatever N; only vectors whose dyadic
    // product is representable in dimension N are generated (N=1: one axis,
    // N=2: in-plane or axial)
    tvector<3u, T> v1(T(0)), v2(T(0));
    R r1[3] = {0, 0, 0}, r2[3] = {0, 0, 0};
    {
      unsigned short lo = 0, hi = 2;
      if (N == 1) lo = hi = static_cast<unsigned short>(c.integer(0, 2, "axis"));
      if (N == 2) {
        if (c.chance(1, 4, "axial")) lo = hi = 2;
        else hi = 1;
      }
      for (unsigned short i = lo; i <= hi; ++i) {
        v1[i] = static_cast<T>(c.sreal(1., "v1"));
        v2[i] = static_cast<T>(c.sreal(1., "v2"));
        r1[i] = v1[i];
        r2[i] = v2[i];
      }
    }
    cmp(c, S(S::buildFromVectorDiadicProduct(v1)), ref::dyad(r1, r1), 16 * u,
        "C01.buildFromVectorDiadicProduct", "v (x) v");
    // documented: v1 (x) v2 + v2 (x) v1
    cmp(c, S(S::buildFromVectorsSymmetricDiadicProduct(v1, v2)),
        ref::dyad(r1, r2) + ref::dyad(r2, r1), 32 * u,
        "C01.buildFromVectorsSymmetricDiadicProduct", "v1 (x) v2 + v2 (x) v1");
    // eigen values and vectors: s = V diag(vp) V^T, V's columns are the vectors
    const M3 Q = gen::rot(c, N);
    const auto q = gen::toRotationMatrix<rotation_matrix<T>>(Q);
    const M3 Qr = gen::rotationMatrixToM3(q);
    tvector<3u, T> vp;
    M3 D;
    for (unsigned short i = 0; i < 3; ++i) {
      vp[i] = static_cast<T>(c.sreal(sc, "vp"));
      D(i, i) = vp[i];
    }
    const M3 E = Qr * D * ref::transpose(Qr);
    cmp(c, S(S::buildFromEigenValuesAndVectors(vp, q)), E, 64 * u * ref::norm(D),
        "C01.buildFromEigenValuesAndVectors", "buildFromEigenValuesAndVectors");
    cmp(c, S(S::buildFromEigenValuesAndVectors(vp[0], vp[1], vp[2], q)), E,
        64 * u * ref::norm(D), "C01.buildFromEigenValuesAndVectors",
        "buildFromEigenValuesAndVectors(3 scalars)");
    // relation the library relies on: change_basis(diag(vp), transpose(q)) = s
    S dg(T(0));
    for (unsigned short i = 0; i < 3; ++i) dg[i] = vp[i];
    cmp(c, S(change_basis(dg, transpose(q))), E, 64 * u * ref::norm(D),
        "C01.change_basis_direction", "change_basis(diag, transpose(V))");
  }

}  // namespace

#define C01_INST(NAME, FCT)                                   \
  VERIF_SUB(NAME##_1d) { FCT<1u, double>(c); }                \
  VERIF_SUB(NAME##_2d) { FCT<2u, double>(c); }                \
  VERIF_SUB(NAME##_3d) { FCT<3u, double>(c); }                \
  VERIF_SUB_W(NAME##_2f, 0.5) { FCT<2u, float>(c); }          \
  VERIF_SUB_W(NAME##_3f, 0.5) { FCT<3u, float>(c); }

C01_INST(algebra, algebra)
C01_INST(inverse, inverse)
C01_INST(basis, basis)
C01_INST(roundtrips, roundtrips)
C01_INST(builders, builders)

VERIF_MAIN("C01_stensor")
