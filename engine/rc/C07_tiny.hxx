/*!
 * C07 - fixed size solvers (TinyMatrixSolve vector / matrix right hand sides,
 * explicit decomp + back_substitute, TinyMatrixInvert).  Included by the
 * C07_tiny_*.cxx translation units, which define the size set through
 * C07_SIZES(X) (and optionally C07_FLOAT_SIZES(X)) before including this file.
 *
 * Oracle (long double, refmath.hxx dense helpers):
 *  - success reported  => |b - A x|_inf <= K n u cond_inf (|A||x| + |b|)   (K = 512)
 *  - exactly singular by construction (null row / column, all zero; n<=3 closed
 *    forms: proportional integer rows)  => failure reported (false or LUException)
 *  - safely non singular (u cond < 1e-4) => no failure reported
 * Non trivial: n >= 2 and (a row exchange happened in the LU decomposition or
 * the matrix is singular by construction).
 */
#include "C07_common.hxx"
#include "TFEL/Math/tvector.hxx"
#include "TFEL/Math/tmatrix.hxx"
#include "TFEL/Math/TinyMatrixSolve.hxx"
#include "TFEL/Math/TinyMatrixInvert.hxx"

namespace {

  using namespace tfel::math;
  using c07::R;
  using c07::System;
  using c07::Vec;

  template <typename T>
  struct Lim;
  template <>
  struct Lim<double> {
    static constexpr int kmax = 20, condexp = 9;
  };
  template <>
  struct Lim<float> {
    static constexpr int kmax = 4, condexp = 3;
  };
  constexpr R Ksolve = 512;
  //! n == 3 closed form: class of matrices with a recorded finding (cofactor cancellation)
  template <unsigned short N>
  std::string cofactorClass(const System& s) {
    return (N == 3 && s.cofactor_growth > 4) ? "C07.closed_form3.residual.cofactor_cancellation" : "";
  }

  template <unsigned short N, typename T>
  tmatrix<N, N, T> toTiny(const System& s) {
    tmatrix<N, N, T> m;
    for (unsigned short i = 0; i < N; ++i)
      for (unsigned short j = 0; j < N; ++j) m(i, j) = static_cast<T>(s.A[i * N + j]);
    return m;
  }

  //! did the LU decomposition exchange rows? (LUDecomp is what every N >= 4 path runs)
  template <unsigned short N, typename T>
  bool swapped(const System& s) {
    auto m = toTiny<N, T>(s);
    TinyPermutation<N> p;
    const bool ok = TinyMatrixSolve<N, T, false>::decomp(m, p);
    (void)ok;
    return !p.isIdentity();
  }

  template <unsigned short N, typename T>
  void markNontrivial(verif::Case& c, const System& s) {
    const bool sw = N >= 2 && swapped<N, T>(s);
    if (sw) c.tag("lu.row_exchange");
    c.nontrivial(N >= 2 && (sw || s.singular));
  }

  /*!
   * common verdict.  `detects`: the algorithm is guaranteed to meet an exactly
   * null pivot / determinant on this singular matrix.
   */
  template <typename T>
  void verdict(verif::Case& c, const System& s, const bool ok, const bool detects,
               const std::string& api, const std::function<void()>& checkOnSuccess) {
    if (s.singular) {
      if (detects) {
        c.check(!ok, "C07." + api + ".singular_not_reported",
                api + ": success reported for a matrix with an exactly null pivot/determinant (n=" +
                    std::to_string(s.n) + ")");
      }
      return;
    }
    if (ok) {
      checkOnSuccess();
    } else {
      c.tag("reported_failure_nonsingular");
      c.check(!c07::mustSucceed<T>(s), "C07." + api + ".spurious_failure",
              api + ": failure reported for a safely non singular matrix (n=" + std::to_string(s.n) +
                  ", cond " + std::to_string(static_cast<double>(s.cond)) + ")");
    }
  }

  // ------------------------------------------------------------------ vector rhs
  template <unsigned short N, typename T, bool EX>
  void solveVec(verif::Case& c) {
    const System s = c07::genSystem<T>(c, N, Lim<T>::kmax, Lim<T>::condexp);
    const Vec b = c07::genRhs<T>(c, s, Lim<T>::kmax);
    markNontrivial<N, T>(c, s);
    auto m = toTiny<N, T>(s);
    tvector<N, T> v;
    for (unsigned short i = 0; i < N; ++i) v(i) = static_cast<T>(b[i]);
    bool ok = false;
    try {
      ok = TinyMatrixSolve<N, T, EX>::exe(m, v);
    } catch (const LUException&) {
      ok = false;
      c.tag("threw.LUException");
      c.check(EX, "C07.solve_vec.exception_policy", "exception thrown although use_exceptions == false");
    }
    const std::string api = std::string("solve_vec") + (N <= 3 ? ".closed_form" : ".lu");
    verdict<T>(c, s, ok, N <= 3 || !s.proportional, api, [&] {
      Vec x(N);
      for (unsigned short i = 0; i < N; ++i) x[i] = static_cast<R>(v(i));
      c07::checkSolution<T>(c, s, b, x, Ksolve, "C07." + api + ".residual", "TinyMatrixSolve::exe (vector)",
                             s.cofactor_growth, cofactorClass<N>(s));
    });
  }

  // ------------------------------------------------------------------ matrix rhs
  template <unsigned short N, unsigned short M, typename T>
  void solveMat(verif::Case& c) {
    const System s = c07::genSystem<T>(c, N, Lim<T>::kmax, Lim<T>::condexp);
    std::vector<Vec> bs;
    const bool identity = M == N && c.boolean("identity_rhs");
    for (unsigned short k = 0; k < M; ++k) {
      if (identity) {
        Vec e(N, 0);
        e[k] = 1;
        bs.push_back(e);
      } else {
        bs.push_back(c07::genRhs<T>(c, s, Lim<T>::kmax));
      }
    }
    markNontrivial<N, T>(c, s);
    auto m = toTiny<N, T>(s);
    tmatrix<N, M, T> B;
    for (unsigned short i = 0; i < N; ++i)
      for (unsigned short k = 0; k < M; ++k) B(i, k) = static_cast<T>(bs[k][i]);
    bool ok = false;
    try {
      ok = TinyMatrixSolve<N, T>::exe(m, B);
    } catch (const LUException&) {
      ok = false;
      c.tag("threw.LUException");
    }
    const std::string api = std::string("solve_mat") + (N <= 3 ? ".closed_form" : ".lu");
    verdict<T>(c, s, ok, N <= 3 || !s.proportional, api, [&] {
      for (unsigned short k = 0; k < M; ++k) {
        Vec x(N);
        for (unsigned short i = 0; i < N; ++i) x[i] = static_cast<R>(B(i, k));
        c07::checkSolution<T>(c, s, bs[k], x, Ksolve, "C07." + api + ".residual",
                              "TinyMatrixSolve::exe (matrix rhs, column " + std::to_string(k) + ")",
                              s.cofactor_growth, cofactorClass<N>(s));
      }
    });
  }

  // ------------------------------------------------------------------ decomp + back substitution
  template <unsigned short N, typename T>
  void decompBacksub(verif::Case& c) {
    const System s = c07::genSystem<T>(c, N, Lim<T>::kmax, Lim<T>::condexp);
    const Vec b1 = c07::genRhs<T>(c, s, Lim<T>::kmax);
    const Vec b2 = c07::genRhs<T>(c, s, Lim<T>::kmax);
    auto m = toTiny<N, T>(s);
    TinyPermutation<N> p;
    bool ok = false;
    int d = 0;
    tvector<N, T> v1, v2;
    for (unsigned short i = 0; i < N; ++i) {
      v1(i) = static_cast<T>(b1[i]);
      v2(i) = static_cast<T>(b2[i]);
    }
    try {
      const auto r = LUDecomp<false>::exe(m, p);
      ok = r.first;
      d = r.second;
      if (ok) {
        // the decomposition is reused for two right hand sides
        ok = TinyMatrixSolve<N, T, true>::back_substitute(m, p, v1);
        ok = TinyMatrixSolve<N, T, true>::back_substitute(m, p, v2) && ok;
      }
    } catch (const LUException&) {
      ok = false;
      c.tag("threw.LUException");
    }
    const bool sw = !p.isIdentity();
    if (sw) c.tag("lu.row_exchange");
    c.nontrivial(N >= 2 && (sw || s.singular));
    verdict<T>(c, s, ok, !s.proportional, "decomp_backsub", [&] {
      Vec x1(N), x2(N);
      for (unsigned short i = 0; i < N; ++i) {
        x1[i] = static_cast<R>(v1(i));
        x2[i] = static_cast<R>(v2(i));
      }
      c07::checkSolution<T>(c, s, b1, x1, Ksolve, "C07.decomp_backsub.residual", "decomp + back_substitute (1st rhs)");
      c07::checkSolution<T>(c, s, b2, x2, Ksolve, "C07.decomp_backsub.residual", "decomp + back_substitute (2nd rhs)");
      // determinant = d * product of the pivots (used by det(st2tost2), det(t2tot2))
      if (s.has_inverse) {
        R det = d;
        for (unsigned short i = 0; i < N; ++i) det *= static_cast<R>(m(p(i), i));
        const R dref = ref::detN(N, s.A);
        const R rel = Ksolve * N * c07::U<T>() * s.cond;
        if (rel < R(0.25) && std::isfinite(static_cast<double>(dref)) && dref != 0 &&
            std::fabs(dref) > static_cast<R>(std::numeric_limits<T>::min()) * 1e6L) {
          c.close(det / dref, 1, rel, "C07.decomp_backsub.determinant", "d * prod(pivots) / det(A)");
        }
      }
    });
  }

  // ------------------------------------------------------------------ inverse
  template <unsigned short N, typename T>
  void invert(verif::Case& c) {
    const System s = c07::genSystem<T>(c, N, Lim<T>::kmax, Lim<T>::condexp);
    markNontrivial<N, T>(c, s);
    auto m = toTiny<N, T>(s);
    bool ok = true;
    try {
      TinyMatrixInvert<N, T>::exe(m);
    } catch (const LUException&) {
      ok = false;
      c.tag("threw.LUException");
    }
    // TinyMatrixInvert always goes through the LU decomposition (also for N <= 3)
    verdict<T>(c, s, ok, !s.proportional, "invert", [&] {
      if (!s.has_inverse) return;
      // |A inv - I|_inf <= K n u cond
      R worst = 0;
      for (unsigned short i = 0; i < N; ++i) {
        R rs = 0;
        for (unsigned short j = 0; j < N; ++j) {
          c.check(std::isfinite(static_cast<double>(m(i, j))), "C07.invert.residual", "non finite inverse");
          R v = 0;
          for (unsigned short k = 0; k < N; ++k) v += s.A[i * N + k] * static_cast<R>(m(k, j));
          rs += std::fabs(v - (i == j ? 1 : 0));
        }
        worst = std::max(worst, rs);
      }
      // each column is a solve of its own: n times the bound of one solve
      const R tol = 4 * Ksolve * N * c07::U<T>() * s.cond;
      c.err("C07.invert.residual", static_cast<double>(worst / tol));
      c.check(worst <= tol, "C07.invert.residual",
              "TinyMatrixInvert: |A inv(A) - I| = " + std::to_string(static_cast<double>(worst)) + " > " +
                  std::to_string(static_cast<double>(tol)) + " (n=" + std::to_string(N) + ", cond " +
                  std::to_string(static_cast<double>(s.cond)) + ")");
    });
  }

  template <unsigned short N>
  void solveVecAny(verif::Case& c) {
    if (c.boolean("use_exceptions")) solveVec<N, double, true>(c);
    else solveVec<N, double, false>(c);
  }
  template <unsigned short N>
  void solveMatAny(verif::Case& c) {
    if constexpr (N <= 4) {
      if (c.boolean("square_rhs")) {
        solveMat<N, N, double>(c);
        return;
      }
    }
    solveMat<N, 2, double>(c);
  }

}  // namespace

#define C07_CASE_VEC(N) \
  case N: solveVecAny<N>(c); break;
#define C07_CASE_MAT(N) \
  case N: solveMatAny<N>(c); break;
#define C07_CASE_DEC(N) \
  case N: decompBacksub<N, double>(c); break;
#define C07_CASE_INV(N) \
  case N: invert<N, double>(c); break;
#define C07_CASE_FLT(N)                         \
  case N:                                       \
    if (c.boolean("use_exceptions")) solveVec<N, float, true>(c); \
    else solveVec<N, float, false>(c);          \
    break;
#define C07_LIST(N) N,

namespace {
  const unsigned short c07_sizes[] = {C07_SIZES(C07_LIST)};
  unsigned short pickSize(verif::Case& c) {
    constexpr auto n = sizeof(c07_sizes) / sizeof(c07_sizes[0]);
    const auto N = c07_sizes[c.pick(n, "size_index")];
    c.tag("n." + std::to_string(N));
    return N;
  }
}  // namespace

VERIF_SUB(solve_vec) {
  switch (pickSize(c)) { C07_SIZES(C07_CASE_VEC) }
}
VERIF_SUB(solve_mat) {
  switch (pickSize(c)) { C07_SIZES(C07_CASE_MAT) }
}
VERIF_SUB(decomp_backsub) {
  switch (pickSize(c)) { C07_SIZES(C07_CASE_DEC) }
}
VERIF_SUB(invert) {
  switch (pickSize(c)) { C07_SIZES(C07_CASE_INV) }
}
#ifdef C07_FLOAT_SIZES
namespace {
  const unsigned short c07_fsizes[] = {C07_FLOAT_SIZES(C07_LIST)};
}
VERIF_SUB(solve_vec_float) {
  constexpr auto n = sizeof(c07_fsizes) / sizeof(c07_fsizes[0]);
  const auto N = c07_fsizes[c.pick(n, "size_index")];
  c.tag("n." + std::to_string(N));
  switch (N) { C07_FLOAT_SIZES(C07_CASE_FLT) }
}
#endif
