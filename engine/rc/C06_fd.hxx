/*!
 * \file C06_fd.hxx
 * \brief finite difference oracle of C06: central differences of a reference
 * primitive evaluated in long double with three step sizes (h, h/2, h/4) and
 * Richardson extrapolation.  The convergence measure is the difference between
 * the two successive extrapolated values.  A derivative returned by the
 * library is accepted when
 *      |got - FD| <= max(rel * S, 50 * conv)
 * where S is the natural scale of the derivative (given by the caller).
 */
#ifndef VERIF_C06_FD_HXX
#define VERIF_C06_FD_HXX

#include "C02_common.hxx"

namespace fd {

  using ref::M3;
  using ref::R;
  using ref::T4;

  inline R amax(R x) { return std::fabs(x); }
  inline R amax(const M3& x) { return ref::maxabs(x); }
  inline R amax(const T4& x) { return f4::maxabs(x); }

  template <typename V>
  struct Estimate {
    V value;  //!< extrapolated derivative
    R conv;   //!< |difference of the two last extrapolations| (max norm)
  };

  template <typename Fn>
  auto central(const Fn& f, const M3& X, const M3& D, R h) {
    return (R(1) / (2 * h)) * (f(X + h * D) - f(X - h * D));
  }

  //! directional derivative of f at X along D
  template <typename Fn>
  auto derivative(const Fn& f, const M3& X, const M3& D, R h) {
    const auto d1 = central(f, X, D, h);
    const auto d2 = central(f, X, D, h / 2);
    const auto d3 = central(f, X, D, h / 4);
    const auto r1 = (R(1) / 3) * (R(4) * d2 - d1);
    const auto r2 = (R(1) / 3) * (R(4) * d3 - d2);
    return Estimate<std::decay_t<decltype(r2)>>{r2, amax(r2 - r1)};
  }

  inline M3 basis(int k, bool symmetric) {
    return symmetric ? ref::stensorBasis(k) : ref::tensorBasis(k);
  }

  //! random direction valid in dimension N (dense: not axis aligned)
  inline M3 direction(verif::Case& c, int N, bool symmetric) {
    M3 d = gen::dense(c, N, 1.);
    if (symmetric) d = ref::sym(d);
    return d;
  }
  //! number of non-zero components of a direction in its basis
  inline int support(const M3& d, int N, bool symmetric) {
    int n = 0;
    for (int k = 0; k < f4::dimOf(N, symmetric); ++k)
      if (ref::ddot(basis(k, symmetric), d) != 0) ++n;
    return n;
  }

  /*!
   * \brief check a fourth order derivative object g (rows: result, columns:
   * argument) against the primitive f : M3 -> M3, column by column, and along
   * one random direction.  `keyOf(I,J)` gives the key of component (I,J)
   * (J = -1: contraction of row I with the direction); checks whose key
   * differs from `key` are made last.
   */
  template <typename G, typename Fn, typename KeyOf>
  void check4k(verif::Case& c, const G& g, int N, bool rowSym, bool colSym, const Fn& f,
               const M3& X, R h, R S, R rel, const M3& dir, const std::string& key,
               const std::string& what, const KeyOf& keyOf) {
    const int nr = f4::dimOf(N, rowSym), nc = f4::dimOf(N, colSym);
    std::vector<Estimate<M3>> cols;
    for (int J = 0; J < nc; ++J) cols.push_back(derivative(f, X, basis(J, colSym), h));
    const auto e = derivative(f, X, dir, h);
    const R told = std::max(rel * S * ref::norm(dir), 50 * e.conv);
    for (int pass = 0; pass < 2; ++pass) {
      for (int J = 0; J < nc; ++J) {
        const R tol = std::max(rel * S, 50 * cols[J].conv);
        for (int I = 0; I < nr; ++I) {
          const std::string k = keyOf(I, J);
          if ((k == key) != (pass == 0)) continue;
          c.close(static_cast<R>(g(I, J)), ref::ddot(basis(I, rowSym), cols[J].value), tol, k,
                  what + " component (" + std::to_string(I) + "," + std::to_string(J) + ")");
        }
      }
      for (int I = 0; I < nr; ++I) {
        const std::string k = keyOf(I, -1);
        if ((k == key) != (pass == 0)) continue;
        R got = 0;
        for (int J = 0; J < nc; ++J)
          got += static_cast<R>(g(I, J)) * ref::ddot(basis(J, colSym), dir);
        c.close(got, ref::ddot(basis(I, rowSym), e.value), 4 * told, k,
                what + " contracted with a direction, component " + std::to_string(I));
      }
    }
  }
  template <typename G, typename Fn>
  void check4(verif::Case& c, const G& g, int N, bool rowSym, bool colSym, const Fn& f, const M3& X,
              R h, R S, R rel, const M3& dir, const std::string& key, const std::string& what) {
    check4k(c, g, N, rowSym, colSym, f, X, h, S, rel, dir, key, what,
            [&key](int, int) -> const std::string& { return key; });
  }

  /*!
   * \brief check a second order gradient g (operator[]) of a scalar primitive
   */
  template <typename G, typename Fn>
  void check2(verif::Case& c, const G& g, int N, bool colSym, const Fn& f, const M3& X, R h, R S,
              R rel, const M3& dir, const std::string& key, const std::string& what) {
    const int nc = f4::dimOf(N, colSym);
    for (int J = 0; J < nc; ++J) {
      const auto e = derivative(f, X, basis(J, colSym), h);
      c.close(static_cast<R>(g[J]), e.value, std::max(rel * S, 50 * e.conv), key,
              what + " component " + std::to_string(J));
    }
    const auto e = derivative(f, X, dir, h);
    R got = 0;
    for (int J = 0; J < nc; ++J) got += static_cast<R>(g[J]) * ref::ddot(basis(J, colSym), dir);
    c.close(got, e.value, 4 * std::max(rel * S * ref::norm(dir), 50 * e.conv), key,
            what + " contracted with a direction");
  }

  //! major symmetry of a second derivative
  template <typename G>
  void checkSymmetric(verif::Case& c, const G& g, int n, R tol, const std::string& key,
                      const std::string& what) {
    for (int I = 0; I < n; ++I)
      for (int J = I + 1; J < n; ++J)
        c.close(static_cast<R>(g(I, J)), static_cast<R>(g(J, I)), tol, key,
                what + " symmetry (" + std::to_string(I) + "," + std::to_string(J) + ")");
  }

  //! derivative of a primitive f : M3 -> M3 as a T4 (columns from FD), used to
  //! build *inputs* (e.g. d sigma / dF of a generated smooth sigma(F))
  template <typename Fn>
  T4 jacobian(const Fn& f, const M3& X, R h, int N, bool colSym) {
    T4 r;
    for (int J = 0; J < f4::dimOf(N, colSym); ++J) {
      const M3 B = basis(J, colSym);
      const auto e = derivative(f, X, B, h);
      REF_FOR4 r(i, j, k, l) += e.value(i, j) * B(k, l);
    }
    return r;
  }

}  // namespace fd

#endif /* VERIF_C06_FD_HXX */
