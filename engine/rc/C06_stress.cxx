/*!
 * C06 (unit "stress") - derivative helpers of finite strain stress measures:
 * push-forward derivatives, Cauchy <-> Kirchhoff stress derivative
 * conversions (the conversions to / from the derivative of the first
 * Piola-Kirchhoff stress are in C06_pk1.cxx).
 * A smooth symmetric stress function of the deformation gradient is generated
 *   sigma(F) = S0 + c1 F.F^T + c2 det(F) sym(F) + c3 (F^T.F)^2
 * (resp. a second Piola-Kirchhoff stress S(E) = S0 + C:E + c E^2 of the
 * Green-Lagrange strain).  The derivative handed to the library is the
 * converged long double finite difference of that function; the derivative
 * returned by the library is compared with the converged finite difference of
 * the composed primitive (e.g. P(F) = det(F) sigma(F) F^-T).
 * Non-trivial: 3D non symmetric F (or 2D with xy != yx) and a direction with at
 * least two non-zero components.
 */
#include "C06_fd.hxx"
#include "TFEL/Math/stensor.hxx"
#include "TFEL/Math/tensor.hxx"
#include "TFEL/Math/st2tost2.hxx"
#include "TFEL/Math/t2tot2.hxx"
#include "TFEL/Math/t2tost2.hxx"

using namespace tfel::math;

namespace {

  constexpr bool SYM = true, NS = false;

  struct Setup {
    M3 F, iF, dir;
    R J, nF, nI, ss;
  };

  //! deformation gradient: R.U with stretches in [0.5,2] (conditioning <= 4)
  template <typename TT>
  Setup setup(verif::Case& c, int N, TT& F) {
    Setup s;
    F = gen::toTensor<TT>(gen::F(c, N, 0.5, 2.));
    s.F = gen::tensorToM3(F);
    s.J = ref::det(s.F);
    if (!(s.J > 0)) c.discard();
    s.iF = ref::inverse(s.F);
    s.dir = fd::direction(c, N, NS);
    s.nF = ref::norm(s.F);
    s.nI = ref::norm(s.iF);
    s.ss = gen::scale(c, 12, "stress_scale");
    c.nontrivial(nonsym(s.F, N) && fd::support(s.dir, N, NS) >= 2);
    return s;
  }

  //! generated smooth Cauchy stress
  struct Sigma {
    M3 S0;
    R c1, c2, c3;
    M3 operator()(const M3& F) const {
      const M3 C = ref::transpose(F) * F;
      return S0 + c1 * (F * ref::transpose(F)) + (c2 * ref::det(F)) * ref::sym(F) + c3 * (C * C);
    }
  };
  Sigma genSigma(verif::Case& c, int N, R ss) {
    Sigma s;
    s.S0 = gen::sym(c, N, static_cast<double>(ss));
    s.c1 = ss * c.sreal(1., "c1");
    s.c2 = ss * c.sreal(1., "c2");
    s.c3 = ss * c.sreal(1., "c3");
    return s;
  }

  template <unsigned short N>
  void pushforward(verif::Case& c) {
    using T = double;
    using TT = tensor<N, T>;
    using S = stensor<N, T>;
    using SS = st2tost2<N, T>;
    using TS = t2tost2<N, T>;
    TT F;
    const Setup u = setup(c, N, F);
    const Sigma pk2 = genSigma(c, N, u.ss);  // here: a second Piola-Kirchhoff stress S(F)
    const S Sv = gen::toStensor<S>(pk2(u.F));
    const M3 Sm = gen::stensorToM3(Sv);
    const R h = 1e-4L, rel = 1e-9L;
    const R nS = std::max<R>(ref::norm(Sm), u.ss);
    const M3 sdir = ref::sym(u.dir);
    // d(F.S.F^T)/dS at constant F
    SS d2;
    computePushForwardDerivative(d2, F);
    fd::check4(c, d2, N, SYM, SYM, [&](const M3& x) { return u.F * x * ref::transpose(u.F); }, Sm,
               h * nS, u.nF * u.nF, rel, sdir, "C06.stress.push_forward.dS",
               "computePushForwardDerivative(r,F)");
    // d(F.S.F^T)/dF at constant S
    TS d1;
    computePushForwardDerivativeWithRespectToDeformationGradient(d1, Sv, F);
    fd::check4(c, d1, N, SYM, NS, [&](const M3& x) { return x * Sm * ref::transpose(x); }, u.F, h,
               u.nF * nS, rel, u.dir, "C06.stress.push_forward.dF",
               "computePushForwardDerivativeWithRespectToDeformationGradient");
    // total derivative with S = S(F)
    const T4 dSr = fd::jacobian(pk2, u.F, h, N, NS);
    const TS dS = f4::fromT4<TS>(dSr, N, SYM, NS);
    const R nd = std::max<R>(ref::norm(dSr), u.ss);
    const auto T_of_F = [&](const M3& x) { return x * pk2(x) * ref::transpose(x); };
    const R Sc = u.nF * nS + u.nF * u.nF * nd;
    fd::check4(c, TS(computePushForwardDerivative(dS, Sv, F)), N, SYM, NS, T_of_F, u.F, h, Sc, rel,
               u.dir, "C06.stress.push_forward.total", "computePushForwardDerivative(dS,S,F)");
    TS dT;
    computePushForwardDerivative(dT, dS, Sv, F);
    fd::check4(c, dT, N, SYM, NS, T_of_F, u.F, h, Sc, rel, u.dir, "C06.stress.push_forward.total",
               "computePushForwardDerivative(dT,dS,S,F)");
  }

  template <unsigned short N>
  void kirchhoff(verif::Case& c) {
    using T = double;
    using TT = tensor<N, T>;
    using S = stensor<N, T>;
    using TS = t2tost2<N, T>;
    TT F;
    const Setup u = setup(c, N, F);
    const Sigma sig = genSigma(c, N, u.ss);
    const S s = gen::toStensor<S>(sig(u.F));
    const M3 Sm = gen::stensorToM3(s);
    const R h = 1e-4L, rel = 1e-9L;
    const R nS = std::max<R>(ref::norm(Sm), u.ss);
    const auto tau = [&](const M3& x) { return ref::det(x) * sig(x); };
    const T4 dsr = fd::jacobian(sig, u.F, h, N, NS), dtr = fd::jacobian(tau, u.F, h, N, NS);
    const TS ds = f4::fromT4<TS>(dsr, N, SYM, NS), dt = f4::fromT4<TS>(dtr, N, SYM, NS);
    const R nds = std::max<R>(ref::norm(dsr), u.ss), ndt = std::max<R>(ref::norm(dtr), u.ss);
    // tau = J sigma
    const R S1 = u.J * (nds + nS * u.nI);
    fd::check4(c, TS(computeKirchhoffStressDerivativeFromCauchyStressDerivative(ds, s, F)), N, SYM,
               NS, tau, u.F, h, S1, rel, u.dir, "C06.stress.kirchhoff_from_cauchy",
               "computeKirchhoffStressDerivativeFromCauchyStressDerivative");
    TS r1;
    computeKirchhoffStressDerivativeFromCauchyStressDerivative(r1, ds, s, F);
    fd::check4(c, r1, N, SYM, NS, tau, u.F, h, S1, rel, u.dir, "C06.stress.kirchhoff_from_cauchy",
               "computeKirchhoffStressDerivativeFromCauchyStressDerivative (out)");
    // sigma = tau / J
    const R S2 = ndt / u.J + nS * u.nI;
    fd::check4(c, TS(computeCauchyStressDerivativeFromKirchhoffStressDerivative(dt, s, F)), N, SYM,
               NS, sig, u.F, h, S2, rel, u.dir, "C06.stress.cauchy_from_kirchhoff",
               "computeCauchyStressDerivativeFromKirchhoffStressDerivative");
    TS r2;
    computeCauchyStressDerivativeFromKirchhoffStressDerivative(r2, dt, s, F);
    fd::check4(c, r2, N, SYM, NS, sig, u.F, h, S2, rel, u.dir, "C06.stress.cauchy_from_kirchhoff",
               "computeCauchyStressDerivativeFromKirchhoffStressDerivative (out)");
  }

}  // namespace

VERIF_SUB_W(pushforward_1d, 0.5) { pushforward<1u>(c); }
VERIF_SUB(pushforward_2d) { pushforward<2u>(c); }
VERIF_SUB(pushforward_3d) { pushforward<3u>(c); }
VERIF_SUB_W(kirchhoff_1d, 0.5) { kirchhoff<1u>(c); }
VERIF_SUB(kirchhoff_2d) { kirchhoff<2u>(c); }
VERIF_SUB(kirchhoff_3d) { kirchhoff<3u>(c); }

VERIF_MAIN("C06_stress")
