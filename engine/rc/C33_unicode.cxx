/*!
 * C33 - Unicode mangling is faithful and reversible
 * (include/TFEL/UnicodeSupport/UnicodeSupport.hxx, src/UnicodeSupport/UnicodeSupport.cxx,
 *  the real tfel-unicode-filt executable of the build tree).
 *
 * Exhaustive (sub-check `table_exhaustive`, one sweep per case): for every
 * entry of getSupportedUnicodeCharactersDescriptions(): the character is one
 * well-formed non-ASCII UTF-8 code point, the mangled name is
 * "tfel_unicode_mangling_" + hexadecimal digits that decode to that code point
 * (decoder written in the harness), is made of [A-Za-z0-9_] only; no two
 * entries share a character or a mangled name; no mangled name is a proper
 * prefix of another one, no character a prefix of another one (all ordered
 * pairs); getMangledString(character) == mangled name; the executable maps
 * every mangled name back to its character.
 * Generated: strings mixing ASCII, supported characters (adjacent runs) and
 * unsupported well-formed multi-byte characters: getMangledString == left to
 * right reference substitution, pure ASCII when the other characters are
 * ASCII; round trip through the real executable (stdin and argv modes) for
 * strings that do not contain the mangling prefix.
 */
#include "verif.hxx"
#include <fcntl.h>
#include <spawn.h>
#include <sys/wait.h>
extern char** environ;
#include "TFEL/UnicodeSupport/UnicodeSupport.hxx"

namespace {

  using Table = std::vector<tfel::unicode::UnicodeCharacterDescription>;
  const Table& table() { return tfel::unicode::getSupportedUnicodeCharactersDescriptions(); }
  const std::string prefix = "tfel_unicode_mangling_";

  std::string show(const std::string& s) {
    std::string r = "\"";
    for (unsigned char ch : s) {
      if (ch >= 0x20 && ch < 0x7f && ch != '"' && ch != '\\') {
        r += static_cast<char>(ch);
      } else {
        char b[8];
        std::snprintf(b, sizeof b, "\\x%02x", ch);
        r += b;
      }
    }
    return r + "\"";
  }

  /*!
   * decode one well-formed UTF-8 sequence that must span the whole string
   * (shortest form, no surrogates, <= U+10FFFF); -1 otherwise
   */
  long decodeUtf8(const std::string& s) {
    if (s.empty()) return -1;
    const auto b = [&s](std::size_t i) { return static_cast<unsigned char>(s[i]); };
    std::size_t n;
    long cp;
    if (b(0) < 0x80) {
      n = 1;
      cp = b(0);
    } else if ((b(0) & 0xE0) == 0xC0) {
      n = 2;
      cp = b(0) & 0x1F;
    } else if ((b(0) & 0xF0) == 0xE0) {
      n = 3;
      cp = b(0) & 0x0F;
    } else if ((b(0) & 0xF8) == 0xF0) {
      n = 4;
      cp = b(0) & 0x07;
    } else {
      return -1;
    }
    if (s.size() != n) return -1;
    for (std::size_t i = 1; i != n; ++i) {
      if ((b(i) & 0xC0) != 0x80) return -1;
      cp = (cp << 6) | (b(i) & 0x3F);
    }
    static const long minimum[] = {0, 0, 0x80, 0x800, 0x10000};
    if (cp < minimum[n] || cp > 0x10FFFF || (cp >= 0xD800 && cp <= 0xDFFF)) return -1;
    return cp;
  }

  std::string encodeUtf8(const long cp) {
    std::string r;
    if (cp < 0x80) {
      r += static_cast<char>(cp);
    } else if (cp < 0x800) {
      r += static_cast<char>(0xC0 | (cp >> 6));
      r += static_cast<char>(0x80 | (cp & 0x3F));
    } else if (cp < 0x10000) {
      r += static_cast<char>(0xE0 | (cp >> 12));
      r += static_cast<char>(0x80 | ((cp >> 6) & 0x3F));
      r += static_cast<char>(0x80 | (cp & 0x3F));
    } else {
      r += static_cast<char>(0xF0 | (cp >> 18));
      r += static_cast<char>(0x80 | ((cp >> 12) & 0x3F));
      r += static_cast<char>(0x80 | ((cp >> 6) & 0x3F));
      r += static_cast<char>(0x80 | (cp & 0x3F));
    }
    return r;
  }

  bool isAscii(const std::string& s) {
    return std::all_of(s.begin(), s.end(), [](const char ch) { return static_cast<unsigned char>(ch) < 0x80; });
  }

  //! left to right substitution, written from the statement
  std::string refMangle(const std::string& s) {
    static const std::vector<std::pair<std::string, std::string>> subst = [] {
      std::vector<std::pair<std::string, std::string>> r;
      for (const auto& d : table()) r.emplace_back(d.uc, d.m);
      return r;
    }();
    std::string r;
    std::size_t i = 0;
    while (i < s.size()) {
      bool found = false;
      if (static_cast<unsigned char>(s[i]) >= 0x80) {
        for (const auto& d : subst) {
          if (!d.first.empty() && s.compare(i, d.first.size(), d.first) == 0) {
            r += d.second;
            i += d.first.size();
            found = true;
            break;
          }
        }
      }
      if (!found) r += s[i++];
    }
    return r;
  }

  std::string filtPath() {
    if (const char* e = std::getenv("VERIF_C33_FILT")) return e;
    const char* b = std::getenv("VERIF_BUILD");
    return std::string(b != nullptr ? b : "/verif/build/hooks") + "/tfel-unicode-filt/src/tfel-unicode-filt";
  }

  struct ProcessResult {
    int status = -1;
    std::string out;
  };

  //! run the executable with the given arguments, stdin from a file (or /dev/null)
  ProcessResult runFilt(const std::vector<std::string>& args, const std::string& stdin_file) {
    ProcessResult r;
    int fd[2];
    if (::pipe(fd) != 0) return r;
    const auto exe = filtPath();
    std::vector<char*> argv;
    argv.push_back(const_cast<char*>(exe.c_str()));
    for (const auto& a : args) argv.push_back(const_cast<char*>(a.c_str()));
    argv.push_back(nullptr);
    posix_spawn_file_actions_t fa;
    posix_spawn_file_actions_init(&fa);
    posix_spawn_file_actions_addopen(&fa, 0, stdin_file.empty() ? "/dev/null" : stdin_file.c_str(), O_RDONLY, 0);
    posix_spawn_file_actions_adddup2(&fa, fd[1], 1);
    posix_spawn_file_actions_addclose(&fa, fd[0]);
    posix_spawn_file_actions_addclose(&fa, fd[1]);
    pid_t pid = -1;
    const int rc = ::posix_spawn(&pid, exe.c_str(), &fa, nullptr, argv.data(), environ);
    posix_spawn_file_actions_destroy(&fa);
    if (rc != 0) {
      ::close(fd[0]);
      ::close(fd[1]);
      r.status = 127;
      return r;
    }
    ::close(fd[1]);
    char buf[4096];
    ssize_t n;
    while ((n = ::read(fd[0], buf, sizeof buf)) > 0) r.out.append(buf, static_cast<std::size_t>(n));
    ::close(fd[0]);
    int st = 0;
    ::waitpid(pid, &st, 0);
    r.status = WIFEXITED(st) ? WEXITSTATUS(st) : 128 + WTERMSIG(st);
    return r;
  }

  std::vector<std::string> lines(const std::string& out) {
    std::vector<std::string> r;
    std::size_t b = 0;
    while (b < out.size()) {
      const auto e = out.find('\n', b);
      if (e == std::string::npos) {
        r.push_back(out.substr(b));
        break;
      }
      r.push_back(out.substr(b, e - b));
      b = e + 1;
    }
    return r;
  }

  std::string workFile(const char* name) {
    const char* w = std::getenv("VERIF_WORK");
    return std::string(w != nullptr ? w : ".") + "/" + name + "." + std::to_string(::getpid()) + ".txt";
  }

  /*!
   * round trip of a batch of strings (no LF, no NUL) through the executable;
   * argv_mode: one argument per string, else one line of stdin per string
   */
  void roundTrip(verif::Case& c, const std::vector<std::string>& originals, const bool argv_mode,
                 const std::string& key) {
    std::vector<std::string> mangled;
    for (const auto& s : originals) mangled.push_back(tfel::unicode::getMangledString(s));
    ProcessResult r;
    if (argv_mode) {
      r = runFilt(mangled, "");
    } else {
      const auto f = workFile("c33_input");
      {
        std::ofstream o(f, std::ios::binary);
        for (const auto& m : mangled) o << m << '\n';
      }
      r = runFilt({}, f);
      std::remove(f.c_str());
    }
    c.check(r.status == 0, "C33.filt.exit_status",
            filtPath() + " exited with status " + std::to_string(r.status));
    const auto got = lines(r.out);
    c.check(got.size() == originals.size(), key + ".line_count",
            "expected " + std::to_string(originals.size()) + " output lines, got " + std::to_string(got.size()) +
                " for first input " + show(mangled.empty() ? std::string() : mangled[0]));
    for (std::size_t i = 0; i != originals.size(); ++i) {
      c.check(got[i] == originals[i], key,
              std::string(argv_mode ? "argv" : "stdin") + " mode: tfel-unicode-filt(" + show(mangled[i]) + ") = " +
                  show(got[i]) + ", original " + show(originals[i]));
    }
  }

  void checkEntry(verif::Case& c, const std::size_t i) {
    const auto& d = table()[i];
    const std::string uc = d.uc != nullptr ? d.uc : "", m = d.m != nullptr ? d.m : "";
    const std::string id = "entry " + std::to_string(i) + " (" + show(uc) + " -> " + show(m) + ")";
    const long cp = decodeUtf8(uc);
    c.check(cp >= 0x80, "C33.table.character", id + ": the character is not one well-formed non-ASCII UTF-8 code point");
    c.check(m.compare(0, prefix.size(), prefix) == 0, "C33.table.prefix", id + ": mangled name without the mangling prefix");
    const auto hex = m.substr(prefix.size());
    c.check(!hex.empty() && hex.size() <= 6 && std::all_of(hex.begin(), hex.end(), [](const unsigned char ch) {
              return std::isxdigit(ch);
            }),
            "C33.table.codepoint", id + ": the suffix is not a hexadecimal number");
    const long enc = std::strtol(hex.c_str(), nullptr, 16);
    char b[64];
    std::snprintf(b, sizeof b, "U+%04lX vs encoded %04lX", cp, enc);
    c.check(enc == cp, "C33.table.codepoint", id + ": the mangled name does not encode the code point: " + b);
    c.check(std::all_of(m.begin(), m.end(), [](const unsigned char ch) { return std::isalnum(ch) || ch == '_'; }),
            "C33.table.identifier", id + ": the mangled name is not made of [A-Za-z0-9_]");
    c.check(encodeUtf8(cp) == uc, "C33.table.character", id + ": re-encoding the code point differs");
    const auto g = tfel::unicode::getMangledString(uc);
    c.check(g == m, "C33.mangle.single", id + ": getMangledString(character) = " + show(g));
  }

}  // namespace

VERIF_SUB_W(table_exhaustive, 0.000025) {
  const auto& t = table();
  c.check(!t.empty(), "C33.table.empty", "empty table");
  for (std::size_t i = 0; i != t.size(); ++i) checkEntry(c, i);
  // collisions and prefix-freeness over all ordered pairs
  for (std::size_t i = 0; i != t.size(); ++i) {
    for (std::size_t j = 0; j != t.size(); ++j) {
      if (i == j) continue;
      const std::string mi = t[i].m, mj = t[j].m, ui = t[i].uc, uj = t[j].uc;
      const std::string id = "entries " + std::to_string(i) + " and " + std::to_string(j) + " (" + show(mi) + ", " + show(mj) + ")";
      c.check(mi != mj, "C33.table.collision.mangled", id + " share a mangled name");
      c.check(ui != uj, "C33.table.collision.character", id + " share a character");
      c.check(mj.compare(0, mi.size(), mi) != 0, "C33.table.prefix_free.mangled", id + ": a mangled name is a prefix of another one");
      c.check(uj.compare(0, ui.size(), ui) != 0, "C33.table.prefix_free.character", id + ": a character is a prefix of another one");
    }
  }
  // the executable maps every mangled name back (one batch, both modes)
  std::vector<std::string> all;
  for (const auto& d : t) all.emplace_back(d.uc);
  roundTrip(c, all, false, "C33.filt.table");
  roundTrip(c, all, true, "C33.filt.table");
  c.nontrivial(true);
  c.tag("exhaustive.table");
  c.note("exhaustive: " + std::to_string(t.size()) + " entries, " + std::to_string(t.size() * (t.size() - 1)) +
         " ordered pairs, executable round trip of every entry");
}

VERIF_SUB_W(table_entry, 0.02) {
  const auto i = c.pick(table().size(), "entry");
  checkEntry(c, i);
  c.nontrivial(true);
}

namespace {

  //! unsupported but well-formed multi-byte characters (none is in the table)
  const long unsupported[] = {0xE9, 0xDF, 0x3D5, 0x3F5, 0x416, 0x20AC, 0x2260, 0x221E, 0x4E2D, 0x1F600, 0x10348,
                              0x390, 0x3A2, 0x3AA, 0x3C2, 0x3CA, 0x208D, 0x2094, 0x209D, 0x1D45, 0xB4, 0xBA};

  std::string genString(verif::Case& c, const int maxpieces, bool& has_unsupported, int& adjacent_table) {
    static const char ascii[] =
        "abcdefghijklmnopqrstuvwxyzABCDEFGHIJKLMNOPQRSTUVWXYZ0123456789_ \t+-*/=()[]{}<>.,;:!?&|^%~#\"'\\$@`\r";
    static const char* const near[] = {"tfel_unicode_mangling", "tfel_unicode_", "tfel_", "mangling_03B1",
                                       "_03B1", "03C3", "unicode_mangling_2202", "tfel_unicode_manglin_03B1",
                                       "TFEL_UNICODE_MANGLING_03B1", "tfel_unicode_mangling03B1"};
    const auto& t = table();
    std::string s;
    has_unsupported = false;
    adjacent_table = 0;
    bool last_table = false;
    const auto n = c.integer(0, maxpieces, "pieces");
    for (std::int64_t k = 0; k != n; ++k) {
      const auto kind = c.integer(0, 9, "kind");
      if (kind <= 3) {  // one supported character
        s += t[c.pick(t.size(), "entry")].uc;
        if (last_table) ++adjacent_table;
        last_table = true;
        continue;
      }
      last_table = false;
      if (kind <= 6) {
        const auto l = c.integer(1, 6, "ascii_len");
        for (std::int64_t j = 0; j != l; ++j) s += ascii[c.pick(sizeof ascii - 1, "ascii")];
      } else if (kind == 7) {
        s += near[c.pick(sizeof near / sizeof *near, "near_prefix")];
      } else if (kind == 8) {
        s += encodeUtf8(unsupported[c.pick(sizeof unsupported / sizeof *unsupported, "unsupported")]);
        has_unsupported = true;
      } else {  // a digit or a letter right after (hex-looking continuation of a mangled name)
        s += "0123456789ABCDEFabcdef_"[c.pick(23, "hexlike")];
      }
    }
    return s;
  }

}  // namespace

VERIF_SUB(mangle_random) {
  bool uns = false;
  int adj = 0;
  const auto s = genString(c, 12, uns, adj);
  const auto got = tfel::unicode::getMangledString(s);
  const auto ref = refMangle(s);
  c.nontrivial(adj >= 1);
  if (uns) c.tag("has_unsupported_multibyte");
  if (adj >= 1) c.tag("adjacent_supported");
  c.check(got == ref, "C33.mangle.substitution",
          "getMangledString(" + show(s) + ") = " + show(got) + ", expected " + show(ref));
  if (!uns) {
    c.check(isAscii(got), "C33.mangle.ascii",
            "getMangledString(" + show(s) + ") = " + show(got) + " is not pure ASCII although every other character is ASCII");
  }
  // idempotence follows from ASCII-ness; checked for the general case as well
  c.check(tfel::unicode::getMangledString(got) == got, "C33.mangle.idempotent", "mangling twice differs for " + show(s));
}

VERIF_SUB_W(roundtrip_exec, 0.0005) {
  const auto nb = c.integer(1, 40, "batch");
  std::vector<std::string> originals;
  bool any_adj = false;
  for (std::int64_t i = 0; i != nb; ++i) {
    bool uns = false;
    int adj = 0;
    auto s = genString(c, 10, uns, adj);
    if (s.find(prefix) != std::string::npos) {
      // outside the statement (input containing the mangling prefix): replaced
      c.tag("prefix_in_input.replaced");
      s = "x";
    }
    any_adj = any_adj || adj >= 1;
    originals.push_back(s);
  }
  c.nontrivial(any_adj);
  const bool argv_mode = c.boolean("argv_mode");
  c.tag(argv_mode ? "argv" : "stdin");
  if (argv_mode) {
    // an argument can't be told from "no argument" when the list is empty;
    // `\r` etc. are fine.  Empty strings are legal arguments.
  }
  roundTrip(c, originals, argv_mode, "C33.filt.roundtrip");
}

VERIF_MAIN("C33_unicode")
