/*!
 * C23 - Finite-strain tangent operator and stress conversions are exact.
 *
 * Oracle (C23_fsref.hxx, long double, no TFEL code): hyperelastic laws S(C)
 * (Saint-Venant-Kirchhoff, compressible neo-Hookean, compressible
 * Mooney-Rivlin, anisotropic SVK, affine Hencky law T = K:E_log + T0).
 *  - derivative-type flags: 6th order Richardson central differences of the
 *    reference target stress w.r.t. the target kinematic variable;
 *  - rate-type moduli: extracted from their defining objective-rate relation
 *    along F(t) = (I+tL)F (Lie derivative of tau, Truesdell rate of sigma,
 *    Jaumann rate of tau, the latter divided by J for ABAQUS),
 *    docs/web/abaqus.md "Relations between tangent operator".
 * The source operator handed to tfel::material::convert<Target,Source> is the
 * reference one of the source flag (rounded to double), sigma is the reference
 * Cauchy stress, F0 another deformation gradient (DDF flags).
 *
 * Non-trivial: N >= 2, rotation angle > 0.2 rad, non spherical stretch.
 */
#include <cstdlib>
#include <cstring>
#include "C23_fsref.hxx"
#include "TFEL/Math/tensor.hxx"
#include "TFEL/Math/stensor.hxx"
#include "TFEL/Math/st2tost2.hxx"
#include "TFEL/Math/t2tost2.hxx"
#include "TFEL/Math/t2tot2.hxx"
#include "TFEL/Material/FiniteStrainBehaviourTangentOperator.hxx"

using ref::M3;
using ref::R;
using ref::T4;
using namespace tfel::math;
using TO = tfel::material::FiniteStrainBehaviourTangentOperatorBase;
using tfel::material::tangent_operator;

static_assert(static_cast<int>(TO::DSIG_DF) == fs::DSIG_DF);
static_assert(static_cast<int>(TO::SPATIAL_MODULI) == fs::SPATIAL_MODULI);
static_assert(static_cast<int>(TO::ABAQUS) == fs::ABAQUS);
static_assert(static_cast<int>(TO::DTAU_DDF) == fs::DTAU_DDF);
static_assert(static_cast<int>(TO::DS_DEGL) == fs::DS_DEGL);
static_assert(static_cast<int>(TO::DT_DELOG) == fs::DT_DELOG);
static_assert(static_cast<int>(TO::DPK1_DF) == fs::DPK1_DF);

namespace {

  constexpr R u = std::numeric_limits<double>::epsilon();

  bool thorough() {
    const char* t = std::getenv("VERIF_TIER");
    return t != nullptr && std::strcmp(t, "thorough") == 0;
  }

  //! generated kinematics + law, TFEL side and reference side hold the same doubles
  template <unsigned short N>
  struct Setup {
    fs::Ctx x;
    tensor<N, double> F0, F1;
    stensor<N, double> sig;
    fs::Kinematics k1, k0;
    R amp = 1;  //!< conditioning factor cond(F1)^4 cond(F0)
    /*!
     * input class for the logarithmic strain handler (DT_DELOG conversions): its
     * divided differences lose accuracy for nearly equal stretches; that class
     * is analysed by C24, here the tolerances of the DT_DELOG pairs are relaxed
     * by 1/gap and the tiny gaps have a key of their own.
     */
    fs::StretchClass sc;
  };

  template <unsigned short N>
  Setup<N> setup(verif::Case& c, int nlaws = 5) {
    Setup<N> s;
    const double lo = thorough() ? 0.2 : 0.5, hi = thorough() ? 5. : 2.;
    s.x.N = N;
    s.F1 = gen::toTensor<tensor<N, double>>(gen::F(c, N, lo, hi));
    if (c.chance(1, 4, "F0_identity")) {
      s.F0 = tensor<N, double>::Id();
      c.tag("F0.identity");
    } else {
      s.F0 = gen::toTensor<tensor<N, double>>(gen::F(c, N, lo, hi));
      c.tag("F0.generic");
    }
    s.x.F1 = gen::tensorToM3(s.F1);
    s.x.F0 = gen::tensorToM3(s.F0);
    s.x.law = fs::genLaw(c, N, nlaws);
    s.k1 = fs::kinematics(s.x.F1);
    s.k0 = fs::kinematics(s.x.F0);
    s.x.lmin = s.k1.stretch[0];
    s.amp = s.k1.cond * s.k1.cond * s.k1.cond * s.k1.cond * s.k0.cond;
    s.sig = gen::toStensor<stensor<N, double>>(fs::state(s.x.law, s.x.F1).sig);
    s.sc = fs::classifyStretches(ref::transpose(s.x.F1) * s.x.F1, N);
    c.tag(std::string("F1.stretch.") + s.sc.name);
    const bool spherical = (s.k1.stretch[2] - s.k1.stretch[0]) <= 1e-3L * s.k1.stretch[2];
    c.nontrivial(N >= 2 && s.k1.angle > 0.2L && !spherical);
    if (s.k1.angle > 0.2L) c.tag("F1.rotated");
    if (spherical) c.tag("F1.spherical");
    return s;
  }

  // ---- reference T4 <-> TFEL operators through the documented storage bases
  template <typename OpType>
  struct Basis;
  template <unsigned short N>
  struct Basis<st2tost2<N, double>> {
    static constexpr bool rs = true, cs = true;
  };
  template <unsigned short N>
  struct Basis<t2tost2<N, double>> {
    static constexpr bool rs = true, cs = false;
  };
  template <unsigned short N>
  struct Basis<t2tot2<N, double>> {
    static constexpr bool rs = false, cs = false;
  };
  template <typename OpType>
  OpType fromT4(const T4& D, int N) {
    OpType k;
    const int nr = Basis<OpType>::rs ? ref::stensorSize(N) : ref::tensorSize(N);
    const int nc = Basis<OpType>::cs ? ref::stensorSize(N) : ref::tensorSize(N);
    for (int I = 0; I < nr; ++I)
      for (int J = 0; J < nc; ++J)
        k(I, J) = static_cast<double>(
            ref::componentOf(D, I, Basis<OpType>::rs, J, Basis<OpType>::cs));
    return k;
  }
  template <typename OpType>
  void compareWithT4(verif::Case& c, const OpType& k, const T4& D, int N, R tol,
                     const std::string& key, const std::string& what) {
    const int nr = Basis<OpType>::rs ? ref::stensorSize(N) : ref::tensorSize(N);
    const int nc = Basis<OpType>::cs ? ref::stensorSize(N) : ref::tensorSize(N);
    for (int I = 0; I < nr; ++I)
      for (int J = 0; J < nc; ++J)
        c.close(k(I, J), ref::componentOf(D, I, Basis<OpType>::rs, J, Basis<OpType>::cs), tol,
                key, what + " (" + std::to_string(I) + "," + std::to_string(J) + ")");
  }
  template <typename OpType>
  R maxAbs(const OpType& k) {
    R m = 0;
    for (auto p = k.begin(); p != k.end(); ++p) m = std::max(m, std::fabs(static_cast<R>(*p)));
    return m;
  }
  template <typename OpType>
  void compareOps(verif::Case& c, const OpType& a, const OpType& b, R tol, const std::string& key,
                  const std::string& what) {
    auto q = b.begin();
    int n = 0;
    for (auto p = a.begin(); p != a.end(); ++p, ++q, ++n)
      c.close(*p, *q, tol, key, what + " [" + std::to_string(n) + "]");
  }

  std::string pairName(int t, int s) { return std::string(fs::name(t)) + "_from_" + fs::name(s); }

  /*!
   * oracle self-checks (no TFEL code involved, key C23.oracle.*): the finite
   * differences are converged, agree with the analytic dS/dE_GL of the law,
   * and the rate moduli satisfy their defining relation for a generic L
   * (with spin).
   */
  void oracleChecks(verif::Case& c, const fs::Ctx& x, int flag, const fs::Op& op) {
    const R m = fs::maxComponent(op.D, x.N, fs::rowSym(flag), fs::colSym(flag));
    c.check(op.err <= 1e-9L * m + 1e-300L, "C23.oracle.fd_converged",
            std::string("Richardson estimate too large for ") + fs::name(flag) + ": " +
                std::to_string(static_cast<double>(op.err / m)));
    if (flag == fs::DS_DEGL && x.law.hasAnalytic()) {
      const T4 A = x.law.dSdE(ref::transpose(x.F1) * x.F1);
      for (int I = 0; I < ref::stensorSize(x.N); ++I)
        for (int J = 0; J < ref::stensorSize(x.N); ++J)
          c.close(ref::componentOf(op.D, I, true, J, true), ref::componentOf(A, I, true, J, true),
                  1e-9L * m, "C23.oracle.analytic_dS_dE", "FD vs analytic dS/dE_GL");
    }
    if (flag == fs::DT_DELOG && x.law.kind == fs::HENCKY) {
      for (int I = 0; I < ref::stensorSize(x.N); ++I)
        for (int J = 0; J < ref::stensorSize(x.N); ++J)
          c.close(ref::componentOf(op.D, I, true, J, true),
                  ref::componentOf(x.law.K, I, true, J, true), 1e-9L * m,
                  "C23.oracle.analytic_dT_dElog", "FD vs K of the affine Hencky law");
    }
  }
  void oracleRateCheck(verif::Case& c, const fs::Ctx& x, int flag, const fs::Op& op) {
    fs::RateKind k;
    R f = 1;
    switch (flag) {
      case fs::SPATIAL_MODULI: k = fs::LIE_TAU; break;
      case fs::C_TRUESDELL: k = fs::TRUESDELL_SIG; break;
      case fs::C_TAU_JAUMANN: k = fs::JAUMANN_TAU; break;
      case fs::ABAQUS:
        k = fs::JAUMANN_TAU;
        f = 1 / ref::det(x.F1);
        break;
      default: return;
    }
    const M3 L = gen::dense(c, x.N, 1.);
    R err = 0;
    const M3 lhs = f * fs::objectiveRate(k, x.law, x.F1, L, R(4e-3), err);
    const M3 rhs = ref::ddot(op.D, ref::sym(L));
    const R m = fs::maxComponent(op.D, x.N, true, true);
    for (int i = 0; i < 3; ++i)
      for (int j = 0; j < 3; ++j)
        c.close(lhs(i, j), rhs(i, j), 1e-8L * m * 10, "C23.oracle.rate_relation",
                std::string("objective rate = C:d for generic L, ") + fs::name(flag));
  }

  // ------------------------------------------------------------ pair check
  template <unsigned short N, TO::Flag T, TO::Flag S>
  void pairCheck(verif::Case& c, const Setup<N>& s) {
    using Source = tangent_operator<S, N, double>;
    using Target = tangent_operator<T, N, double>;
    const std::string nm = pairName(T, S);
    c.tag("pair." + nm);
    const fs::Op rs = fs::refOperator(S, s.x), rt = fs::refOperator(T, s.x);
    oracleChecks(c, s.x, S, rs);
    oracleChecks(c, s.x, T, rt);
    oracleRateCheck(c, s.x, T, rt);
    const Source Ks = fromT4<Source>(rs.D, N);
    const Target Kt = tfel::material::convert<T, S>(Ks, s.F0, s.F1, s.sig);
    const R mt = fs::maxComponent(rt.D, N, fs::rowSym(T), fs::colSym(T));
    const R ms = fs::maxComponent(rs.D, N, fs::rowSym(S), fs::colSym(S));
    // both operators are O(modulus) up to powers of the stretches: the
    // conditioning factor covers the change of units between them
    R rel = 1e-10L * s.amp;
    if (S == TO::DT_DELOG && s.sc.relax() > 1) rel = 4 * std::max(rel, R(1e-6L)) * s.sc.relax();
    const R tol = rel * mt + 100 * (rt.err + s.amp * rs.err * mt / ms);
    // input class of its own: see C24 (divided differences of the logarithm)
    std::string key = "C23.convert." + nm;
    if (S == TO::DT_DELOG && s.sc.doubleEigenvalue3d) key = "C23.convert.from_DT_DELOG.double_eigenvalue_3d";
    if (S == TO::DT_DELOG && s.sc.equalLarge) key = "C23.convert.from_DT_DELOG.equal_large";
    if (S == TO::DT_DELOG && s.sc.tiny) key = "C23.convert.from_DT_DELOG.tiny_gap";
    compareWithT4(c, Kt, rt.D, N, tol, key, nm);
  }

#define C23_PAIRS(X)                                                                          \
  X(DS_DC, DS_DEGL) X(DS_DEGL, DS_DC) X(SPATIAL_MODULI, DS_DEGL) X(DS_DEGL, SPATIAL_MODULI)   \
  X(DSIG_DF, DS_DEGL) X(DS_DF, DS_DC) X(DS_DF, DS_DEGL) X(ABAQUS, SPATIAL_MODULI)             \
  X(ABAQUS, DS_DEGL) X(DSIG_DF, C_TRUESDELL) X(SPATIAL_MODULI, ABAQUS)                        \
  X(C_TRUESDELL, SPATIAL_MODULI) X(C_TRUESDELL, DS_DEGL) X(SPATIAL_MODULI, C_TRUESDELL)       \
  X(DSIG_DDF, DSIG_DF) X(DSIG_DF, DSIG_DDF) X(DTAU_DDF, DTAU_DF) X(DTAU_DF, DTAU_DDF)         \
  X(DSIG_DF, DTAU_DF) X(DTAU_DF, DS_DF) X(SPATIAL_MODULI, DTAU_DF) X(C_TAU_JAUMANN, DTAU_DF)  \
  X(C_TRUESDELL, DTAU_DF) X(ABAQUS, C_TAU_JAUMANN) X(C_TAU_JAUMANN, ABAQUS)                   \
  X(C_TAU_JAUMANN, SPATIAL_MODULI) X(SPATIAL_MODULI, C_TAU_JAUMANN) X(ABAQUS, DTAU_DF)        \
  X(DTAU_DF, C_TAU_JAUMANN) X(DTAU_DF, ABAQUS) X(DTAU_DF, SPATIAL_MODULI)                     \
  X(DS_DEGL, DT_DELOG) X(DS_DC, DT_DELOG) X(SPATIAL_MODULI, DT_DELOG)                         \
  X(C_TRUESDELL, DT_DELOG) X(DSIG_DF, ABAQUS) X(DPK1_DF, DSIG_DF) X(DTAU_DF, DPK1_DF)         \
  X(DSIG_DF, DPK1_DF) X(DPK1_DF, DS_DEGL)

  template <unsigned short N>
  void convertBody(verif::Case& c) {
    constexpr int npairs = 0
#define C23_COUNT(T, S) +1
        C23_PAIRS(C23_COUNT)
#undef C23_COUNT
        ;
    static_assert(npairs == 40);
    const int p = static_cast<int>(c.pick(npairs, "pair"));
    const auto s = setup<N>(c);
    int n = 0;
#define C23_CASE(T, S)                                   \
  if (p == n++) {                                        \
    pairCheck<N, TO::T, TO::S>(c, s);                    \
    return;                                              \
  }
    C23_PAIRS(C23_CASE)
#undef C23_CASE
  }

  // ----------------------------------------------------- composition checks
  template <TO::Flag... Fs>
  struct Route {};
  template <unsigned short N, TO::Flag A>
  tangent_operator<A, N, double> chain(const tangent_operator<A, N, double>& k, const Setup<N>&) {
    return k;
  }
  template <unsigned short N, TO::Flag A, TO::Flag B, TO::Flag... Rest>
  auto chain(const tangent_operator<A, N, double>& k, const Setup<N>& s) {
    return chain<N, B, Rest...>(tfel::material::convert<B, A>(k, s.F0, s.F1, s.sig), s);
  }
  template <TO::Flag A, TO::Flag... Fs>
  std::string routeName(Route<A, Fs...>) {
    std::string r = fs::name(A);
    ((r += std::string("-") + fs::name(Fs)), ...);
    return r;
  }
  template <TO::Flag A, TO::Flag... Fs>
  constexpr TO::Flag first(Route<A, Fs...>) {
    return A;
  }
  template <unsigned short N, TO::Flag A, TO::Flag... Fs>
  auto run(Route<A, Fs...>, const tangent_operator<A, N, double>& k, const Setup<N>& s) {
    return chain<N, A, Fs...>(k, s);
  }
  //! two routes starting from the same flag and ending at the same flag agree
  template <unsigned short N, typename R1, typename R2>
  void routes(verif::Case& c, const Setup<N>& s) {
    constexpr TO::Flag A = first(R1{});
    static_assert(A == first(R2{}));
    const std::string nm = routeName(R1{}) + "_vs_" + routeName(R2{});
    c.tag("route." + nm);
    const fs::Op ra = fs::refOperator(A, s.x);
    const auto Ka = fromT4<tangent_operator<A, N, double>>(ra.D, N);
    const auto K1 = run<N>(R1{}, Ka, s);
    const auto K2 = run<N>(R2{}, Ka, s);
    const R m = std::max(maxAbs(K1), maxAbs(K2));
    R rel = 1e-11L * s.amp;
    if (A == TO::DT_DELOG && s.sc.relax() > 1) rel = 4 * std::max(rel, R(1e-6L)) * s.sc.relax();
    std::string key = "C23.compose." + nm;
    if (A == TO::DT_DELOG && s.sc.doubleEigenvalue3d) key = "C23.compose.from_DT_DELOG.double_eigenvalue_3d";
    if (A == TO::DT_DELOG && s.sc.equalLarge) key = "C23.compose.from_DT_DELOG.equal_large";
    if (A == TO::DT_DELOG && s.sc.tiny) key = "C23.compose.from_DT_DELOG.tiny_gap";
    compareOps(c, K1, K2, rel * m, key, nm);
  }

  using F = TO;
#define C23_UNPAREN(...) __VA_ARGS__
#define C23_ROUTES(X)                                                                            \
  X((Route<F::DTAU_DF, F::C_TAU_JAUMANN, F::ABAQUS>), (Route<F::DTAU_DF, F::ABAQUS>))                \
  X((Route<F::ABAQUS, F::C_TAU_JAUMANN, F::DTAU_DF>), (Route<F::ABAQUS, F::DTAU_DF>))                \
  X((Route<F::SPATIAL_MODULI, F::C_TAU_JAUMANN, F::DTAU_DF>), (Route<F::SPATIAL_MODULI, F::DTAU_DF>)) \
  X((Route<F::DTAU_DF, F::C_TAU_JAUMANN, F::SPATIAL_MODULI>), (Route<F::DTAU_DF, F::SPATIAL_MODULI>)) \
  X((Route<F::DS_DEGL, F::DS_DC, F::DS_DF>), (Route<F::DS_DEGL, F::DS_DF>))                          \
  X((Route<F::DS_DEGL, F::SPATIAL_MODULI, F::ABAQUS>), (Route<F::DS_DEGL, F::ABAQUS>))               \
  X((Route<F::DS_DEGL, F::SPATIAL_MODULI, F::C_TRUESDELL>), (Route<F::DS_DEGL, F::C_TRUESDELL>))     \
  X((Route<F::DTAU_DF, F::SPATIAL_MODULI, F::C_TRUESDELL>), (Route<F::DTAU_DF, F::C_TRUESDELL>))     \
  X((Route<F::DPK1_DF, F::DTAU_DF, F::DSIG_DF>), (Route<F::DPK1_DF, F::DSIG_DF>))                    \
  X((Route<F::DT_DELOG, F::DS_DEGL, F::SPATIAL_MODULI>), (Route<F::DT_DELOG, F::SPATIAL_MODULI>))    \
  X((Route<F::DT_DELOG, F::SPATIAL_MODULI, F::C_TRUESDELL>), (Route<F::DT_DELOG, F::C_TRUESDELL>))   \
  X((Route<F::DT_DELOG, F::DS_DEGL, F::DS_DC>), (Route<F::DT_DELOG, F::DS_DC>))                      \
  X((Route<F::SPATIAL_MODULI, F::C_TAU_JAUMANN, F::ABAQUS>), (Route<F::SPATIAL_MODULI, F::ABAQUS>))  \
  X((Route<F::ABAQUS, F::C_TAU_JAUMANN, F::SPATIAL_MODULI>), (Route<F::ABAQUS, F::SPATIAL_MODULI>))  \
  X((Route<F::DS_DEGL, F::SPATIAL_MODULI, F::DTAU_DF>), (Route<F::DS_DEGL, F::DS_DC, F::DS_DF, F::DTAU_DF>))   \
  X((Route<F::DS_DEGL, F::DPK1_DF, F::DSIG_DF>), (Route<F::DS_DEGL, F::DSIG_DF>))                    \
  X((Route<F::DS_DEGL, F::DPK1_DF, F::DTAU_DF>), (Route<F::DS_DEGL, F::SPATIAL_MODULI, F::DTAU_DF>)) \
  X((Route<F::ABAQUS, F::DTAU_DF, F::DSIG_DF>), (Route<F::ABAQUS, F::DSIG_DF>))                      \
  X((Route<F::C_TRUESDELL, F::SPATIAL_MODULI, F::DTAU_DF, F::DSIG_DF>), (Route<F::C_TRUESDELL, F::DSIG_DF>))                                                           \
  /* round trips A > B > A = identity */                                                         \
  X((Route<F::DS_DEGL, F::DS_DC, F::DS_DEGL>), (Route<F::DS_DEGL>))                                  \
  X((Route<F::DS_DC, F::DS_DEGL, F::DS_DC>), (Route<F::DS_DC>))                                      \
  X((Route<F::DS_DEGL, F::SPATIAL_MODULI, F::DS_DEGL>), (Route<F::DS_DEGL>))                         \
  X((Route<F::SPATIAL_MODULI, F::DS_DEGL, F::SPATIAL_MODULI>), (Route<F::SPATIAL_MODULI>))           \
  X((Route<F::SPATIAL_MODULI, F::ABAQUS, F::SPATIAL_MODULI>), (Route<F::SPATIAL_MODULI>))            \
  X((Route<F::ABAQUS, F::SPATIAL_MODULI, F::ABAQUS>), (Route<F::ABAQUS>))                            \
  X((Route<F::SPATIAL_MODULI, F::C_TRUESDELL, F::SPATIAL_MODULI>), (Route<F::SPATIAL_MODULI>))       \
  X((Route<F::C_TRUESDELL, F::SPATIAL_MODULI, F::C_TRUESDELL>), (Route<F::C_TRUESDELL>))             \
  X((Route<F::DSIG_DF, F::DSIG_DDF, F::DSIG_DF>), (Route<F::DSIG_DF>))                               \
  X((Route<F::DSIG_DDF, F::DSIG_DF, F::DSIG_DDF>), (Route<F::DSIG_DDF>))                             \
  X((Route<F::DTAU_DF, F::DTAU_DDF, F::DTAU_DF>), (Route<F::DTAU_DF>))                               \
  X((Route<F::DTAU_DDF, F::DTAU_DF, F::DTAU_DDF>), (Route<F::DTAU_DDF>))                             \
  X((Route<F::DTAU_DF, F::SPATIAL_MODULI, F::DTAU_DF>), (Route<F::DTAU_DF>))                         \
  X((Route<F::SPATIAL_MODULI, F::DTAU_DF, F::SPATIAL_MODULI>), (Route<F::SPATIAL_MODULI>))           \
  X((Route<F::DTAU_DF, F::C_TAU_JAUMANN, F::DTAU_DF>), (Route<F::DTAU_DF>))                          \
  X((Route<F::C_TAU_JAUMANN, F::DTAU_DF, F::C_TAU_JAUMANN>), (Route<F::C_TAU_JAUMANN>))              \
  X((Route<F::DTAU_DF, F::ABAQUS, F::DTAU_DF>), (Route<F::DTAU_DF>))                                 \
  X((Route<F::ABAQUS, F::DTAU_DF, F::ABAQUS>), (Route<F::ABAQUS>))                                   \
  X((Route<F::ABAQUS, F::C_TAU_JAUMANN, F::ABAQUS>), (Route<F::ABAQUS>))                             \
  X((Route<F::C_TAU_JAUMANN, F::ABAQUS, F::C_TAU_JAUMANN>), (Route<F::C_TAU_JAUMANN>))               \
  X((Route<F::C_TAU_JAUMANN, F::SPATIAL_MODULI, F::C_TAU_JAUMANN>), (Route<F::C_TAU_JAUMANN>))       \
  X((Route<F::SPATIAL_MODULI, F::C_TAU_JAUMANN, F::SPATIAL_MODULI>), (Route<F::SPATIAL_MODULI>))     \
  X((Route<F::DSIG_DF, F::DPK1_DF, F::DSIG_DF>), (Route<F::DSIG_DF>))                                \
  X((Route<F::DPK1_DF, F::DSIG_DF, F::DPK1_DF>), (Route<F::DPK1_DF>))                                \
  X((Route<F::DS_DEGL, F::DPK1_DF, F::DTAU_DF, F::SPATIAL_MODULI, F::DS_DEGL>), (Route<F::DS_DEGL>))      \
  /* last one: goes through (DS_DF, DS_DEGL); only drawn when its known defect is not listed */   \
  X((Route<F::DS_DEGL, F::SPATIAL_MODULI, F::DTAU_DF>), (Route<F::DS_DEGL, F::DS_DF, F::DTAU_DF>))

  template <unsigned short N>
  void composeBody(verif::Case& c) {
    constexpr int nroutes = 0
#define C23_COUNT(A, B) +1
        C23_ROUTES(C23_COUNT)
#undef C23_COUNT
        ;
    int p = static_cast<int>(c.pick(nroutes, "route"));
    // while convert<DS_DF,DS_DEGL> is a listed known defect (factor 4), the route through it is
    // replaced by the one through DS_DC (index 14); it is asserted as soon as the key is not known
    if (p == nroutes - 1 && verif::Global::get().known_keys.count("C23.convert.DS_DF_from_DS_DEGL")) p = 14;
    const auto s = setup<N>(c);
    int n = 0;
#define C23_CASE(A, B)                  \
  if (p == n++) {                       \
    routes<N, C23_UNPAREN A, C23_UNPAREN B>(c, s); \
    return;                             \
  }
    C23_ROUTES(C23_CASE)
#undef C23_CASE
  }

  // ------------------------------------------------- stress measure conversions
  template <typename T>
  void cmpTensor(verif::Case& c, const T& t, const M3& e, int N, R tol, const std::string& key,
                 const std::string& what) {
    const auto v = ref::toTensor(e);
    for (int k = 0; k < ref::tensorSize(N); ++k)
      c.close(t[k], v[k], tol, key, what + " component " + std::to_string(k));
  }
  template <typename S>
  void cmpStensor(verif::Case& c, const S& s, const M3& e, int N, R tol, const std::string& key,
                  const std::string& what) {
    const auto v = ref::toStensor(e);
    for (int k = 0; k < ref::stensorSize(N); ++k)
      c.close(s[k], v[k], tol, key, what + " component " + std::to_string(k));
  }

  template <unsigned short N>
  void stressBody(verif::Case& c) {
    using Stensor = stensor<N, double>;
    using Tensor = tensor<N, double>;
    const double lo = thorough() ? 0.2 : 0.5, hi = thorough() ? 5. : 2.;
    const Tensor f = gen::toTensor<Tensor>(gen::F(c, N, lo, hi));
    const M3 Fm = gen::tensorToM3(f);
    const fs::Kinematics k = fs::kinematics(Fm);
    const R sc = c.chance(1, 3, "unit_stress") ? 1. : c.log10real(-6, 6, "stress_scale");
    const Stensor s = gen::toStensor<Stensor>(sc * fs::genSymTensor(c, N, 1., "sig"));
    const M3 Sg = gen::stensorToM3(s);
    const bool spherical = (k.stretch[2] - k.stretch[0]) <= 1e-3L * k.stretch[2];
    c.nontrivial(N >= 2 && k.angle > 0.2L && !spherical);
    const R J = ref::det(Fm);
    const M3 iF = ref::inverse(Fm), iFt = ref::transpose(iF), Ft = ref::transpose(Fm);
    const R nF = ref::norm(Fm), niF = ref::norm(iF), ns = ref::norm(Sg);
    const R k2 = k.cond * k.cond;
    const R tiny = 1e-290L;
    // Cauchy <-> PK1 : P = J sigma F^-T
    const M3 Pm = J * (Sg * iFt);
    const auto P = convertCauchyStressToFirstPiolaKirchhoffStress(s, f);
    cmpTensor(c, P, Pm, N, 512 * u * k2 * (ns * nF * nF) + tiny, "C23.stress.cauchy_to_pk1",
              "P = J sig F^-T");
    const Tensor Pt = P;
    const M3 Pr = gen::tensorToM3(Pt);
    const auto s2 = convertFirstPiolaKirchhoffStressToCauchyStress(Pt, f);
    cmpStensor(c, Stensor(s2), (1 / J) * ref::sym(Pr * Ft), N, 512 * u * k2 * ns + tiny,
               "C23.stress.pk1_to_cauchy", "sig = P F^T / J");
    cmpStensor(c, Stensor(s2), Sg, N, 512 * u * k2 * ns + tiny, "C23.stress.pk1_roundtrip",
               "PK1 -> Cauchy o Cauchy -> PK1");
    // Cauchy <-> PK2 : S = J F^-1 sigma F^-T
    const M3 S2m = J * (iF * Sg * iFt);
    const Stensor S2 = convertCauchyStressToSecondPiolaKirchhoffStress(s, f);
    cmpStensor(c, S2, S2m, N, 512 * u * k2 * (J * niF * niF * ns) + tiny,
               "C23.stress.cauchy_to_pk2", "S = J F^-1 sig F^-T");
    const M3 S2r = gen::stensorToM3(S2);
    const Stensor s3 = convertSecondPiolaKirchhoffStressToCauchyStress(S2, f);
    cmpStensor(c, s3, (1 / J) * ref::sym(Fm * S2r * Ft), N, 512 * u * k2 * ns + tiny,
               "C23.stress.pk2_to_cauchy", "sig = F S F^T / J");
    cmpStensor(c, s3, Sg, N, 512 * u * k2 * ns + tiny, "C23.stress.pk2_roundtrip",
               "PK2 -> Cauchy o Cauchy -> PK2");
    // Kirchhoff stress: tau = J sigma = F S F^T (push forward)
    const Stensor tau = push_forward(S2, f);
    cmpStensor(c, tau, J * Sg, N, 512 * u * k2 * J * ns + tiny, "C23.stress.kirchhoff",
               "push_forward(S,F) = J sig");
    const Stensor tau2 = pushForward(S2, f);
    cmpStensor(c, tau2, ref::sym(Fm * S2r * Ft), N, 512 * u * k2 * J * ns + tiny,
               "C23.stress.kirchhoff", "pushForward(S,F) = F S F^T");
    // PK1 <-> PK2 consistency: P = F S
    cmpTensor(c, Pt, Fm * S2r, N, 512 * u * k2 * (ns * nF * nF) + tiny, "C23.stress.pk1_pk2",
              "P = F S");
    // corotational Cauchy stress <-> PK2 with the stretch tensor U
    M3 Rm, Um;
    ref::polar(Fm, Rm, Um);
    const Stensor U = gen::toStensor<Stensor>(Um);
    const M3 Ur = gen::stensorToM3(U);
    const M3 iU = ref::inverse(Ur);
    const R JU = ref::det(Ur);
    const Stensor Sc = convertCorotationnalCauchyStressToSecondPiolaKirchhoffStress(s, U);
    cmpStensor(c, Sc, JU * (iU * Sg * iU), N, 512 * u * k2 * (JU * niF * niF * ns) + tiny,
               "C23.stress.corotational_to_pk2", "S = J U^-1 sig U^-1");
    const M3 Scr = gen::stensorToM3(Sc);
    const Stensor sc2 = convertSecondPiolaKirchhoffStressToCorotationnalCauchyStress(Sc, U);
    cmpStensor(c, sc2, (1 / JU) * ref::sym(Ur * Scr * Ur), N, 512 * u * k2 * ns + tiny,
               "C23.stress.pk2_to_corotational", "sig = U S U / J");
    cmpStensor(c, sc2, Sg, N, 512 * u * k2 * ns + tiny, "C23.stress.corotational_roundtrip",
               "PK2 -> corotational o corotational -> PK2");
    // the corotational stress of R^T sig R gives the same S as sig with F
    const Stensor srot = gen::toStensor<Stensor>(ref::sym(ref::transpose(Rm) * Sg * Rm));
    const Stensor Sc3 = convertCorotationnalCauchyStressToSecondPiolaKirchhoffStress(srot, U);
    cmpStensor(c, Sc3, S2m, N, 2048 * u * k2 * (J * niF * niF * ns) + tiny,
               "C23.stress.corotational_vs_cauchy", "S(R^T sig R, U) = S(sig, F)");
  }

}  // namespace

#ifndef C23_DIM
#error "compile with -DC23_DIM=1, 2 or 3 (one unit per space dimension, see engine/specs/C23.json)"
#endif
#define C23_STR2(x) #x
#define C23_STR(x) C23_STR2(x)

VERIF_SUB(convert) { convertBody<C23_DIM>(c); }
VERIF_SUB_W(compose, 0.5) { composeBody<C23_DIM>(c); }
VERIF_SUB_W(stress, 0.5) { stressBody<C23_DIM>(c); }

VERIF_MAIN("C23_tangent" C23_STR(C23_DIM) "d")
