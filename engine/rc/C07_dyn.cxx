/*!
 * C07 - run-time sized solvers: LUSolve (2 and 4 argument forms, reuse of the
 * decomposition through back_substitute), LUDecomp on matrix<T> with
 * Permutation, QRDecomp (exe + tq_product + back_substitute).
 * Same oracle as C07_tiny.hxx; for QR in addition Q^T Q = I and Q^T A = R.
 * QR only pivots on the diagonal of R: an exactly null *column* (or the null
 * matrix) is the structurally singular class it is guaranteed to detect.
 */
#include "C07_common.hxx"
#include "TFEL/Math/vector.hxx"
#include "TFEL/Math/matrix.hxx"
#include "TFEL/Math/LUSolve.hxx"
#include "TFEL/Math/QR/QRDecomp.hxx"

namespace {

  using namespace tfel::math;
  using c07::R;
  using c07::System;
  using c07::Vec;
  constexpr R Ksolve = 512;
  constexpr int kmax = 20, condexp = 9;

  template <typename T>
  tfel::math::matrix<T> toMatrix(const System& s) {
    tfel::math::matrix<T> m(s.n, s.n);
    for (int i = 0; i < s.n; ++i)
      for (int j = 0; j < s.n; ++j) m(i, j) = static_cast<T>(s.A[i * s.n + j]);
    return m;
  }
  template <typename T>
  tfel::math::vector<T> toVector(const Vec& b) {
    tfel::math::vector<T> v(b.size());
    for (std::size_t i = 0; i < b.size(); ++i) v(i) = static_cast<T>(b[i]);
    return v;
  }
  template <typename V>
  Vec fromVector(const V& v, const int n) {
    Vec x(n);
    for (int i = 0; i < n; ++i) x[i] = static_cast<R>(v(i));
    return x;
  }

  void verdict(verif::Case& c, const System& s, const bool ok, const bool detects, const std::string& api,
               const std::function<void()>& onSuccess) {
    if (s.singular) {
      if (detects)
        c.check(!ok, "C07." + api + ".singular_not_reported",
                api + ": success reported for a matrix with an exactly null pivot (n=" + std::to_string(s.n) + ")");
      return;
    }
    if (ok) {
      onSuccess();
    } else {
      c.tag("reported_failure_nonsingular");
      c.check(!c07::mustSucceed<double>(s), "C07." + api + ".spurious_failure",
              api + ": failure reported for a safely non singular matrix (n=" + std::to_string(s.n) + ", cond " +
                  std::to_string(static_cast<double>(s.cond)) + ")");
    }
  }

  int pickN(verif::Case& c) {
    const int n = static_cast<int>(c.integer(1, 12, "n"));
    c.tag("n." + std::to_string(n));
    return n;
  }

}  // namespace

VERIF_SUB(lusolve) {
  using T = double;
  const int n = pickN(c);
  const System s = c07::genSystem<T>(c, n, kmax, condexp);
  const Vec b1 = c07::genRhs<T>(c, s, kmax), b2 = c07::genRhs<T>(c, s, kmax);
  auto m = toMatrix<T>(s);
  auto v1 = toVector<T>(b1), v2 = toVector<T>(b2);
  const bool four = c.boolean("four_argument_form");
  Permutation<tfel::math::matrix<T>::size_type> p(n);
  tfel::math::vector<T> x(n);
  bool ok = true;
  try {
    if (four) {
      LUSolve::exe(m, v1, x, p);
      // reuse of the decomposition, as mtest does
      LUSolve::back_substitute(m, v2, x, p);
    } else {
      LUSolve::exe(m, v1);
    }
  } catch (const LUException&) {
    ok = false;
    c.tag("threw.LUException");
  }
  const bool sw = four && !p.isIdentity();
  if (sw) c.tag("lu.row_exchange");
  c.nontrivial(n >= 2 && (sw || s.singular || (!four && s.pivoting)));
  verdict(c, s, ok, !s.proportional, "lusolve", [&] {
    c07::checkSolution<T>(c, s, b1, fromVector(v1, n), Ksolve, "C07.lusolve.residual", "LUSolve::exe");
    if (four)
      c07::checkSolution<T>(c, s, b2, fromVector(v2, n), Ksolve, "C07.lusolve.residual",
                            "LUSolve::back_substitute (reused decomposition)");
  });
}

VERIF_SUB(ludecomp) {
  using T = double;
  const int n = pickN(c);
  const System s = c07::genSystem<T>(c, n, kmax, condexp);
  const Vec b = c07::genRhs<T>(c, s, kmax);
  auto m = toMatrix<T>(s);
  auto v = toVector<T>(b);
  Permutation<tfel::math::matrix<T>::size_type> p(n);
  tfel::math::vector<T> x(n);
  bool ok = true;
  int d = 0;
  const bool ex = c.boolean("use_exceptions");
  try {
    const auto r = ex ? LUDecomp<true, true>::exe(m, p) : LUDecomp<false, true>::exe(m, p);
    ok = r.first;
    d = r.second;
    if (ok) LUSolve::back_substitute(m, v, x, p);
  } catch (const LUException&) {
    ok = false;
    c.tag("threw.LUException");
    c.check(ex, "C07.ludecomp.exception_policy", "exception thrown although use_exceptions == false");
  }
  const bool sw = !p.isIdentity();
  if (sw) c.tag("lu.row_exchange");
  c.nontrivial(n >= 2 && (sw || s.singular));
  verdict(c, s, ok, !s.proportional, "ludecomp", [&] {
    c07::checkSolution<T>(c, s, b, fromVector(v, n), Ksolve, "C07.ludecomp.residual",
                          "LUDecomp::exe + LUSolve::back_substitute");
    if (s.has_inverse) {
      R det = d;
      for (int i = 0; i < n; ++i) det *= static_cast<R>(m(p(i), i));
      const R dref = ref::detN(n, s.A);
      const R rel = Ksolve * n * c07::U<T>() * s.cond;
      if (rel < R(0.25) && std::isfinite(static_cast<double>(dref)) && std::isfinite(static_cast<double>(det)) &&
          std::fabs(dref) > 1e-280L)
        c.close(det / dref, 1, rel, "C07.ludecomp.determinant", "d * prod(pivots) / det(A)");
    }
  });
}

VERIF_SUB(qr) {
  using T = double;
  const int n = pickN(c);
  const System s = c07::genSystem<T>(c, n, kmax, condexp);
  const Vec b = c07::genRhs<T>(c, s, kmax);
  auto a = toMatrix<T>(s);
  auto v = toVector<T>(b);
  tfel::math::vector<T> rdiag(n), beta(n);
  bool ok = true;
  try {
    QRDecomp::exe(a, rdiag, beta);
    QRDecomp::tq_product(v, a, beta);
    QRDecomp::back_substitute(v, a, rdiag);
  } catch (const QRException&) {
    ok = false;
    c.tag("threw.QRException");
  }
  c.nontrivial(n >= 2 && (s.pivoting || s.singular || s.cond > 1e3L));
  verdict(c, s, ok, s.zero_column, "qr", [&] {
    c07::checkSolution<T>(c, s, b, fromVector(v, n), Ksolve, "C07.qr.residual", "QR solve");
    // Q^T from the stored reflections: column j of Q^T is tq_product(e_j)
    Vec Qt(n * n);
    for (int j = 0; j < n; ++j) {
      tfel::math::vector<T> e(n);
      for (int i = 0; i < n; ++i) e(i) = i == j ? 1 : 0;
      QRDecomp::tq_product(e, a, beta);
      for (int i = 0; i < n; ++i) Qt[i * n + j] = static_cast<R>(e(i));
    }
    const R u = c07::U<T>();
    R orth = 0, fact = 0;
    for (int i = 0; i < n; ++i) {
      R so = 0, sf = 0;
      for (int j = 0; j < n; ++j) {
        R o = 0, f = 0;
        for (int k = 0; k < n; ++k) {
          o += Qt[i * n + k] * Qt[j * n + k];
          f += Qt[i * n + k] * s.A[k * n + j];
        }
        const R rij = j > i ? static_cast<R>(a(i, j)) : (j == i ? static_cast<R>(rdiag(i)) : R(0));
        so += std::fabs(o - (i == j ? 1 : 0));
        sf += std::fabs(f - rij);
      }
      orth = std::max(orth, so);
      fact = std::max(fact, sf);
    }
    // Householder QR is backward stable whatever the conditioning
    const R tolo = 4 * Ksolve * n * u, tolf = 4 * Ksolve * n * u * s.normA;
    c.err("C07.qr.orthogonality", static_cast<double>(orth / tolo));
    c.check(orth <= tolo, "C07.qr.orthogonality",
            "|Q^T Q - I| = " + std::to_string(static_cast<double>(orth)) + " (n=" + std::to_string(n) + ")");
    if (tolf > 0) c.err("C07.qr.factorisation", static_cast<double>(fact / tolf));
    c.check(fact <= tolf, "C07.qr.factorisation",
            "|Q^T A - R| too large: " + std::to_string(static_cast<double>(fact / (s.normA > 0 ? s.normA : 1))) +
                " |A| (n=" + std::to_string(n) + ")");
  });
}

VERIF_MAIN("C07_dyn")
