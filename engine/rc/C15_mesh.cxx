/*!
 * C15 - Geometric 1D discretisation yields an ordered graded mesh.
 *
 * Statement: for every interval [xb,xe], pair of positive densities and
 * number of elements n, geometricDiscretization returns n+1 strictly monotone
 * nodes that start at xb and end at xe; the ratio between consecutive element
 * lengths is constant.
 *
 * Oracle = validity predicate on the returned vector (no reference mesh):
 *   size n+1, v[0]==xb, v[n]==xe (bitwise), strictly monotone in the
 *   direction of xe-xb, all consecutive length ratios equal to their median.
 *
 * Domain (representability, derived from the arithmetic, not from the type):
 * a geometric mesh of ratio q over n elements has a smallest element
 * h_min = l (q-1)/(q^n-1).  Nodes are stored as xb+s in the tested type, so
 * an element is only resolved if h_min >> u*max(|xb|,|xe|,|l|); the last
 * element additionally carries the accumulated error of the n-term sum
 * (see E_last below).  n is reduced (never discarded) until
 * h_min >= 1e3 * E_last, so that strict monotonicity is achievable and ratio
 * tolerances stay <= ~3e-2.
 *
 * Tolerances (u = epsilon of the tested type, X = max(|xb|,|xe|,|l|)):
 *   every node is xb+s rounded: |dv_i| <= u*X (rounding of xb+s) + error of s.
 *   The error of s is common to consecutive nodes except for the last
 *   addition, so an interior element length carries E_int = 4*u*X.
 *   The last node is overwritten by xe, so the last element carries the whole
 *   error of the sum: E_last = u*(X + |l|*(2n + 2 + C)), where C = relative
 *   cancellation in 1-r^n = 1/|r^n-1| (bounded by 1.1e5/n since the closed
 *   form is only used when |r-1|>1e-5).
 *   ratio_i = h_{i+1}/h_i  => |d ratio_i| <= ratio_i*(E_i/h_i + E_{i+1}/h_{i+1} + 4u).
 *   threshold = 64 x that bound (calibrated, see mutants/C15.md).
 *
 * Non-trivial: n >= 3 and ratio != 1 (db != de).
 */
#include "verif.hxx"
#include "refmath.hxx"
#include <limits>
#include <vector>
#include <algorithm>
#include <type_traits>
#include "TFEL/Math/vector.hxx"
#include "TFEL/Math/Discretization1D.hxx"

using ref::R;

namespace {

  //! q = max(r,1/r) of the geometric progression for a reduced density gap d=|db-de|/|l|
  //! (sqrt(q)-1/sqrt(q) = d).  Only used to delimit the representable domain
  //! and to name the input class; never compared with the output.
  R progressionRatio(const R d) {
    const R sq = (d + std::sqrt(d * d + 4)) / 2;
    return sq * sq;
  }
  //! (q-1)/(q^n-1), smallest relative element length
  R hminRel(const R q, const R n) {
    if (q == 1) return 1 / n;
    const R lq = std::log1p(q - 1);
    if (n * lq > 11000) return 0;
    return (q - 1) / std::expm1(n * lq);
  }
  //! relative cancellation of 1-r^n
  R cancellation(const R q, const R n) {
    // no closed form (hence no cancellation) in the near-uniform branch |r-1| <= 1e-5
    if (q == 1 || q - 1 <= 0.99e-5L) return 0;
    const R lq = std::log1p(q - 1);
    const R e = n * lq > 11000 ? INFINITY : std::expm1(n * lq);
    return std::min(1 / e, R(1.1e5) / n);
  }

  template <typename Vector>
  void mesh(verif::Case& c, const std::size_t nmaxType) {
    using T = typename Vector::value_type;
    const R u = std::numeric_limits<T>::epsilon();
    // ---- interval
    const T len = static_cast<T>(c.log10real(-6, 6, "len"));
    T xb = 0;
    switch (c.pick(4, "offset_class")) {
      case 0: xb = 0; break;
      case 1: xb = static_cast<T>(-len / 2); break;
      case 2: xb = static_cast<T>(c.log10real(-2, 2, "off") * len); break;
      default: xb = static_cast<T>(-c.log10real(-2, 2, "off") * len); break;
    }
    const bool reversed = c.chance(1, 6, "reversed");
    const T xe = reversed ? static_cast<T>(xb - len) : static_cast<T>(xb + len);
    const R l = static_cast<R>(xe) - static_cast<R>(xb);
    const R al = std::fabs(l);
    if (!(al > 0)) c.discard();
    // ---- densities: lo and lo + gap*|l|, both > 0
    const auto gclass = c.pick(5, "gap_class");
    R gap = 0;
    switch (gclass) {
      case 0: gap = 0; c.tag("gap.zero"); break;
      case 1: gap = c.log10real(-12, -4, "gap"); c.tag("gap.near_uniform_1e-12..1e-4"); break;
      case 2: gap = c.log10real(-6, -4, "gap"); c.tag("gap.straddle_1e-6..1e-4"); break;
      case 3: gap = c.log10real(-3, 0, "gap"); c.tag("gap.moderate"); break;
      default: gap = c.log10real(0, 3, "gap"); c.tag("gap.large"); break;
    }
    const T lo = static_cast<T>(c.log10real(-4, 1, "lo") * static_cast<double>(al));
    const T hi = static_cast<T>(static_cast<R>(lo) + gap * al);
    const bool increasing = c.boolean("coarser_at_end");
    const T db = increasing ? lo : hi;
    const T de = increasing ? hi : lo;
    if (!(db > 0) || !(de > 0) || !std::isfinite(static_cast<double>(hi))) c.discard();
    // what the function sees
    const R d = std::fabs(static_cast<R>(db) - static_cast<R>(de)) / al;
    const R q = progressionRatio(d);
    const R X = std::max({std::fabs(static_cast<R>(xb)), std::fabs(static_cast<R>(xe)), al});
    // ---- number of elements, reduced until the mesh is representable
    std::size_t n = 1;
    switch (c.pick(12, "n_class")) {
      case 0: case 1: case 2: n = static_cast<std::size_t>(c.integer(1, 10, "n")); break;
      case 3: case 4: case 5: case 6: case 7: n = static_cast<std::size_t>(c.log10real(0, 3, "n")); break;
      case 8: n = static_cast<std::size_t>(c.log10real(3, 5, "n")); break;
      case 9: n = 1; break;
      case 10: n = 2; break;
      default: n = 100000; break;
    }
    n = std::max<std::size_t>(1, std::min(n, nmaxType));
    auto Elast = [&](const std::size_t m) {
      return u * (X + al * (2 * R(m) + 2 + cancellation(q, R(m))));
    };
    while (n > 1 && !(hminRel(q, R(n)) * al >= 1e3L * Elast(n))) n /= 2;
    if (!(hminRel(q, R(n)) * al >= 1e3L * Elast(n))) c.discard();
    const bool near_uniform = (d != 0) && (q - 1 <= 1.0001e-5L);
    if (near_uniform) c.tag("class.near_uniform_branch");
    if (n >= 1000) c.tag("n.ge1000");
    if (reversed) c.tag("reversed");
    c.nontrivial(n >= 3 && d != 0);
    // ---- call
    // the output container is an input too: callers reuse it, so it may come in with any size and content
    Vector v;
    {
      std::size_t m = 0;
      switch (c.pick(4, "previous_size")) {
        case 0: c.tag("out.empty"); break;
        case 1: m = static_cast<std::size_t>(c.integer(1, static_cast<long>(n), "m_smaller")); c.tag("out.smaller"); break;
        case 2: m = n + 1; c.tag("out.same"); break;
        default: m = n + 1 + static_cast<std::size_t>(c.integer(1, 50, "m_excess")); c.tag("out.larger"); break;
      }
      v.resize(static_cast<typename Vector::size_type>(m));
      for (auto& e : v) e = std::numeric_limits<T>::quiet_NaN();
    }
    tfel::math::geometricDiscretization(v, xb, xe, db, de,
                                        static_cast<typename Vector::size_type>(n));
    // ---- predicate
    c.check(v.size() == n + 1, "C15.size", "size is " + std::to_string(v.size()) +
                                                " for n=" + std::to_string(n));
    c.check(v[0] == xb, "C15.ends", "v[0] != xb");
    c.check(v[n] == xe, "C15.ends", "v[n] != xe");
    const std::string cls = near_uniform ? ".near_uniform" : ".generic";
    const R sgn = l > 0 ? 1 : -1;
    std::vector<R> h(n);
    for (std::size_t i = 0; i != n; ++i) {
      h[i] = sgn * (static_cast<R>(v[i + 1]) - static_cast<R>(v[i]));
      if (!(h[i] > 0)) {
        std::ostringstream os;
        os.precision(17);
        os << "not strictly monotone at i=" << i << "/" << n << ": v[i]=" << static_cast<double>(v[i])
           << " v[i+1]=" << static_cast<double>(v[i + 1]) << " (xb=" << static_cast<double>(xb)
           << ", xe=" << static_cast<double>(xe) << ", db=" << static_cast<double>(db)
           << ", de=" << static_cast<double>(de) << ")";
        c.check(false, "C15.monotone" + cls, os.str());
      }
    }
    if (n >= 3) {
      std::vector<R> ratio(n - 1), tol(n - 1);
      for (std::size_t i = 0; i + 1 != n; ++i) {
        const R Ei = 4 * u * X;
        const R Ej = (i + 2 == n) ? Elast(n) : 4 * u * X;
        ratio[i] = h[i + 1] / h[i];
        tol[i] = ratio[i] * (Ei / h[i] + Ej / h[i + 1] + 4 * u);
      }
      // median ratio and its tolerance
      std::vector<std::size_t> idx(n - 1);
      for (std::size_t i = 0; i != idx.size(); ++i) idx[i] = i;
      std::nth_element(idx.begin(), idx.begin() + idx.size() / 2, idx.end(),
                       [&](std::size_t a, std::size_t b) { return ratio[a] < ratio[b]; });
      const auto m = idx[idx.size() / 2];
      for (std::size_t i = 0; i + 1 != n; ++i) {
        const R t = 64 * (tol[i] + tol[m]);
        const R e = std::fabs(ratio[i] - ratio[m]);
        c.err("C15.ratio" + cls, static_cast<double>(e / t));
        if (!(e <= t)) {
          std::ostringstream os;
          os.precision(17);
          os << "length ratio " << i << "/" << (n - 1) << " is " << static_cast<double>(ratio[i])
             << ", median ratio " << static_cast<double>(ratio[m]) << ", tol "
             << static_cast<double>(t) << " (n=" << n << ", xb=" << static_cast<double>(xb)
             << ", xe=" << static_cast<double>(xe) << ", db=" << static_cast<double>(db)
             << ", de=" << static_cast<double>(de) << ")";
          c.check(false, "C15.ratio" + cls, os.str());
        }
      }
    }
  }

}  // namespace

VERIF_SUB(std_vector_double) { mesh<std::vector<double>>(c, 100000); }
VERIF_SUB(tfel_vector_double) { mesh<tfel::math::vector<double>>(c, 100000); }
VERIF_SUB_W(std_vector_float, 0.5) { mesh<std::vector<float>>(c, 2000); }

//! documented exceptions of Discretization1D.hxx
VERIF_SUB_W(invalid, 0.05) {
  using namespace tfel::math;
  std::vector<double> v;
  const double len = c.log10real(-6, 6, "len");
  const double d1 = c.log10real(-4, 1, "d1") * len, d2 = c.log10real(-4, 1, "d2") * len;
  const auto k = c.pick(4, "kind");
  c.nontrivial(true);
  bool ok = false;
  try {
    switch (k) {
      case 0: geometricDiscretization(v, 1., 1., d1, d2, 5u); break;
      case 1: geometricDiscretization(v, 0., len, 0., d2, 5u); break;
      case 2: geometricDiscretization(v, 0., len, d1, 0., 5u); break;
      default: geometricDiscretization(v, 0., len, d1, d2, 0u); break;
    }
  } catch (const GeometricDiscretizationInvalidLength&) {
    ok = (k == 0);
  } catch (const GeometricDiscretizationInvalidDensity&) {
    ok = (k == 1 || k == 2);
  } catch (const GeometricDiscretizationInvalidNumberOfElements&) {
    ok = (k == 3);
  }
  c.check(ok, "C15.invalid_input", "documented exception not thrown for kind " + std::to_string(k));
}

VERIF_MAIN("C15_mesh")
