#!/usr/bin/env python3-vt
"""C51 (MTest part) - verdicts of MTest's @Test<function> / @Test<file> are sound.

One elastic behaviour (mfront/tests/behaviours/Elasticity.mfront, generic
interface) is built once.  A scenario is a uniaxial tensile test driven by
`@ImposedStrain 'EXX'` over unit time steps; its closed form response is
SXX = E*EXX, EYY = EZZ = -nu*EXX, other components 0.  The values MTest really
computes (r_n after period n) are read from a base run written with
`@OutputFilePrecision 17` (exact round trip) and cross-checked against the closed
form (1e-9 relative; a mismatch is a broken harness, not a verdict).

Each generated case adds 1..4 tests to the scenario, whose references are
r_n + delta_n with delta in {0, inside, exactly at, +-1..2 ulp, just outside, far,
NaN, +-Inf, missing row}:
  @Test<file> 'ref.txt' 'VAR' col eps;      (line n+1 <-> period n, documented)
  @Test<function> 'VAR' 'R<k>' eps;         (R<k>: @Evolution through the references)
docs/mtest/mtest/Test.md: "The comparisons are made using an absolute criterium".
Oracle, per test, from the *data* (binary64 replication of |r-ref| > eps, and of the
piecewise linear evolution of the function tests):
   SUCCESS => every period has a finite reference with |r_n - ref_n| <= eps
   all |r_n - ref_n| <= eps (in particular the output compared with itself) => SUCCESS
   exit status 0 <=> every test SUCCESS.
mtest ending through std::terminate with a what() message (exit 134) is its documented
error path: it is "no SUCCESS", never a crash.
"""
import math
import os
import random
import re
import shutil
import sys

from verifpy import (Unit, Result, Reject, run_hypothesis, replay_main, WORK, REPO, SEED, KNOWN, param, tool, run,
                     mfront_generate, compile_generated)

# column (0-based) in the .res file.  Only stresses are tested: the .res file prints the *unknowns* u for the
# strains, whereas @Test reads the integration point's e1, which can differ from u by one ulp (measured);
# the printed stresses are the very s1 values the tests read.
VARS = {"SXX": 7, "SYY": 8, "SZZ": 9, "SXY": 10}
STRAINS = {"EXX": 1, "EYY": 2, "EZZ": 3}
_counter = [0]
_lib = [None]
_base = {}


def fmt(x):
    if math.isnan(x):
        return "nan"
    if math.isinf(x):
        return "inf" if x > 0 else "-inf"
    return "%.17g" % x


def library():
    if _lib[0] is None:
        d = os.path.join(WORK, "behaviour")
        shutil.rmtree(d, ignore_errors=True)
        rc, so, se = mfront_generate(os.path.join(REPO, "mfront", "tests", "behaviours", "Elasticity.mfront"), d)
        if rc != 0:
            raise SystemExit("C51_mtest: mfront failed (exit %s): " % rc + (so + se)[-2000:])
        lib, err = compile_generated(d, "Behaviour")
        if lib is None:
            raise SystemExit("C51_mtest: compilation of the elastic behaviour failed: " + err)
        _lib[0] = lib
    return _lib[0]


def mtest_text(sc, tests, out17):
    n = len(sc["exx"]) - 1
    l = ["@ModellingHypothesis 'Tridimensional';",
         "@Behaviour<generic> '%s' 'Elasticity';" % library(),
         "@MaterialProperty<constant> 'YoungModulus' %s;" % sc["E"],
         "@MaterialProperty<constant> 'PoissonRatio' %s;" % sc["nu"],
         "@ExternalStateVariable 'Temperature' 293.15;",
         "@ImposedStrain 'EXX' {%s};" % ",".join("%d:%s" % (i, v) for i, v in enumerate(sc["exx"])),
         "@Times {%s};" % ",".join(str(i) for i in range(n + 1))]
    if out17:
        l.append("@OutputFilePrecision 17;")
    files = {}
    for k, t in enumerate(tests):
        if t["kind"] == "file":
            fn = "ref%d.txt" % k
            files[fn] = "".join("%d %s\n" % (i, v) for i, v in enumerate(t["ref"]))
            if t.get("map"):
                l.append("@Test<file> '%s' {'%s':2} %s;" % (fn, t["var"], t["eps"]))
            else:
                l.append("@Test<file> '%s' '%s' 2 %s;" % (fn, t["var"], t["eps"]))
        else:
            l.append("@Evolution 'R%d' {%s};" % (k, ",".join("%d:%s" % (i, v) for i, v in enumerate(t["ref"]))))
            if t.get("map"):
                l.append("@Test<function> {'%s':'R%d'} %s;" % (t["var"], k, t["eps"]))
            else:
                l.append("@Test<function> '%s' 'R%d' %s;" % (t["var"], k, t["eps"]))
    return "\n".join(l) + "\n", files


def run_mtest(sc, tests, out17=False):
    _counter[0] += 1
    d = os.path.join(WORK, "mt_%d_%d" % (os.getpid(), _counter[0]))
    shutil.rmtree(d, ignore_errors=True)
    os.makedirs(d)
    txt, files = mtest_text(sc, tests, out17)
    with open(os.path.join(d, "case.mtest"), "w") as f:
        f.write(txt)
    for fn, c in files.items():
        with open(os.path.join(d, fn), "w") as f:
            f.write(c)
    rc, so, se = run([tool("mtest"), "--verbose=quiet", "--xml-output=true", "case.mtest"], cwd=d, timeout=300)
    verdicts = None
    xml = os.path.join(d, "case.xml")
    if os.path.exists(xml):
        verdicts = []
        for line in open(xml, errors="replace"):
            s = line.rstrip("\n")
            if s.startswith("SUCCESS : "):
                verdicts.append(True)
            elif s.rstrip() == "FAILURE :":
                verdicts.append(False)
    res = None
    rp = os.path.join(d, "case.res")
    if out17 and os.path.exists(rp):
        res = [[float(x) for x in l.split()] for l in open(rp) if l.strip() and not l.startswith("#")]
    shutil.rmtree(d, ignore_errors=True)
    return rc, verdicts, res, (so + se)[-1500:], txt, files


def base_run(sc):
    """computed values: dict var -> [r_0 .. r_n]"""
    key = (sc["E"], sc["nu"], tuple(sc["exx"]))
    if key not in _base:
        rc, v, res, out, txt, files = run_mtest(sc, [], out17=True)
        n = len(sc["exx"]) - 1
        if rc != 0 or res is None or len(res) != n + 1:
            raise SystemExit("C51_mtest: base run failed (exit %s)\n%s\n%s" % (rc, txt, out))
        E, nu = float(sc["E"]), float(sc["nu"])
        r = {v: [row[c] for row in res] for v, c in list(VARS.items()) + list(STRAINS.items())}
        for i in range(n + 1):
            e = float(sc["exx"][i])
            emax = max(abs(float(x)) for x in sc["exx"]) or 1.
            ok = (abs(r["EXX"][i] - e) <= 1e-9 * emax and abs(r["SXX"][i] - E * e) <= 1e-9 * E * emax and
                  abs(r["EYY"][i] + nu * e) <= 1e-9 * emax and abs(r["EZZ"][i] + nu * e) <= 1e-9 * emax and
                  abs(r["SYY"][i]) <= 1e-9 * E * emax and abs(r["SZZ"][i]) <= 1e-9 * E * emax and r["SXY"][i] == 0)
            if not ok:
                raise SystemExit("C51_mtest: base run does not match the closed form at period %d: %s" % (i, res[i]))
        _base[key] = r
    return _base[key]


def lpi(y, i):
    """LPIEvolution::interpolate at the knot t=i (unit knots), binary64 replication (Evolution.cxx:96)"""
    if i == 0:
        return y[0]
    x0, x1, t = float(i - 1), float(i), float(i)
    return (y[i] - y[i - 1]) / (x1 - x0) * (t - x0) + y[i - 1]


def analyse(sc, t, r):
    """-> dict(no_success: reason or None, all_within, identical, near)"""
    n = len(sc["exx"]) - 1
    eps = float(t["eps"])
    ref = [float(x) for x in t["ref"]]
    out = {"no_success": None, "all_within": True, "identical": True, "near": False, "nonfinite": False}
    if t["kind"] == "function" and len(ref) != n + 1:
        raise Reject()
    for i in range(1, n + 1):
        if i >= len(ref):
            out["no_success"] = out["no_success"] or "no reference for period %d" % i
            out["all_within"] = out["identical"] = False
            continue
        fv = lpi(ref, i) if t["kind"] == "function" else ref[i]
        if not math.isfinite(fv):
            out["nonfinite"] = True
            out["no_success"] = out["no_success"] or "reference of period %d is %s" % (i, fv)
            out["all_within"] = out["identical"] = False
            continue
        err = abs(r[i] - fv)
        if err != 0:
            out["identical"] = False
        if err > eps:
            out["all_within"] = False
            out["no_success"] = out["no_success"] or "period %d: computed %.17g, reference %.17g, |error| %.17g > %s" % (
                i, r[i], fv, err, t["eps"])
        if abs(err - eps) <= 2 * max(math.ulp(r[i]), math.ulp(fv), math.ulp(eps)):
            out["near"] = True
    if t["kind"] == "function" and not all(math.isfinite(x) for x in ref):
        # a non finite knot makes the evolution itself invalid (any period may be affected)
        out["nonfinite"] = True
        out["no_success"] = out["no_success"] or "non finite knot"
        out["all_within"] = out["identical"] = False
    return out


def check_case(case):
    sc, tests = case["scenario"], case["tests"]
    base = base_run(sc)
    rc, verdicts, _, outtxt, txt, files = run_mtest(sc, tests)
    desc = txt + "".join("--- %s\n%s" % kv for kv in sorted(files.items()))
    aborted = rc not in (0, 1)
    if rc < 0 and rc != -6:
        return Result(False, "C51.mtest.crash", "mtest died with signal %d on\n%s" % (-rc, desc))
    if not aborted and (verdicts is None or len(verdicts) != len(tests)):
        return Result(False, "C51.mtest.unreadable", "exit %s, verdicts %s for %d tests\n%s\n%s" % (rc, verdicts, len(tests), desc, outtxt))
    fails = []
    classes = []
    nontrivial = False
    for k, t in enumerate(tests):
        an = analyse(sc, t, base[t["var"]])
        v = False if aborted else verdicts[k]
        kind = t["kind"]
        classes.append("kind." + kind)
        nontrivial = nontrivial or an["near"] or an["nonfinite"]
        where = "test %d (%s '%s', eps %s, computed %s) of\n%s" % (
            k + 1, kind, t["var"], t["eps"], [fmt(x) for x in base[t["var"]]], desc)
        if an["no_success"]:
            classes.append("nonfinite" if an["nonfinite"] else "outside")
            if v:
                key = "C51.mtest.%s.%s_success" % (kind, "nonfinite_reference" if an["nonfinite"] else "outside")
                fails.append((key, "SUCCESS although %s; %s" % (an["no_success"], where)))
        elif an["all_within"]:
            classes.append("identical" if an["identical"] else "within")
            if an["near"]:
                classes.append("near_threshold")
            # an abort (what() message, exit 134) rejects the whole input, e.g. because another test's reference file
            # holds a spelling the parser refuses ("-inf" is tokenised as "-" "inf"): no verdict is demanded then
            if not v and not aborted:
                fails.append(("C51.mtest.%s.%s_failed" % (kind, "identical" if an["identical"] else "within"),
                              "%s although every period is within the criterion; %s\n%s" % (
                                  "mtest aborted (exit %s)" % rc if aborted else "FAILED", where, outtxt)))
    if not aborted and (rc == 0) != all(verdicts):
        fails.append(("C51.mtest.exit_status", "exit status %d but test verdicts %s for\n%s" % (rc, verdicts, desc)))
    if aborted:
        classes.append("aborted")
    if fails:
        unknown = [f for f in fails if f[0] not in KNOWN]
        key, msg = (unknown or fails)[0]
        return Result(False, key, msg)
    return Result(True, nontrivial=nontrivial, classes=sorted(set(classes)), sample={"mtest": txt, "files": files, "verdicts": verdicts})


# ------------------------------------------------------------------ generator
def scenario_pool():
    rnd = random.Random(SEED * 7919 + 51)
    pool = []
    for E, nu in (("150e9", "0.3"), ("70e9", "0.25"), ("210000", "0.3"), ("1", "0"), ("2.5e11", "0.49")):
        n = rnd.randint(1, 6)
        exx = ["0"] + [fmt(rnd.choice([-1, 1]) * rnd.randint(1, 4000) * 2. ** -20) for _ in range(n)]
        pool.append({"E": E, "nu": nu, "exx": exx})
    return pool


def strategy():
    from hypothesis import strategies as st
    pool = scenario_pool()
    ROW = ["identical", "within", "at", "ulp", "just_outside", "far", "nan", "inf"]
    inf = float("inf")

    @st.composite
    def test(draw, sc):
        r = base_run(sc)
        n = len(sc["exx"]) - 1
        var = draw(st.sampled_from(sorted(VARS)))
        kind = draw(st.sampled_from(["file", "function"]))
        scale = max(abs(x) for x in r[var]) or 1.
        eps = draw(st.one_of(
            st.builds(lambda m, e: m * 10. ** e * scale, st.sampled_from([1., 2., 5.]), st.integers(-14, 2)),
            st.integers(1, 4096).map(lambda m: m * 2. ** (math.frexp(scale)[1] - 30)),
            st.just(0.)))
        mode = draw(st.sampled_from(["identical", "good", "good", "mixed", "mixed", "short"]))
        allow_nf = draw(st.integers(0, 2)) == 0
        ref = [draw(st.sampled_from([0., 1., r[var][0]]))]
        for i in range(1, n + 1):
            cls = "identical" if mode == "identical" else draw(st.sampled_from(
                ROW[:4] if mode in ("good", "short") else (ROW if allow_nf else ROW[:6])))
            sgn = draw(st.sampled_from([-1., 1.]))
            th = draw(st.floats(0., 1.))
            k = draw(st.sampled_from([-2, -1, 1, 2]))
            x = r[var][i]
            if cls == "within":
                x = x + sgn * 0.9 * th * eps
            elif cls == "at":
                x = x + sgn * eps
            elif cls == "ulp":
                x = x + sgn * eps
                for _ in range(abs(k)):
                    x = math.nextafter(x, inf if k > 0 else -inf)
            elif cls == "just_outside":
                x = x + sgn * (eps * (1.01 + 2 * th) + 4 * math.ulp(x))
            elif cls == "far":
                x = x + sgn * (eps + 1e-3 * scale) * 10. ** (1 + 4 * th)
            elif cls == "nan":
                x = float("nan")
            elif cls == "inf":
                x = sgn * inf
            if x != 0 and abs(x) < 1e-300:  # std::stod rejects subnormal spellings (ERANGE): outside the input domain
                x = 0.
            ref.append(x)
        if mode == "short" and kind == "file":
            ref = ref[:draw(st.integers(1, n))]
        return {"kind": kind, "var": var, "eps": fmt(eps), "map": draw(st.booleans()), "ref": [fmt(x) for x in ref]}

    @st.composite
    def case(draw):
        sc = draw(st.sampled_from(pool))
        return {"scenario": sc, "tests": draw(st.lists(test(sc), min_size=1, max_size=4))}

    return case()


def main():
    replay_main({"mtest": check_case})
    u = Unit("C51_mtest")
    run_hypothesis(u, "mtest", strategy(), check_case, max_examples=param("cases", 40))
    sys.exit(u.finish())


if __name__ == "__main__":
    main()
