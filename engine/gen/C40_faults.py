#!/usr/bin/env python3-vt
"""C40 - a failed generic-interface call (return value -1) leaves the output
state untouched.

Fault enumeration by construction: every generated behaviour (Default, Implicit,
RungeKutta DSLs, Default + @StrainMeasure GreenLagrange / Hencky, and
DefaultFiniteStrain) carries an external state variable `fault` whose integer
value selects the stage that fails (see STAGES): return false / exception in
@InitLocalVariables, out-of-bounds variable under the Strict policy, a-priori
factor rejected, @Integrator (or @Derivative) failing / throwing after the state
of the behaviour object was modified, Newton / Runge-Kutta non convergence,
@ComputeStress throwing, @UpdateAuxiliaryStateVariables throwing,
@TangentOperator failing, a-posteriori factor rejected, exceptions in
@InternalEnergy / @DissipatedEnergy / @SpeedOfSound, @PredictionOperator failing,
invalid K[1] / K[2] codes of finite strain behaviours.

Oracle: the output buffers s1.thermodynamic_forces, s1.internal_state_variables,
s1.stored_energy, s1.dissipated_energy are prefilled with a random sentinel
pattern; after a call returning -1 they must be bit-identical to it (K, rdt,
error_message and speed_of_sound may change).  A fault whose stage is reached by
the request must make the call return -1 and a call without fault must succeed
and overwrite the sentinel (otherwise the enumeration would be vacuous).

sub "enumeration": every (program, hypothesis, stage) x {K[0] = 0, 4, 104, -1}
                   (deterministic list, states sampled from random.Random(SEED))
sub "random"     : Hypothesis over (program, hypothesis, stage, K[0], K[1], K[2], policy, state)
"""
import math
import random
import sys

import numpy as np
from hypothesis import strategies as st

from verifpy import (Unit, Result, Reject, run_hypothesis, replay_main, SEED, JOBS, KNOWN, param, parallel_map)
import gb_iface as gb

HYPS = ["Tridimensional", "PlaneStrain", "Axisymmetrical", "GeneralisedPlaneStrain",
        "AxisymmetricalGeneralisedPlaneStrain"]

# stage name -> (code, where it fires, state of the behaviour object already modified)
STAGES = {
    "none": 0,
    "init_false": 1, "init_throw": 2,
    "prediction_false": 3, "prediction_throw": 4,
    "apriori_false": 5, "apriori_throw": 6,
    "integrator_false": 7, "integrator_throw": 8,
    "update_aux_throw": 9,
    "tangent_false": 10, "tangent_throw": 11,
    "aposteriori_false": 12, "aposteriori_throw": 13,
    "internal_energy_throw": 14, "dissipated_energy_throw": 15, "speed_of_sound_throw": 16,
    "compute_stress_throw": 17, "no_convergence": 18,
    # not driven by `fault`:
    "bounds_strict": 100, "invalid_stress_measure": 101, "invalid_tangent_operator": 102,
}
MODIFIED = {"integrator_false", "integrator_throw", "update_aux_throw", "tangent_false", "tangent_throw",
            "aposteriori_false", "aposteriori_throw", "internal_energy_throw", "dissipated_energy_throw",
            "speed_of_sound_throw", "no_convergence", "compute_stress_throw"}
LATE = {"internal_energy_throw", "dissipated_energy_throw", "speed_of_sound_throw"}
KINDS = ["default", "implicit", "rk", "gl", "hencky", "fs"]


def stages_of(p):
    kind = p["kind"]
    s = [k for k in STAGES if k not in ("compute_stress_throw", "no_convergence", "invalid_stress_measure",
                                        "invalid_tangent_operator")]
    if kind in ("implicit", "rk"):
        s += ["compute_stress_throw"]
        if kind == "implicit" or p["rkalgo"] in ("rk54", "rk42", "rkCastem"):
            s += ["no_convergence"]  # algorithms without error control have nothing to converge to
    if kind in ("gl", "hencky", "fs"):
        s += ["invalid_stress_measure", "invalid_tangent_operator"]
    return s


def F(code, what):
    return "  if(fc==%d){\n    %s\n  }\n" % (code, what)


def RAISE(stage):
    return 'tfel::raise("C40: %s");' % stage


def render(p):
    k = p["kind"]
    L = []
    dsl = {"default": "Default", "gl": "Default", "hencky": "Default", "implicit": "Implicit", "rk": "RungeKutta",
           "fs": "DefaultFiniteStrain"}[k]
    L.append("@DSL %s;\n@Behaviour %s;\n@ModellingHypotheses {%s};" % (dsl, p["name"], ", ".join(p["hyps"])))
    if k == "gl":
        L.append("@StrainMeasure GreenLagrange;")
    if k == "hencky":
        L.append("@StrainMeasure Hencky;")
    if k == "implicit":
        L.append("@Epsilon 1.e-14;\n@Theta 1;\n@IterMax 12;")
    if k == "rk":
        L.append("@Algorithm %s;\n@Epsilon 1.e-8;" % p["rkalgo"])
    L.append("@MaterialProperty stress young;\n@MaterialProperty real mb;\n@Bounds mb in [%r:%r];" % tuple(p["mb_bounds"]))
    L.append("@StateVariable real a;\n@StateVariable Stensor s;\n@AuxiliaryStateVariable real b;")
    L.append("@ExternalStateVariable real fault;\n@LocalVariable int fc;")
    L.append("@InitLocalVariables{\n  fc = static_cast<int>(fault + 0.5);\n" + F(1, "return false;") + F(2, RAISE("init")) + "}")
    top = "<DS_DEGL>" if k == "fs" else ""
    L.append("@PredictionOperator%s{\n" % top + F(3, "return false;") + F(4, RAISE("prediction")) +
             "  Dt = %r*Stensor4::Id();\n}" % p["kpred"])
    L.append("@APrioriTimeStepScalingFactor{\n" + F(5, "return {false, 0.5};") + F(6, RAISE("apriori")) +
             "  return {true, %r};\n}" % p["fprio"])
    late = F(7, "return false;") + F(8, RAISE("integrator"))
    if k in ("default", "gl", "hencky"):
        L.append("@Integrator{\n  sig = (%r*young)*(eto+deto);\n  da = %r;\n  ds = %r*deto;\n" % (p["cs"], p["ca"], p["cd"]) + late + "}")
    elif k == "fs":
        L.append("@Integrator{\n  const auto e = computeGreenLagrangeTensor(F1);\n  sig = (%r*young)*e;\n  da = %r;\n  ds = %r*e;\n" % (
            p["cs"], p["ca"], p["cd"]) + late + "}")
    elif k == "implicit":
        L.append("@ComputeStress{\n" + F(17, RAISE("compute_stress")) + "  sig = (%r*young)*eel;\n}" % p["cs"])
        L.append("@Integrator{\n  feel -= deto;\n  fa -= %r;\n  fs -= %r*deto;\n" % (p["ca"], p["cd"]) + late +
                 F(18, "fa = da*da + 1;") + "}")
    else:
        L.append("@ComputeStress{\n" + F(17, RAISE("compute_stress")) + "  sig = (%r*young)*eel;\n}" % p["cs"])
        L.append("@Derivative{\n  deel = deto;\n  da = %r;\n  ds = %r*deto;\n" % (p["ca"], p["cd"]) + late +
                 F(18, "da = std::sqrt(real(-1));") + "}")
    L.append("@UpdateAuxiliaryStateVariables{\n  b = %r*a;\n" % p["cb"] + F(9, RAISE("update_aux")) + "}")
    L.append("@TangentOperator%s{\n" % top + F(10, "return false;") + F(11, RAISE("tangent")) +
             "  Dt = %r*Stensor4::Id();\n}" % p["ktang"])
    L.append("@APosterioriTimeStepScalingFactor{\n" + F(12, "return {false, 0.5};") + F(13, RAISE("aposteriori")) +
             "  return {true, %r};\n}" % p["fpost"])
    L.append("@InternalEnergy{\n" + F(14, RAISE("internal_energy")) + "  Psi_s = %r*trace(sig);\n}" % p["ce"])
    L.append("@DissipatedEnergy{\n" + F(15, RAISE("dissipated_energy")) + "  Psi_d += %r;\n}" % p["cde"])
    L.append("@SpeedOfSound{\n" + F(16, RAISE("speed_of_sound")) + "  v_sound = %r*sqrt(young/rho_m0);\n}" % p["csos"])
    return "\n".join(L) + "\n"


def gen_program(seed, idx):
    r = random.Random(seed * 104729 + idx)
    kind = KINDS[idx % len(KINDS)]
    h1 = HYPS[(idx + seed) % len(HYPS)]
    h2 = r.choice([h for h in HYPS if h != h1])
    lo = float(r.randint(-20, 5))
    p = {"name": "C40s%dp%d" % (seed % 100000, idx), "kind": kind, "hyps": [h1, h2],
         "rkalgo": r.choice(["rk54", "rk42", "rkCastem", "euler", "rk2", "rk4"]),
         "mb_bounds": [lo, lo + r.randint(2, 30)],
         "kpred": float(r.randint(2, 4000)) / 8, "ktang": float(r.randint(2, 4000)) / 8,
         "cs": float(r.randint(1, 40)) / 4, "ca": float(r.randint(1, 16)) / 8, "cd": float(r.randint(1, 9)) / 4,
         "cb": float(r.randint(2, 9)), "ce": float(r.randint(1, 9)) / 2, "cde": float(r.randint(1, 9)),
         "csos": float(r.randint(1, 9)) / 2,
         "fprio": r.choice([1.5, 1.0, 0.75]), "fpost": r.choice([1.25, 1.0, 0.5])}
    p["src"] = render(p)
    return p


def reached(kind, stage, pred, want_op, flag):
    """does a request of this shape reach the stage?"""
    if stage in ("none",):
        return False
    if stage in ("init_false", "init_throw", "bounds_strict", "invalid_stress_measure"):
        return True
    if stage == "invalid_tangent_operator":
        return True  # (only generated with an operator or prediction request)
    if stage in ("prediction_false", "prediction_throw"):
        return pred
    if stage == "speed_of_sound_throw":
        return flag  # also computed (before the operator) for a flagged prediction request
    if pred:
        return False
    if stage in ("tangent_false", "tangent_throw"):
        return want_op
    return True


def check_case(case):
    p = case["prog"]
    lib, err = gb.build(p)
    if lib is None:
        return Result(False, "C40.harness.build", "program does not build: " + err)
    kind, h, stage, stt = p["kind"], case["hyp"], case["stage"], case["st"]
    n, ss, ts = gb.HYP[h]
    base, flag = case["k0"], case["flag"]
    pred, want_op = base < 0, base > 0
    finite = kind in ("gl", "hencky", "fs")
    m = lib.meta[h]
    classes = ["kind." + kind, "stage." + stage, "hyp." + h, "k0.%d%s" % (base, "+100" if flag else "")]
    b = gb.Buffers(lib, h)
    gsize = m["Gradients"]["size"]
    g0, g1 = np.array(stt["g0"][:gsize]), np.array(stt["g1"][:gsize])
    if finite:
        g0, g1 = 0.1 * g0, 0.1 * g1
        g0[:3] += 1.0
        g1[:3] += 1.0
    b.g0[:gsize], b.g1[:gsize] = g0, g1
    k1, k2 = (case["k1"], case["k2"]) if finite else (None, None)
    if stage == "invalid_stress_measure":
        k1 = stt["bad"]
    if stage == "invalid_tangent_operator":
        k2 = stt["bad"] + 1.0
    b.tf0[:] = np.array(stt["tf0"][:len(b.tf0)])
    if finite and k1 is not None and 0.5 < k1 < 1.5:
        pass  # PK2: any symmetric tensor is fine
    mbmid = 0.5 * (p["mb_bounds"][0] + p["mb_bounds"][1])
    mb = mbmid
    policy = case["policy"]
    if stage == "bounds_strict":
        mb = p["mb_bounds"][1] + stt["oobd"] if stt["oobhi"] else p["mb_bounds"][0] - stt["oobd"]
        policy = "Strict"
    b.mp[:] = [{"young": stt["young"], "mb": mb}[x] for x in m["MaterialProperties"]["names"]]
    ioff = lib.offsets(h, "InternalStateVariables")
    b.iv0[:] = np.array(stt["iv0"][:len(b.iv0)])
    if "ElasticStrain" in ioff:
        o = ioff["ElasticStrain"][0]
        b.iv0[o:o + ss] = g0[:ss]
    eoff = lib.offsets(h, "ExternalStateVariables")
    b.ev0[:], b.ev1[:] = 293.15, 293.15
    code = STAGES[stage] if STAGES[stage] < 100 else 0
    b.ev0[eoff["fault"][0]] = b.ev1[eoff["fault"][0]] = float(code)
    b.rho0[0] = b.rho1[0] = stt["rho"]
    b.se0[0], b.de0[0] = stt["se0"], stt["de0"]
    sent = gb.sentinel([stt["sent"], stt["sent"] * 31 + 7, stt["sent"] * 131 + 3], 40 + gb.KSIZE)
    b.K[:] = sent[40:40 + gb.KSIZE]
    b.K[0] = float(base) + (100.0 if flag else 0.0)
    if finite:
        b.K[1], b.K[2] = k1, k2
    b.rdt[0] = 1.0
    b.sos[0] = sent[5]
    b.tf1[:] = sent[6:6 + len(b.tf1)]
    b.iv1[:] = sent[20:20 + len(b.iv1)]
    b.se1[0], b.de1[0] = sent[38], sent[39]
    before = {"thermodynamic_forces": gb.bits(b.tf1), "internal_state_variables": gb.bits(b.iv1),
              "stored_energy": gb.bits(b.se1), "dissipated_energy": gb.bits(b.de1)}
    r = gb.call(lib, h, b, dt=stt["dt"], policy=policy)
    after = {"thermodynamic_forces": gb.bits(b.tf1), "internal_state_variables": gb.bits(b.iv1),
             "stored_energy": gb.bits(b.se1), "dissipated_energy": gb.bits(b.de1)}
    ctx = "%s(%s) %s stage=%s K[0:3]=%r policy=%s ret=%d msg=%r" % (
        p["name"], kind, h, stage, [float(base) + (100.0 if flag else 0.0), k1, k2], policy, r, b.message()[:100])
    if r not in (-1, 0, 1):
        return Result(False, "C40.return.range", "return value outside {-1,0,1}: " + ctx)
    hit = reached(kind, stage, pred, want_op, flag)
    if hit and r != -1:
        return Result(False, "C40.fault.return." + stage, "the injected failure did not produce -1: " + ctx)
    if r == -1:
        changed = [k for k in before if before[k] != after[k]]
        if changed:
            inside = stage not in ("invalid_stress_measure", "invalid_tangent_operator")
            if stage in LATE:
                key = "C40.exception_after_export"
            elif finite and inside and changed == ["thermodynamic_forces"]:
                key = "C40.finite_strain_wrapper.failure_overwrites_stress"
            else:
                key = "C40.state_untouched." + stage
            return Result(False, key, "%s modified by a call that returned -1: %s" % (", ".join(changed), ctx))
        if not hit:
            return Result(False, "C40.harness.unexpected_failure", "failure without injected fault: " + ctx)
        return Result(True, nontrivial=stage in MODIFIED, classes=classes + ["failed"])
    # success (no fault reached)
    if not pred:
        same = [k for k in before if before[k] == after[k]]
        # (return 0 through a finite strain wrapper skips the stress export: same `if (r)` as the known finding;
        #  only tolerated while that finding is listed as known)
        if same and not (finite and r == 0 and "C40.finite_strain_wrapper.failure_overwrites_stress" in KNOWN):
            return Result(False, "C40.harness.success_overwrites", "successful integration left %s at the sentinel: %s" % (", ".join(same), ctx))
    return Result(True, nontrivial=False, classes=classes + ["succeeded"])


# ------------------------------------------------------------------ cases
def fl(lo, hi):
    return st.floats(min_value=lo, max_value=hi, allow_nan=False, allow_infinity=False, width=64)


STATE = st.fixed_dictionaries({
    "young": fl(1.0, 200.0), "rho": fl(0.5, 20.0), "dt": fl(1e-2, 10.0),
    "g0": st.lists(fl(-1.0, 1.0), min_size=9, max_size=9), "g1": st.lists(fl(-1.0, 1.0), min_size=9, max_size=9),
    "tf0": st.lists(fl(-10.0, 10.0), min_size=9, max_size=9), "iv0": st.lists(fl(-2.0, 2.0), min_size=16, max_size=16),
    "se0": fl(-5.0, 5.0), "de0": fl(0.0, 5.0), "oobd": fl(0.5, 50.0), "oobhi": st.booleans(),
    "bad": st.one_of(st.sampled_from([2.5, 3.0, 7.0, 1e6]), fl(2.5, 100.0)), "sent": st.integers(1, 2 ** 40)})


def random_state(r):
    u = lambda lo, hi: r.uniform(lo, hi)
    return {"young": u(1, 200), "rho": u(0.5, 20), "dt": u(1e-2, 10), "g0": [u(-1, 1) for _ in range(9)],
            "g1": [u(-1, 1) for _ in range(9)], "tf0": [u(-10, 10) for _ in range(9)], "iv0": [u(-2, 2) for _ in range(16)],
            "se0": u(-5, 5), "de0": u(0, 5), "oobd": u(0.5, 50), "oobhi": r.random() < 0.5,
            "bad": r.choice([2.5, 3.0, 7.0, 1e6]), "sent": r.randint(1, 2 ** 40)}


def k12(kind, stage, base):
    return st.tuples(st.sampled_from([0.0, 1.0, 2.0]), st.sampled_from([0.0, 1.0, 2.0, 3.0]))


def strategy(programs):
    def mk(pi, hi, si, k0, flag, k1, k2, pol, s):
        p = programs[pi]
        stages = stages_of(p)
        stage = stages[si % len(stages)]
        if stage == "invalid_tangent_operator" and k0 == 0:
            k0 = 4  # K[2] is only decoded when an operator is requested
        return {"prog": p, "hyp": p["hyps"][hi], "stage": stage, "k0": k0, "flag": flag, "k1": k1, "k2": k2,
                "policy": pol, "st": s}
    return st.builds(mk, st.integers(0, len(programs) - 1), st.integers(0, 1), st.integers(0, 63),
                     st.sampled_from([0, 0, 1, 2, 3, 4, 4, -1, -2, -3]), st.booleans(),
                     st.sampled_from([0.0, 1.0, 2.0]), st.sampled_from([0.0, 1.0, 2.0, 3.0]),
                     st.sampled_from(["None", "Warning", "Strict"]), STATE)


def enumeration(programs):
    r = random.Random(SEED)
    out = []
    for p in programs:
        for h in p["hyps"]:
            for stage in stages_of(p):
                for k0, flag in ((0, False), (4, False), (4, True), (-1, False)):
                    if stage == "invalid_tangent_operator" and k0 == 0:
                        continue
                    out.append({"prog": p, "hyp": h, "stage": stage, "k0": k0, "flag": flag,
                                "k1": r.choice([0.0, 1.0, 2.0]), "k2": r.choice([0.0, 1.0, 2.0, 3.0]),
                                "policy": r.choice(["None", "Strict"]), "st": random_state(r)})
    return out


def main():
    replay_main({"enumeration": check_case, "random": check_case})
    u = Unit("C40_faults")
    nprog = int(param("programs", 6))
    programs = [gen_program(SEED, i) for i in range(nprog)]
    built = parallel_map(lambda p: gb.build(p), programs, jobs=min(JOBS, nprog))
    good = []
    for p, (lib, err) in zip(programs, built):
        if lib is None:
            u.fail("enumeration", "C40.harness.build", "generated program does not build: " + err, {"prog": p})
        else:
            good.append(p)
    u.extra["programs"] = len(good)
    if good:
        seen_keys = set()
        cases = enumeration(good)
        reached_fail = set()
        for c in cases:
            res = check_case(c)
            if res.ok:
                u.case("enumeration", c, res.nontrivial, res.classes, res.errs,
                       sample={k: v for k, v in c.items() if k != "prog"} | {"prog": c["prog"]["name"]})
                if "failed" in res.classes:
                    reached_fail.add((c["prog"]["kind"], c["stage"]))
            elif u.is_known(res.key) or res.key not in seen_keys:
                seen_keys.add(res.key)
                u.fail("enumeration", res.key, res.msg, c)
        u.top["exhaustive"] = {"what": "fault stages x programs x hypotheses x {K[0]=0,4,104,-1}", "cases": len(cases),
                               "kind_stage_pairs_failing_cleanly": len(reached_fail)}
        run_hypothesis(u, "random", strategy(good), check_case, max_examples=int(param("cases", 2000)))
    sys.exit(u.finish())


if __name__ == "__main__":
    main()
