#!/usr/bin/env python3-vt
"""C39 - the generic behaviour entry point honours its calling convention.

Generated programs: small behaviours (Default / Implicit DSL, small strain, and
Default DSL + `@StrainMeasure GreenLagrange` called with K[1]=K[2]=1 so that the
dual quantities go through the wrapper unchanged) whose operator kinds are
distinguishable by construction: the `@PredictionOperator` / `@TangentOperator`
blocks return a different generated constant times `Stensor4::Id()` for every
`smt` branch.  The a-priori / a-posteriori time step factors, the bounded
variables and the speed of sound depend on material properties so that every
call chooses them.

One case = (program, hypothesis, state, one K[0] request); the request is
executed under the three out-of-bounds policies.  Oracle: the comment of
BehaviourData.h (the documentation of the calling convention), see check_case.

K[0] values: integer codes -3..4, optionally +100, with a jitter of at most
0.2 (0..0.2 for code 0; code 4 up to Ke=49 and code -3 down to Ke=-48: "greater
than 3.5" / "lower than -2.5"; "if Ke is negative only the prediction operator is
computed" and "[-0.5:0.5]: integration" contradict each other on [-0.5,0[, and
the interval end points are inconsistent: those zones are sampled, counted in
the class `unjudged.zone` and only required not to crash).
The header's "[2.5:3.5]: secant" line is read as the obvious typo for tangent
(which is what the property statement lists).
"""
import math
import random
import sys

import numpy as np
from hypothesis import strategies as st

from verifpy import (Unit, Result, Reject, run_hypothesis, replay_main, replay_requested, SEED, TIER, JOBS, param,
                     parallel_map)
import gb_iface as gb

ALL_HYPS = ["Tridimensional", "PlaneStrain", "Axisymmetrical", "GeneralisedPlaneStrain", "PlaneStress",
            "AxisymmetricalGeneralisedPlaneStrain"]
KINDS = ["ELASTIC", "SECANTOPERATOR", "TANGENTOPERATOR", "CONSISTENTTANGENTOPERATOR"]


# ------------------------------------------------------------------ programs
def smt_block(var, consts, n):
    s = []
    for i in range(n):
        s.append("%sif(smt==%s){\n    %s = %r*Stensor4::Id();\n  }" % ("" if i == 0 else " else ", KINDS[i], var, consts[i]))
    return "  " + "".join(s) + " else {\n    return false;\n  }\n"


def render(p):
    """the .mfront text of a program description"""
    L = []
    L.append("@DSL %s;" % p["dsl"])
    L.append("@Behaviour %s;" % p["name"])
    L.append("@ModellingHypotheses {%s};" % ", ".join(p["hyps"]))
    if p["gl"]:
        L.append("@StrainMeasure GreenLagrange;")
    if p["dsl"] == "Implicit":
        L.append("@Epsilon 1.e-14;\n@Theta 1;")
    L.append("@MaterialProperty stress young;")
    L.append("@MaterialProperty real fprio;\n@MaterialProperty real fpost;\n@MaterialProperty real mb;")
    L.append("@Bounds mb in [%r:%r];" % tuple(p["mb_bounds"]))
    L.append("@StateVariable real a;\n@Bounds a in [%r:%r];" % tuple(p["a_bounds"]))
    L.append("@AuxiliaryStateVariable real b;")
    L.append("@ExternalStateVariable real ev;\n@Bounds ev in [%r:%r];" % tuple(p["ev_bounds"]))
    L.append("@MinimalTimeStepScalingFactor %r;\n@MaximalTimeStepScalingFactor %r;" % (p["tmin"], p["tmax"]))
    if p["has_pred"]:
        L.append("@PredictionOperator{\n" + smt_block("Dt", p["kpred"], 3) + "}")
    if p["dsl"] == "Implicit":
        L.append("@ComputeStress{\n  sig = (%r*young)*eel;\n}" % p["cs"])
        L.append("@Integrator{\n  feel -= deto;\n  fa -= %r;\n}" % p["ca"])
    else:
        L.append("@Integrator{\n  sig = (%r*young)*(eto+deto);\n  da = %r;\n}" % (p["cs"], p["ca"]))
    L.append("@UpdateAuxiliaryStateVariables{\n  b = %r*a;\n}" % p["cb"])
    if p["has_tang"]:
        L.append("@TangentOperator{\n" + smt_block("Dt", p["ktang"], 4) + "}")
    if p["has_prio"]:
        L.append("@APrioriTimeStepScalingFactor{\n  return {fprio > 0, std::abs(fprio)};\n}")
    if p["has_post"]:
        L.append("@APosterioriTimeStepScalingFactor{\n  return {fpost > 0, std::abs(fpost)};\n}")
    if p["has_energy"]:
        L.append("@InternalEnergy{\n  Psi_s = %r*trace(sig);\n}" % p["ce"])
        L.append("@DissipatedEnergy{\n  Psi_d += %r;\n}" % p["cd"])
    if p["has_sos"]:
        L.append("@SpeedOfSound{\n  v_sound = %r*sqrt(young/rho_m0);\n}" % p["csos"])
    return "\n".join(L) + "\n"


def gen_program(seed, idx):
    r = random.Random(seed * 7919 + idx)
    dsl = ["Default", "Implicit", "Default"][idx % 3]
    gl = (idx % 4 == 3) and dsl == "Default"
    # every program gets two hypotheses; the first ones make sure each hypothesis appears
    h1 = ALL_HYPS[idx % len(ALL_HYPS)]
    h2 = r.choice([h for h in ALL_HYPS if h != h1])
    hyps = [h1, h2]
    if gl or dsl == "Implicit":
        # plane stress needs an axial strain state variable there: left out
        hyps = [h if h != "PlaneStress" else "Tridimensional" for h in hyps]
        if hyps[0] == hyps[1]:
            hyps[1] = "PlaneStrain"

    def consts(n):
        out = set()
        while len(out) < n:
            out.add(float(r.randint(2, 4000)) / 8.0)
        out = list(out)
        r.shuffle(out)
        return out
    k = consts(7)
    lo = float(r.randint(-20, 5))
    p = {"name": "C39s%dp%d" % (seed % 100000, idx), "dsl": dsl, "gl": gl, "hyps": hyps,
         "kpred": k[:3], "ktang": k[3:],
         "mb_bounds": [lo, lo + r.randint(2, 30)],
         "a_bounds": [-float(r.randint(50, 100)), float(r.randint(50, 100))],
         "ev_bounds": [float(r.randint(100, 300)), float(r.randint(400, 900))],
         "tmin": r.choice([0.1, 0.25, 0.5, float(r.randint(5, 60)) / 100]),
         "tmax": r.choice([1.0625, 1.5, 2.0, 10.0, float(r.randint(101, 400)) / 100]),
         "cs": float(r.randint(1, 40)) / 4, "ca": float(r.randint(1, 16)) / 8, "cb": float(r.randint(2, 9)),
         "ce": float(r.randint(1, 9)) / 2, "cd": float(r.randint(1, 9)), "csos": float(r.randint(1, 9)) / 2,
         # a behaviour lacking a block must answer -1 to the corresponding request
         "has_pred": idx % 5 != 4, "has_tang": idx % 7 != 5, "has_sos": True,
         "has_prio": idx % 3 != 2, "has_post": idx % 4 != 1, "has_energy": idx % 2 == 0}
    p["src"] = render(p)
    return p


# ------------------------------------------------------------------ reference
def green_lagrange(F, hyp):
    n, ss, ts = gb.HYP[hyp]
    M = np.zeros((3, 3))
    M[0, 0], M[1, 1], M[2, 2] = F[0], F[1], F[2]
    if ts >= 5:
        M[0, 1], M[1, 0] = F[3], F[4]
    if ts == 9:
        M[0, 2], M[2, 0], M[1, 2], M[2, 1] = F[5], F[6], F[7], F[8]
    E = 0.5 * (M.T @ M - np.eye(3))
    s2 = math.sqrt(2.0)
    v = [E[0, 0], E[1, 1], E[2, 2], s2 * E[0, 1], s2 * E[0, 2], s2 * E[1, 2]]
    return np.array(v[:ss])


def clamp(x, lo, hi):
    return min(max(x, lo), hi)


def close(a, b, tol):
    a, b = np.asarray(a, dtype=float), np.asarray(b, dtype=float)
    if not (np.all(np.isfinite(a)) and np.all(np.isfinite(b))):
        return False, float("inf")
    e = float(np.max(np.abs(a - b))) if a.size else 0.0
    return e <= tol, e


def decode(base, flag):
    kind = {-3: "TANGENTOPERATOR", -2: "SECANTOPERATOR", -1: "ELASTIC", 0: None, 1: "ELASTIC",
            2: "SECANTOPERATOR", 3: "TANGENTOPERATOR", 4: "CONSISTENTTANGENTOPERATOR"}[base]
    return base < 0, kind


def check_case(case):
    p = case["prog"]
    lib, err = gb.build(p)
    if lib is None:
        return Result(False, "C39.harness.build", "program does not build: " + err)
    h = case["hyp"]
    n, ss, ts = gb.HYP[h]
    stt, rq = case["st"], case["req"]
    base, flag, zone = rq["base"], rq["flag"], rq.get("zone")
    k0 = (float(base) + rq["jit"] if zone is None else float(zone)) + (100.0 if flag else 0.0)
    pred, kind = decode(base, flag)
    m = lib.meta[h]
    gsize = m["Gradients"]["size"]
    off = lib.offsets(h, "InternalStateVariables")
    ivn = m["InternalStateVariables"]["size"]
    classes = ["dsl." + p["dsl"] + (".gl" if p["gl"] else ""), "hyp." + h, "code.%d%s" % (base, "+100" if flag else "")]
    # ---- inputs
    if p["gl"]:
        g0 = np.array(stt["g0"][:ts]) * 0.1
        g1 = np.array(stt["g1"][:ts]) * 0.1
        g0[:3] += 1.0
        g1[:3] += 1.0
        e0, e1 = green_lagrange(g0, h), green_lagrange(g1, h)
    else:
        g0, g1 = np.array(stt["g0"][:ss]), np.array(stt["g1"][:ss])
        e0, e1 = g0, g1
    oob, side = stt["oob"]
    vals = {"mb": 0.5 * (p["mb_bounds"][0] + p["mb_bounds"][1]), "a": stt["a0"],
            "ev": 0.5 * (p["ev_bounds"][0] + p["ev_bounds"][1])}
    if oob != "none":
        bnd = p[oob + "_bounds"]
        vals[oob] = bnd[0] - stt["oobd"] if side == "lo" else bnd[1] + stt["oobd"]
        classes.append("oob." + oob + "." + side)
    mpn = m["MaterialProperties"]["names"]
    mpv = {"young": stt["young"], "fprio": stt["fprio"], "fpost": stt["fpost"], "mb": vals["mb"]}
    sent = gb.sentinel([stt["sent"], stt["sent"] * 31 + 7, stt["sent"] * 131 + 3], 40 + gb.KSIZE)
    outs = {}
    errs = {}
    for pol in ("None", "Warning", "Strict"):
        b = gb.Buffers(lib, h)
        b.g0[:gsize], b.g1[:gsize] = g0, g1
        b.tf0[:] = 0.0
        b.mp[:] = [mpv[x] for x in mpn]
        b.iv0[:] = 0.0
        b.iv0[off["a"][0]] = vals["a"]
        if "ElasticStrain" in off:
            b.iv0[off["ElasticStrain"][0]:off["ElasticStrain"][0] + ss] = e0  # elastic strain consistent with the total strain
        eoff = lib.offsets(h, "ExternalStateVariables")
        b.ev0[:], b.ev1[:] = 293.15, 293.15
        b.ev0[eoff["ev"][0]] = b.ev1[eoff["ev"][0]] = vals["ev"]
        b.rho0[0], b.rho1[0] = stt["rho0"], stt["rho1"]
        b.se0[0], b.de0[0] = stt["se0"], stt["de0"]
        b.K[:] = sent[40:40 + gb.KSIZE]
        b.K[0] = k0
        if p["gl"]:
            b.K[1], b.K[2] = 1.0, 1.0
        b.rdt[0] = stt["rdt_in"]
        b.sos[0] = sent[5]
        b.tf1[:] = sent[6:6 + len(b.tf1)]
        b.iv1[:] = sent[20:20 + len(b.iv1)]
        b.se1[0], b.de1[0] = sent[30], sent[31]
        kin = b.K.copy()
        tfin, ivin = b.tf1.copy(), b.iv1.copy()
        r = gb.call(lib, h, b, dt=stt["dt"], policy=pol)
        outs[pol] = (r, gb.bits(b.K), gb.bits(b.tf1), gb.bits(b.iv1), gb.bits(b.se1), gb.bits(b.de1),
                     gb.bits(b.rdt), gb.bits(b.sos))
        ctx = "%s %s K[0]=%r policy=%s ret=%d msg=%r" % (p["name"], h, k0, pol, r, b.message()[:120])
        if r not in (-1, 0, 1):
            return Result(False, "C39.return.range", "return value outside {-1,0,1}: " + ctx)
        if zone is not None:
            continue  # undocumented zone: only "does not crash, returns a documented code"
        # ---------------- expected failure?
        fail = None
        if pol == "Strict" and oob != "none":
            fail = "bounds"
        elif pred and not p["has_pred"]:
            fail = "no_prediction_operator"
        elif not pred:
            if kind is not None and not p["has_tang"]:
                fail = "no_tangent_operator"
            elif p["has_prio"] and not stt["fprio"] > 0:
                fail = "apriori"
            elif p["has_post"] and not stt["fpost"] > 0:
                fail = "aposteriori"
        if fail is not None:
            classes.append("fail." + fail)
            if r != -1:
                return Result(False, "C39.failure.%s.return" % fail, "expected -1: " + ctx)
            continue
        if r == -1:
            return Result(False, "C39.success.return" + (".prediction" if pred else ""),
                          "unexpected failure: " + ctx)
        unchanged_state = (gb.bits(b.tf1) == gb.bits(tfin) and gb.bits(b.iv1) == gb.bits(ivin)
                           and b.se1[0] == sent[30] and b.de1[0] == sent[31])
        sfx = ".gl" if p["gl"] else ""
        # ---------------- speed of sound
        if flag:
            rho_ok = [stt["rho0"]] if pred else [stt["rho1"]]
            if stt["rho0"] != stt["rho1"]:
                rho_ok = [stt["rho0"], stt["rho1"]]  # which density is meant is not documented: either
            exp = [p["csos"] * math.sqrt(stt["young"] / x) for x in rho_ok]
            if not any(abs(b.sos[0] - e) <= 4e-16 * abs(e) for e in exp):
                if pred and p["gl"]:
                    # the strain measure wrapper sees K[0] > 0.5 and post-processes as after an integration
                    return Result(False, "C39.sos_flag.strain_measure_wrapper", "speed of sound: " + ctx)
                return Result(False, "C39.sos.value" + sfx, "speed of sound %r, expected %r: %s" % (b.sos[0], exp, ctx))
        elif b.sos[0] != sent[5]:
            return Result(False, "C39.sos.untouched" + sfx, "speed_of_sound written without the +100 flag: " + ctx)
        # ---------------- operator
        nK = ss * ss

        def operator_is(c):
            return np.array_equal(b.K[:nK].reshape(ss, ss), c * np.eye(ss))
        if pred:
            cst = p["kpred"][KINDS.index(kind)]
            known_gl = flag and p["gl"]
            if not unchanged_state:
                return Result(False, "C39.sos_flag.strain_measure_wrapper" if known_gl else
                              "C39.prediction.state_untouched" + sfx,
                              "a prediction request modified the output state: " + ctx)
            if not operator_is(cst):
                which = [KINDS[i] for i in range(3) if operator_is(p["kpred"][i])]
                if known_gl:
                    key = "C39.sos_flag.strain_measure_wrapper"
                elif flag and which == ["ELASTIC"] and kind != "ELASTIC":
                    key = "C39.prediction.sos_flag.operator_kind"
                else:
                    key = "C39.prediction.operator" + sfx
                return Result(False, key, "K does not hold the %s prediction operator (%r*Id), found %s, K[0:3]=%r: %s" % (
                    kind, cst, which or "none of the three", b.K[:3].tolist(), ctx))
            if r == 0 and not stt["rdt_in"] < 0.99:
                return Result(False, "C39.prediction.return", "prediction returned 0 although rdt is %r: %s" % (b.rdt[0], ctx))
            continue
        # ---------------- integration: return value against the proposed factor
        fa = clamp(abs(stt["fprio"]), p["tmin"], p["tmax"]) if p["has_prio"] else p["tmax"]
        fb = clamp(abs(stt["fpost"]), p["tmin"], p["tmax"]) if p["has_post"] else p["tmax"]
        rdt_model = min(stt["rdt_in"], fa, fb)
        rdt = float(b.rdt[0])
        if r != (0 if rdt < 0.99 else 1):
            return Result(False, "C39.return.rdt", "return value %d with proposed factor %r: %s" % (r, rdt, ctx))
        if rdt != rdt_model:
            return Result(False, "C39.rdt.model", "rdt=%r, expected min(rdt_in, a-priori, a-posteriori)=%r: %s" % (rdt, rdt_model, ctx))
        if rdt < 1:
            classes.append("rdt.lt1")
        if 0.9 <= rdt < 0.99:
            classes.append("rdt.in[0.9,0.99[")
        # ---------------- integration results
        scale = abs(p["cs"] * stt["young"]) * max(1.0, float(np.max(np.abs(e1))))
        tol = (1e-9 if p["dsl"] == "Implicit" else 1e-13) * scale
        sig = p["cs"] * stt["young"] * e1
        ok, e = close(b.tf1[:ss], sig, tol)
        ek = "stress." + p["dsl"] + (".gl" if p["gl"] else "")
        errs[ek] = max(errs.get(ek, 0.0), e / tol)
        if not ok:
            if p["gl"] and r == 0 and gb.bits(b.tf1) == gb.bits(tfin):
                return Result(False, "C39.return0.strain_measure_wrapper.stress_not_exported",
                              "return 0 (success, rdt<0.99) but the stress was not written: " + ctx)
            return Result(False, "C39.integration.stress" + sfx, "stress error %g > %g: %s" % (e, tol, ctx))
        a1 = vals["a"] + p["ca"]
        exp_iv = np.zeros(ivn)
        exp_iv[off["a"][0]] = a1
        exp_iv[off["b"][0]] = p["cb"] * a1
        if "ElasticStrain" in off:
            exp_iv[off["ElasticStrain"][0]:off["ElasticStrain"][0] + ss] = e1
        ok, e = close(b.iv1[:ivn], exp_iv, 1e-9 * max(1.0, float(np.max(np.abs(exp_iv)))))
        errs["isvs." + p["dsl"]] = max(errs.get("isvs." + p["dsl"], 0.0), e / (1e-9 * max(1.0, float(np.max(np.abs(exp_iv))))))
        if not ok:
            return Result(False, "C39.integration.isvs" + sfx, "internal state variables error %g: %s" % (e, ctx))
        if p["has_energy"]:
            ese = p["ce"] * float(np.sum(sig[:3]))
            if abs(b.se1[0] - ese) > 10 * tol * abs(p["ce"]) or b.de1[0] != stt["de0"] + p["cd"]:
                return Result(False, "C39.integration.energies" + sfx, "energies (%r,%r) expected (%r,%r): %s" % (
                    b.se1[0], b.de1[0], ese, stt["de0"] + p["cd"], ctx))
        if kind is None:
            if gb.bits(b.K[1:]) != gb.bits(kin[1:]):
                if p["gl"] and flag:
                    # same root cause: the wrapper tests the raw K[0] (100 > 0.5) and converts an operator nobody computed
                    return Result(False, "C39.sos_flag.strain_measure_wrapper", "K[1:] overwritten although no operator was requested: " + ctx)
                return Result(False, "C39.integration.no_operator_requested" + sfx, "K[1:] modified although no operator was requested: " + ctx)
        else:
            cst = p["ktang"][KINDS.index(kind)]
            if not operator_is(cst):
                which = [KINDS[i] for i in range(4) if operator_is(p["ktang"][i])]
                if p["gl"] and r == 0 and gb.bits(b.K[1:nK]) == gb.bits(kin[1:nK]):
                    return Result(False, "C39.return0.strain_measure_wrapper.stress_not_exported",
                                  "return 0 (success, rdt<0.99) but the operator was not written: " + ctx)
                return Result(False, "C39.integration.operator" + sfx, "K does not hold the %s operator (%r*Id), found %s, K[0:3]=%r: %s" % (
                    kind, cst, which or "none", b.K[:3].tolist(), ctx))
    if outs["None"] != outs["Warning"]:
        return Result(False, "C39.policy.warning_equals_none", "results under Warning differ from None: %s %s K[0]=%r" % (p["name"], h, k0))
    if oob == "none" and outs["None"] != outs["Strict"]:
        return Result(False, "C39.policy.strict_in_bounds", "in bounds, results under Strict differ from None: %s %s K[0]=%r" % (p["name"], h, k0))
    if zone is not None:
        return Result(True, classes=["unjudged.zone"])
    rdt_lt1 = "rdt.lt1" in classes
    return Result(True, nontrivial=bool(flag or pred or rdt_lt1), classes=sorted(set(classes)), errs=errs)


# ------------------------------------------------------------------ strategy
def fl(lo, hi):
    return st.floats(min_value=lo, max_value=hi, allow_nan=False, allow_infinity=False, width=64)


FACT = st.one_of(st.sampled_from([0.99, 0.98999999999999999, 0.9900000000000001, 0.98, 0.95, 0.9, 0.9899, 1.0, 1.2, 0.5, 3.0]),
                 fl(0.85, 1.1), fl(0.02, 5.0))
SFACT = st.one_of(FACT, FACT, FACT, FACT, FACT.map(lambda x: -x), st.just(0.0))
ZONES = st.one_of(fl(-0.5, -0.2000001), fl(0.2000001, 0.7999999), fl(-2.7999, -2.2001), fl(-1.7999, -1.2001),
                  fl(1.2001, 1.7999), fl(2.2001, 2.7999), fl(3.2001, 3.7999),
                  st.sampled_from([-2.5, -1.5, -0.5, -0.25, 0.5, 1.5, 2.5, 3.5]))


def strategy(programs):
    def req(base):
        jit = st.one_of(st.just(0.0), fl(0.0, 0.2) if base == 0 else fl(-0.2, 0.2))
        if base == 4:    # "if Ke is greater than 3.5": consistent tangent operator (K[0] <= 50 without the flag)
            jit = st.one_of(jit, fl(-0.2, 45.0))
        if base == -3:   # "if Ke is lower than -2.5": tangent prediction operator
            jit = st.one_of(jit, fl(-45.0, 0.2))
        return st.fixed_dictionaries({"base": st.just(base), "jit": jit, "flag": st.booleans()})
    reqs = st.one_of(st.integers(-3, 4).flatmap(req), st.integers(-3, 4).flatmap(req), st.integers(-3, 4).flatmap(req),
                     st.integers(-3, 4).flatmap(req),
                     st.fixed_dictionaries({"base": st.just(0), "jit": st.just(0.0), "flag": st.booleans(), "zone": ZONES}))
    state = st.fixed_dictionaries({
        "young": fl(1.0, 200.0), "fprio": SFACT, "fpost": SFACT,
        "rdt_in": st.one_of(st.just(1.0), st.just(1.0), fl(0.5, 2.0), FACT),
        "rho0": fl(0.5, 20.0), "rho1": fl(0.5, 20.0), "same_rho": st.integers(0, 3),
        "g0": st.lists(fl(-1.0, 1.0), min_size=9, max_size=9), "g1": st.lists(fl(-1.0, 1.0), min_size=9, max_size=9),
        "a0": fl(-10.0, 10.0), "se0": fl(-5.0, 5.0), "de0": fl(0.0, 5.0), "dt": fl(1e-3, 10.0),
        "oob": st.one_of(st.just(["none", "lo"]), st.just(["none", "lo"]),
                         st.tuples(st.sampled_from(["mb", "a", "ev"]), st.sampled_from(["lo", "hi"])).map(list)),
        "oobd": fl(0.5, 50.0), "sent": st.integers(1, 2 ** 40)})

    def fix(s):
        if s["same_rho"] != 0:
            s = dict(s, rho1=s["rho0"])
        return s
    return st.builds(lambda pi, hi, rq, s: {"prog": programs[pi], "hyp": programs[pi]["hyps"][hi], "req": rq, "st": fix(s)},
                     st.integers(0, len(programs) - 1), st.integers(0, 1), reqs, state)


def main():
    replay_main({"calls": check_case})
    u = Unit("C39_calls")
    nprog = int(param("programs", 10))
    programs = [gen_program(SEED, i) for i in range(nprog)]
    built = parallel_map(lambda p: gb.build(p), programs, jobs=min(JOBS, nprog))
    good = []
    for p, (lib, err) in zip(programs, built):
        if lib is None:
            u.fail("calls", "C39.harness.build", "generated program does not build: " + err, {"prog": p})
        else:
            good.append(p)
    u.extra["programs"] = len(good)
    if good:
        run_hypothesis(u, "calls", strategy(good), check_case, max_examples=int(param("cases", 2500)))
    sys.exit(u.finish())


if __name__ == "__main__":
    main()
