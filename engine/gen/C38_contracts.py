#!/usr/bin/env python3-vt
"""C38 - call contracts of generated material properties (status, bounds, errno).

Hypothesis generates material-property programs (matprop_gen.py, mode "c38":
1..4 inputs with a random subset of @Bounds / @PhysicalBounds of kind lower /
upper / two-sided, physical ⊇ standard, optional bounds on the output, bodies
made of total operations (no errno, no overflow for |x| <= 1e12) plus at most
one *event term* on one input: log(x-c), sqrt(x-c) (EDOM + NaN), exp(s(x-c))
(ERANGE + inf, or ERANGE + 0 = finite result with errno set), 1/(x-c) (inf, no
errno), (x-c)/(x-c) (NaN, no errno)).  Every program is probed with argument
vectors on / one ulp around / far from every bound and event threshold, under
the three policies, with errno preset to 0 / EDOM / ERANGE / 12345 and with
right and wrong argument counts.

Truth table (docs/web/generic-material-property-interface.md =
mfront/include/MFront/GenericMaterialProperty/OutputStatus.h, OutOfBoundsPolicy.h):
  wrong nargs                          -> status -5, NaN
  an input outside physical bounds     -> status -1, bounds_status = -rank, NaN   (any policy, checked first)
  an input outside bounds, Strict      -> status -1, bounds_status = -rank, NaN
  an input outside bounds, Warning     -> status  1, bounds_status = +rank, value computed
  policy None                          -> bounds are not checked
  errno set by the body                -> status -3, c_error_number = that errno
  non-finite result                    -> status -4        (errno set and non-finite: -3 or -4 accepted)
  otherwise                            -> status 0, bounds_status 0, the value of the law
  the output counts as rank nargs+1 for its own bounds
  errno is always reset to the value it had before the call
  negative status -> the returned value is NaN
When several arguments are out of bounds any of their ranks is accepted.
C interface: <law>_checkBounds = -rank (physical, first) / +rank / 0.
"""
import errno as _errno
import math
import os
import random
import sys

sys.path.insert(0, os.path.dirname(os.path.abspath(__file__)))
from verifpy import (Unit, Result, Reject, run_hypothesis, replay_main, SEED, TIER, WORK, JOBS, KNOWN, param)
import matprop_gen as MG

ROOT = os.path.join(WORK, "progs")
EDOM, ERANGE = _errno.EDOM, _errno.ERANGE
POLICIES = {0: "None", 1: "Warning", 2: "Strict"}

K_BOUNDS6 = "C38.bounds.gt6digits"              # generic: bound literals truncated to 6 digits
K_CB6 = "C38.checkBounds.gt6digits"             # c: same
K_ERRNO_UPPER = "C38.errno.strict.upper"        # candidate 12
K_RET3 = "C38.retval.minus3_not_nan"
K_RET4 = "C38.retval.minus4_not_nan"


def viol(b, x, bv):
    if not b:
        return False
    k = b["k"]
    return (k in ("lower", "both") and x < bv(b["lo"])) or (k in ("upper", "both") and x > bv(b["hi"]))


def near(b, x, bv, d):
    """the comparison of x with a bound of b could go either way within the error d"""
    if not b or d <= 0.0:
        return False
    k = b["k"]
    return (k in ("lower", "both") and abs(x - bv(b["lo"])) <= d) or (k in ("upper", "both") and abs(x - bv(b["hi"])) <= d)


def expected(P, args, pol, bv, params):
    """what the documentation allows for generic(args, policy): dict with
    acc = set of (status, bounds_status), path, value/tol when a value is due"""
    ins = P.prog["inputs"]
    n = P.nin
    pv = [i + 1 for i in range(n) if viol(ins[i].get("pb"), args[i], bv)]
    sv = [i + 1 for i in range(n) if viol(ins[i].get("b"), args[i], bv)]
    if pv:
        return {"path": "physical", "acc": {(-1, -r) for r in pv}, "nan": True}
    if sv and pol == 2:
        return {"path": "strict", "acc": {(-1, -r) for r in sv}, "nan": True}
    ev = MG.Evaluator(P, args, params)
    v, d = ev.run()
    tol = MG.TOLK * max(d, 4.0 * MG.ulp(v)) + 1e-300 if v == v else 0.0
    ob, opb = P.prog.get("ob"), P.prog.get("opb")
    if ev.uncertain or d == math.inf or near(ob, v, bv, d) or near(opb, v, bv, d):
        return {"path": "uncertain"}
    W = set(sv) if pol == 1 else set()
    finite = math.isfinite(v)
    opv = viol(opb, v, bv)
    osv = viol(ob, v, bv) and pol != 0
    e = {"value": v, "tol": tol, "events": list(ev.events), "body": True, "opv": opv, "osv": osv}
    if not ev.events and finite:
        if opv:
            e.update(path="physical.output", acc={(-1, -(n + 1))}, nan=True)
        elif osv and pol == 2:
            e.update(path="strict.output", acc={(-1, -(n + 1))}, nan=True)
        else:
            wall = W | ({n + 1} if osv else set())
            if wall:
                e.update(path="warning", acc={(1, r) for r in wall}, nan=False)
            else:
                e.update(path="ok", acc={(0, 0)}, nan=False)
        return e
    bs = (W | ({n + 1} if (osv and pol == 1) else set())) or {0}
    if ev.events and finite:
        sts, path = {-3}, "event.errno_finite"
    elif ev.events:
        sts, path = {-3, -4}, "event.errno_nonfinite"
    else:
        sts, path = {-4}, "event.nonfinite"
    acc = {(s, b) for s in sts for b in bs}
    if opv or (osv and pol == 2):
        acc.add((-1, -(n + 1)))
    e.update(path=path, acc=acc, nan=True)
    return e


def bound_kind(P, rank):
    """kind of the standard bounds of the variable of this rank (inputs 1..n, output n+1)"""
    b = P.prog["inputs"][rank - 1].get("b") if rank <= P.nin else P.prog.get("ob")
    return b["k"] if b else "none"


def input_points(P, i, rng):
    """special values of input i: on / 1 ulp around / far from every bound and event threshold"""
    inp = P.prog["inputs"][i]
    cuts = []
    for b in (inp.get("b"), inp.get("pb")):
        if b:
            if b["k"] in ("lower", "both"):
                cuts.append(MG.fl(b["lo"]))
            if b["k"] in ("upper", "both"):
                cuts.append(MG.fl(b["hi"]))
    # identity-like bodies: the bounds of the output are reachable through this input
    if P.res[0] == "in" and P.res[1] == i and not P.temps:
        for b in (P.prog.get("ob"), P.prog.get("opb")):
            if b:
                cuts += [MG.fl(b["lo"]), MG.fl(b["hi"])]
    ev = P.event
    extra = []
    if ev and ev["in"] == i:
        c = MG.fl(ev["c"])
        cuts.append(c)
        if ev["type"] == "exp":
            s = MG.fl(ev["s"])
            extra += [c + 720.0 / s, c - 800.0 / s, c + 100.0 / s, c - 100.0 / s, c + 1500.0 / s, c - 1500.0 / s]
        else:
            extra += [c + 1.0, c - 1.0, c + 1e3, c - 1e3]
    pts = []
    for q in cuts:
        pts += [q, math.nextafter(q, math.inf), math.nextafter(q, -math.inf)]
    lo, hi = (min(cuts), max(cuts)) if cuts else (0.0, 1.0)
    far = [lo - (10.0 * abs(lo) + 1e3), hi + (10.0 * abs(hi) + 1e3), -1e9, 1e9, 0.0]
    pts += extra + far
    # an interior point: inside the standard bounds when there are some
    b = inp.get("b") or inp.get("pb")
    if b and b["k"] == "both":
        inner = 0.5 * (MG.fl(b["lo"]) + MG.fl(b["hi"]))
    elif b and b["k"] == "lower":
        inner = MG.fl(b["lo"]) + 1.0 + abs(MG.fl(b["lo"]))
    elif b and b["k"] == "upper":
        inner = MG.fl(b["hi"]) - 1.0 - abs(MG.fl(b["hi"]))
    else:
        inner = 1.25
    if inp.get("b") and inp.get("pb"):
        # between the physical and the standard bound (bounds violated, physical bounds respected)
        sb, pb = inp["b"], inp["pb"]
        if sb["k"] in ("lower", "both") and pb["k"] in ("lower", "both"):
            pts.append(0.5 * (MG.fl(sb["lo"]) + MG.fl(pb["lo"])))
        if sb["k"] in ("upper", "both") and pb["k"] in ("upper", "both"):
            pts.append(0.5 * (MG.fl(sb["hi"]) + MG.fl(pb["hi"])))
    return pts, inner


def make_calls(P, rng, nvec):
    n = P.nin
    pts = [input_points(P, i, rng) for i in range(n)]
    vecs = []
    # regular interior vector first, then every special point of every input with the others inside
    vecs.append([pts[i][1] for i in range(n)])
    singles = [(i, q) for i in range(n) for q in pts[i][0]]
    rng.shuffle(singles)
    for i, q in singles[:max(0, nvec * 2 // 3)]:
        v = [pts[k][1] for k in range(n)]
        v[i] = q
        vecs.append(v)
    while len(vecs) < nvec:
        vecs.append([rng.choice(pts[k][0]) if rng.random() < 0.6 else pts[k][1] for k in range(n)])
    calls, meta = [], []
    for v in vecs:
        hv = [MG.hexf(x) for x in v]
        for pol in (0, 1, 2):
            en = rng.choice([0, EDOM, ERANGE, 12345, 12345, EDOM])
            na = n if rng.random() < 0.92 else rng.choice([0, max(0, n - 1), n + 1, n + 3])
            calls.append({"i": "g", "args": hv, "nargs": na, "pol": pol, "errno": en})
            meta.append({"k": "g", "args": v, "nargs": na, "pol": pol, "errno": en})
        calls.append({"i": "ccb", "args": hv})
        meta.append({"k": "ccb", "args": v})
        calls.append({"i": "c", "args": hv, "errno": rng.choice([0, EDOM])})
        meta.append({"k": "c", "args": v})
    return calls, meta


def check_call(P, m, r, params, longb):
    """returns a list of (key, message) for one observed call; [] when it conforms.
    Second element of the result: (path, nontrivial)"""
    fails = []
    args = m["args"]
    desc_args = "(" + ", ".join(repr(x) for x in args) + ")"
    ident = lambda s: MG.fl(s)
    t6 = lambda s: MG.trunc_sig(MG.fl(s), 6)
    ins = P.prog["inputs"]
    if m["k"] == "ccb":
        if r.get("missing"):
            return [], ("ccb.missing", False)
        def exp_cb(bv):
            pv = [i + 1 for i in range(P.nin) if viol(ins[i].get("pb"), args[i], bv)]
            sv = [i + 1 for i in range(P.nin) if viol(ins[i].get("b"), args[i], bv)]
            return {-x for x in pv} if pv else ({x for x in sv} if sv else {0})
        acc = exp_cb(ident)
        if r["r"] not in acc:
            key = "C38.checkBounds"
            if longb and r["r"] in exp_cb(t6):
                key = K_CB6
            fails.append((key, "%s_checkBounds%s returned %d, documented: one of %s" % (P.fname, desc_args, r["r"], sorted(acc))))
        return fails, ("ccb." + ("physical" if min(acc) < 0 else "standard" if max(acc) > 0 else "inside"), False)
    if m["k"] == "c":
        ev = MG.Evaluator(P, args, params)
        v, d = ev.run()
        if ev.events or not math.isfinite(v) or d == math.inf or ev.uncertain:
            return [], ("c.irregular", False)
        opb = P.prog.get("opb")
        if viol(opb, v, ident) or near(opb, v, ident, d) or (longb and (viol(opb, v, t6) or near(opb, v, t6, d))):
            return [], ("c.output_physical", False)
        obs = MG.unhex(r["v"])
        tol = MG.TOLK * max(d, 4.0 * MG.ulp(v)) + 1e-300
        if not (abs(obs - v) <= tol):
            fails.append(("C38.c.value", "c: %s%s = %r, reference %r (tol %.3g)" % (P.fname, desc_args, obs, v, tol)))
        return fails, ("c.value", False)
    # ---- generic interface
    pol, en, na = m["pol"], m["errno"], m["nargs"]
    st, bs, ce, ena = r["st"], r["bs"], r["ce"], r["en"]
    obs = MG.unhex(r["v"])
    call = "%s(args=%s, nargs=%d, policy=%s, errno preset %d) -> value %r status %d bounds_status %d c_error_number %d errno after %d" % (
        P.fname, desc_args, na, POLICIES[pol], en, obs, st, bs, ce, ena)
    if na != P.nin:
        if (st, bs) != (-5, 0):
            fails.append(("C38.status.nargs", call + "; documented: status -5"))
        elif obs == obs:
            fails.append(("C38.retval.nan", call + "; documented: NaN for a negative status"))
        if ena != en:
            fails.append(("C38.errno.nargs", call + "; errno not restored"))
        if not r["mt"]:
            fails.append(("C38.msg", call + "; msg not NUL-terminated within 512 bytes"))
        return fails, ("nargs", en != 0)
    e = expected(P, args, pol, ident, params)
    used = "declared"
    if e["path"] != "uncertain" and (st, bs) not in e["acc"] and longb:
        e6 = expected(P, args, pol, t6, params)
        if e6["path"] != "uncertain" and (st, bs) in e6["acc"]:
            fails.append((K_BOUNDS6, call + "; documented with the declared bounds: one of %s; explained by bounds "
                          "truncated to 6 digits" % sorted(e["acc"])))
            e, used = e6, "truncated"
    if e["path"] == "uncertain":
        return [], ("uncertain", False)
    path = e["path"]
    if (st, bs) not in e["acc"]:
        fails.append(("C38.status." + path, call + "; documented (status, bounds_status): one of %s [%s]" % (
            sorted(e["acc"]), path)))
        return fails, (path, False)
    # returned value
    if st >= 0:
        if not (abs(obs - e["value"]) <= e["tol"]):
            fails.append(("C38.value", call + "; value of the law %r (tol %.3g)" % (e["value"], e["tol"])))
        if ce != 0:
            fails.append(("C38.c_error_number", call + "; c_error_number must be 0"))
    else:
        if obs == obs:
            key = {-3: K_RET3, -4: K_RET4}.get(st, "C38.retval.nan")
            fails.append((key, call + "; documented: the returned value is NaN when the status is negative"))
        if st == -3 and ce not in e.get("events", []):
            fails.append(("C38.c_error_number", call + "; errno set by the body: %s" % e.get("events")))
    # errno restored
    if ena != en:
        if st == -1 and path in ("strict", "strict.output") and 1 <= -bs <= P.nin + 1:
            key = "C38.errno.strict." + bound_kind(P, -bs)
        elif st == -1 and path.startswith("event"):
            # a non-finite result that violates the bounds of the output: same exits as above
            key = "C38.errno.physical.output" if e.get("opv") else "C38.errno.strict." + bound_kind(P, P.nin + 1)
        else:
            key = "C38.errno." + path
        fails.append((key, call + "; errno is not reset to the value it had before the call [%s]" % path))
    if st in (-1, -5, 1, -3) and not r["mt"]:
        fails.append(("C38.msg", call + "; msg not NUL-terminated within 512 bytes"))
    # non-trivial: an argument on or outside a bound (or event threshold) and a non-zero preset errno
    onb = path not in ("ok",) or any(
        b and args[i] in [MG.fl(b["lo"]), MG.fl(b["hi"])] for i in range(P.nin) for b in (ins[i].get("b"), ins[i].get("pb")))
    tag = path
    if path in ("strict", "strict.output") and 1 <= -bs <= P.nin + 1:
        tag = path + "." + bound_kind(P, -bs)
    if path.startswith("event"):
        tag = path + ".st%d" % st
    return fails, (tag + "." + POLICIES[pol], onb and en != 0)


def check_case(case):
    try:
        return _check_case(case)
    except Reject:
        raise
    except Exception:
        import traceback
        MG.note_failure()
        return Result(False, key="C38.harness", msg="harness error:\n" + traceback.format_exc()[-3000:])


def _check_case(case):
    prog = case["prog"]
    try:
        P = MG.Prepared(prog)
    except MG.Reject:
        raise Reject()
    libs, err = MG.build_budgeted(P, ROOT, int(os.environ.get("VERIF_SHRINK_BUILDS", param("shrink_builds", 10))))
    if err:
        MG.note_failure()
        kind = "mfront" if err.startswith("mfront") else "gxx"
        return Result(False, key="C38.build." + kind, msg=err + "\n--- program ---\n" + P.text)
    rng = random.Random(case["probe_seed"])
    fc = case.get("failing_call")
    if fc:
        calls = [fc["call"]]
        meta = [fc["meta"]]
    else:
        calls, meta = make_calls(P, rng, int(param("vectors", 120)))
    res, err = MG.probe(P, libs, calls, os.path.join(ROOT, P.law), "A")
    if err:
        MG.note_failure()
        return Result(False, key="C38.crash", msg=err + "\n--- program ---\n" + P.text)
    params = list(P.par_values)
    longb = prog.get("longcat") == "bounds"
    fails = []
    tags = {}
    nontrivial = 0
    for c, m, r in zip(calls, meta, res):
        f, (tag, nt) = check_call(P, m, r, params, longb)
        tags[tag] = tags.get(tag, 0) + 1
        nontrivial += 1 if nt else 0
        for key, msg in f:
            fails.append((key, msg, {"call": c, "meta": m}))
    classes = ["path." + t for t in sorted(tags)] + ["longcat." + prog.get("longcat", "none"),
                                                       "event." + (P.event["type"] if P.event else "none")]
    nknown = 0
    for key, msg, fcall in [f for f in fails if f[0] in KNOWN]:
        MG.stash_known(key, msg + "\n--- program ---\n" + P.text, dict(case, failing_call=dict(fcall, key=key)))
        nknown += 1
    fails = [f for f in fails if f[0] not in KNOWN]
    if nknown:
        classes.append("excluded_known_calls")
    if fails:
        want = (fc or {}).get("key")  # replay: the recorded finding first
        key, msg, fcall = ([f for f in fails if f[0] == want] or fails)[0]
        fcall = dict(fcall or {}, key=key)
        case["failing_call"] = fcall
        MG.note_failure()
        return Result(False, key=key, msg=msg + "\n--- program ---\n" + P.text)
    return Result(True, nontrivial=nontrivial > 0, classes=classes,
                  sample={"law": P.law, "mfront": P.text, "calls": len(calls), "nontrivial_calls": nontrivial})


def main():
    replay_main({"gen": check_case})
    u = Unit("C38_contracts")
    n = int(param("cases", 36))
    strat = MG.strategies("c38")
    import time
    t0 = time.time()
    cases = MG.collect_cases(strat, n, SEED)
    t1 = time.time()
    MG.prebuild([c["prog"] for c in cases], ROOT, JOBS)
    t2 = time.time()
    run_hypothesis(u, "gen", strat, check_case, max_examples=n)
    MG.flush_known(u, "gen")
    u.note("phases: generate %.0f s, mfront + g++ (parallel, cached) %.0f s, probe + oracle %.0f s" % (
        t1 - t0, t2 - t1, time.time() - t2))
    print(u.notes[-1], flush=True)
    try:
        from verifpy import prune_cache
        prune_cache()
    except Exception:
        pass
    sys.exit(u.finish())


if __name__ == "__main__":
    main()
