"""Shared generator / oracle / prober for the MFront material-property checks
(C37: computed value, C38: call contracts).

A *program* is a JSON-able description of a material property file:

  {"kind": "function" | "data",
   "dsl": 0..2, "material": bool, "useqt": bool, "outname": 0..2,
   "inputs":  [{"dom": "pos|sym|unit|temp|wide", "gloss": bool,
                "b": None | {"k": "lower|upper|both", "lo": lit, "hi": lit},     (@Bounds)
                "pb": None | {...}}],                                             (@PhysicalBounds)
   "ob", "opb": bounds of the output (same format),
   "params":  [{"v": lit, "entry": bool}],  "overrides": [[index, lit], ...],
   "consts":  [lit], "statics": [lit],
   "temps":   [expr, ...], "res": expr, "cond": None | {"in": i, "thr": lit, "else": expr},
   "post":    None | [op, expr]              (op in "+=", "-=", "*=", "/=")
   "event":   None | {"type": "log|exp|sqrt|div|nan", "in": k, "c": lit, "s": lit}   (C38 only)
   "data":    {"x0": lit, "dx": [lit...], "y": [lit...], "interp": ..., "extrap": ...}}

  expr = ["num", lit] | ["in", i] | ["par", i] | ["cst", i] | ["sta", i] | ["tmp", i]
       | [op, a, b]  (add sub mul div pow min max) | ["neg", a] | ["call", fn, a]

`lit` is a decimal string (always with a '.'), so that the mfront file, the
C++ compiler and Python read exactly the same real number.

Pipeline:  normalise (interval propagation, domain repair)  ->  mfront text  ->
mfront --interface=generic,c,c++  ->  3 shared libraries (+ a C wrapper around
the C++ functor)  ->  an out-of-process prober calls them through ctypes  ->
the oracle (`Evaluator`) evaluates the same AST in Python in the same operation
order, with a running rounding-error bound.
"""
import ctypes
import errno as _errno
import fcntl
import json
import math
import os
import random
import struct
import subprocess
import sys
from fractions import Fraction

EDOM, ERANGE = _errno.EDOM, _errno.ERANGE
EPS = 2.0 ** -52
# safety factor on every derived rounding-error bound (the bound itself: 2 ulp per libm call, propagated to
# first order; glibc documents up to 4 ulp for cbrt, and g++ folds libm calls on literals with exact rounding)
TOLK = 4.0
INF = float("inf")
NAN = float("nan")

INPUT_NAMES = ["T", "p", "x", "y", "z", "w"]
INPUT_GLOSS = {"T": "Temperature", "p": "Pressure", "x": None, "y": None, "z": None, "w": None}
DOMAINS = {"pos": (0.125, 1000.0), "sym": (-10.0, 10.0), "unit": (0.0, 1.0), "temp": (250.0, 2500.0),
           "wide": (-1e12, 1e12)}
CALLS1 = ["exp", "log", "sqrt", "tanh", "atan", "sin", "cos", "fabs", "cbrt"]
TOTAL_CALLS1 = ["tanh", "atan", "fabs"]  # no errno, no domain, finite for finite arguments
BINOPS = ["add", "sub", "mul", "div"]


# --------------------------------------------------------------------------- literals
def fl(s):
    return float(s)


def trunc_sig(x, n):
    """value re-read from `os << x` with os.precision(n) (C++ default float format = %g)"""
    if x != x or x in (INF, -INF):
        return x
    return float("%.*g" % (n, x))


def sigdigits(s):
    m = s.lstrip("-").split("e")[0].replace(".", "").lstrip("0").rstrip("0")
    return max(1, len(m))


def nextafter(x, d):
    return math.nextafter(x, d)


def ulp(x):
    x = abs(x)
    if x != x or x == INF:
        return INF
    return math.ulp(x)


def hexf(x):
    return float(x).hex()


def unhex(s):
    return float.fromhex(s)


# --------------------------------------------------------------------------- hypothesis strategies
def strategies(mode):
    """returns the Hypothesis strategy of programs for mode "c37" or "c38" """
    from hypothesis import strategies as st

    @st.composite
    def lit(draw, ndmax=6, emin=-2, emax=3, signed=True):
        nd = draw(st.integers(1, ndmax))
        m = draw(st.integers(10 ** (nd - 1), 10 ** nd - 1))
        e = draw(st.integers(emin, emax))
        neg = signed and draw(st.booleans())
        ms = str(m)
        s = ms[0] + "." + (ms[1:] or "0") + ("e%d" % e if e else "")
        return ("-" if neg else "") + s

    def lit_cat(longcat, cat):
        """literal strategy for a category of declared values; only the category
        named by `longcat` may carry more than 6 significant digits"""
        if longcat == cat:
            return lit(ndmax=12)
        if longcat == cat + "15":
            return lit(ndmax=17)
        return lit(ndmax=6)

    leaf = st.one_of(
        st.tuples(st.just("in"), st.integers(0, 5)),
        st.tuples(st.just("in"), st.integers(0, 5)),
        st.tuples(st.just("par"), st.integers(0, 3)),
        st.tuples(st.just("cst"), st.integers(0, 1)),
        st.tuples(st.just("sta"), st.integers(0, 1)),
        st.tuples(st.just("tmp"), st.integers(0, 2)),
        st.tuples(st.just("num"), lit()),
    )

    def extend(calls):
        def _e(ch):
            return st.one_of(
                st.tuples(st.sampled_from(BINOPS), ch, ch),
                st.tuples(st.sampled_from(BINOPS), ch, ch),
                st.tuples(st.just("neg"), ch),
                st.tuples(st.just("call"), st.sampled_from(calls), ch),
                st.tuples(st.just("pow"), ch, ch) if "exp" in calls else st.tuples(st.just("mul"), ch, ch),
                st.tuples(st.sampled_from(["min", "max"]), ch, ch),
            )
        return _e

    expr37 = st.recursive(leaf, extend(CALLS1), max_leaves=8)
    expr38 = st.recursive(leaf, extend(TOTAL_CALLS1), max_leaves=5)

    @st.composite
    def bounds(draw, longcat):
        """(b, pb) for one variable: physical ⊇ standard, strictly ordered cut points"""
        L = lit_cat(longcat, "bounds")
        q = sorted(set(draw(st.lists(L, min_size=4, max_size=4, unique_by=fl))), key=fl)
        if len(q) < 4:
            return None, None
        # mfront demands: a side bounded physically is also bounded by the standard bounds.
        # (physical upper-only + standard lower bound <= 0 is refused by mfront, see the note in
        # mutants/C38.md: VariableBoundsDescription::lowerBound defaults to the smallest positive number)
        kp = draw(st.sampled_from([None, None, "lower", "upper", "both"]))
        kb = draw(st.sampled_from({None: [None, "lower", "upper", "both", "upper", "both"], "lower": ["lower", "both"],
                                   "upper": ["upper"], "both": ["both"]}[kp]))
        b = {"k": kb, "lo": q[1], "hi": q[2]} if kb else None
        pb = {"k": kp, "lo": q[0], "hi": q[3]} if kp else None
        return b, pb

    @st.composite
    def data(draw, longcat):
        L = lit_cat(longcat, "data")
        n = draw(st.integers(1, 12))
        return {"x0": draw(lit(ndmax=6)), "dx": draw(st.lists(lit(ndmax=3, emin=-1, emax=2, signed=False), min_size=n - 1,
                                                   max_size=n - 1)),
                "y": draw(st.lists(L, min_size=n, max_size=n)),
                "interp": draw(st.sampled_from([None, "linear", "cubic_spline", "cubic_spline"])),
                "extrap": draw(st.sampled_from([None, True, False, "constant", "bound_to_last_value"]))}

    @st.composite
    def program37(draw):
        kind = draw(st.sampled_from(["function"] * 3 + ["data"]))
        p = {"kind": kind, "dsl": draw(st.integers(0, 2)), "material": draw(st.booleans()),
             "useqt": False, "outname": draw(st.integers(0, 2)), "ob": None, "opb": None, "event": None}
        if kind == "data":
            longcat = draw(st.sampled_from(["none"] * 6 + ["data", "data15"]))
            p["longcat"] = longcat
            p["useqt"] = draw(st.booleans())
            nin = draw(st.sampled_from([1, 1, 1, 1, 0]))
            p["inputs"] = [{"dom": "sym", "gloss": draw(st.booleans()), "b": None, "pb": None} for _ in range(nin)]
            p["data"] = draw(data(longcat))
            p["params"], p["overrides"], p["consts"], p["statics"], p["temps"] = [], [], [], [], []
            return p
        longcat = draw(st.sampled_from(["none"] * 8 + ["static", "param", "param15"]))
        p["longcat"] = longcat
        nin = draw(st.integers(0, 6))
        p["inputs"] = [{"dom": draw(st.sampled_from(["pos", "sym", "unit", "temp"])), "gloss": draw(st.booleans()),
                        "b": None, "pb": None} for _ in range(nin)]
        if draw(st.integers(0, 3)) == 0 and nin:
            # standard bounds do not change the value (policy None); exercised lightly here
            p["inputs"][0]["b"] = {"k": "both", "lo": "1.0", "hi": "2.0"}
        p["params"] = [{"v": draw(lit_cat(longcat, "param")), "entry": draw(st.sampled_from([True, True, False]))}
                       for _ in range(draw(st.integers(0, 4)))]
        p["overrides"] = [[i, draw(lit(ndmax=12))] for i in range(len(p["params"])) if draw(st.booleans())]
        p["consts"] = [draw(lit_cat(longcat, "static")) for _ in range(draw(st.integers(0, 2)))]
        p["statics"] = [draw(lit_cat(longcat, "static")) for _ in range(draw(st.integers(0, 2)))]
        p["temps"] = [draw(expr37) for _ in range(draw(st.integers(0, 3)))]
        p["res"] = draw(expr37)
        p["cond"] = None
        if nin and draw(st.integers(0, 2)) == 0:
            p["cond"] = {"in": draw(st.integers(0, nin - 1)), "frac": draw(st.integers(1, 9)), "else": draw(expr37)}
        p["post"] = None
        if draw(st.integers(0, 3)) == 0:
            p["post"] = [draw(st.sampled_from(["+=", "-=", "*=", "/="])), draw(expr37)]
        p["aug"] = True  # every declared parameter / constant / static variable enters the result
        return p

    @st.composite
    def program38(draw):
        longcat = draw(st.sampled_from(["none"] * 7 + ["bounds"]))
        p = {"kind": "function", "dsl": draw(st.integers(0, 2)), "material": draw(st.booleans()), "useqt": False,
             "outname": draw(st.integers(0, 2)), "longcat": longcat}
        nin = draw(st.integers(1, 4))
        ins = []
        for _ in range(nin):
            b, pb = (None, None)
            if draw(st.integers(0, 4)) != 0:
                b, pb = draw(bounds(longcat))
            ins.append({"dom": "wide", "gloss": draw(st.booleans()), "b": b, "pb": pb})
        p["inputs"] = ins
        p["ob"], p["opb"] = draw(bounds(longcat)) if draw(st.integers(0, 2)) == 0 else (None, None)
        p["params"] = [{"v": draw(lit()), "entry": False} for _ in range(draw(st.integers(0, 2)))]
        p["overrides"], p["consts"], p["statics"] = [], [draw(lit())] if draw(st.booleans()) else [], []
        ident = draw(st.integers(0, 2)) == 0
        p["temps"] = [] if ident else [draw(expr38) for _ in range(draw(st.integers(0, 1)))]
        p["res"] = ["in", draw(st.integers(0, nin - 1))] if ident else draw(expr38)
        p["cond"], p["post"] = None, None
        p["event"] = None
        if draw(st.integers(0, 1)) == 0:
            p["event"] = {"type": draw(st.sampled_from(["log", "exp", "exp", "sqrt", "div", "nan"])),
                          "in": draw(st.integers(0, nin - 1)), "c": draw(lit()),
                          "s": draw(st.sampled_from(["1.0", "-1.0", "2.5", "-0.5"]))}
        return p

    prog = program37() if mode == "c37" else program38()
    return st.fixed_dictionaries({"prog": prog, "probe_seed": st.integers(0, 2 ** 31 - 1)})


# --------------------------------------------------------------------------- naming
try:
    from verifpy import Reject
except ImportError:  # prober child started without the protocol layer on its path
    class Reject(Exception):
        pass


def _canon(obj):
    return json.dumps(obj, sort_keys=True, default=str)


class Prepared:
    """a normalised program: names, repaired ASTs, mfront text"""

    def __init__(self, prog):
        import hashlib
        self.prog = prog
        h = hashlib.sha1(_canon(prog).encode()).hexdigest()[:12]
        self.law = "L" + h
        self.material = ("M" + h[:4]) if prog.get("material") else ""
        self.fname = (self.material + "_" + self.law) if self.material else self.law
        self.nin = len(prog["inputs"])
        self.in_names = INPUT_NAMES[:self.nin]
        self.par_names = ["a%d" % i for i in range(len(prog["params"]))]
        self.par_ext = [("Par%d_%s" % (i, h[:3]) if q.get("entry") else "a%d" % i) for i, q in enumerate(prog["params"])]
        self.cst_names = ["c%d" % i for i in range(len(prog["consts"]))]
        self.sta_names = ["s%d" % i for i in range(len(prog["statics"]))]
        self.outname = [None, "E", "k"][prog.get("outname", 0) % 3]  # None: undeclared output -> `res`
        self.out = self.outname or "res"
        self.useqt = bool(prog.get("useqt"))
        self.par_values = [fl(q["v"]) for q in prog["params"]]
        self.cst_values = [fl(v) for v in prog["consts"]]
        self.sta_values = [fl(v) for v in prog["statics"]]
        self.domains = [DOMAINS[i["dom"]] for i in prog["inputs"]]
        if prog["kind"] == "data":
            d = prog["data"]
            xs = [Fraction(d["x0"])]
            for dx in d["dx"]:
                xs.append(xs[-1] + Fraction(dx))
            # abscissae as decimal strings (exact sums of decimal literals); the law that is
            # declared to the compiler is made of the doubles nearest to these decimals
            self.xs_lit = [frac_to_lit(x) for x in xs]
            self.xs_exact = [Fraction(fl(s)) for s in self.xs_lit]
            if any(a >= b for a, b in zip(self.xs_exact, self.xs_exact[1:])):
                raise Reject("abscissae not increasing")
            self._mcache = {}
            if any(sigdigits(s) > 14 for s in self.xs_lit):
                raise Reject("abscissa needs too many digits")
            self.ys_lit = list(d["y"])
            self.interp = d.get("interp")
            self.extrap = d.get("extrap")
        else:
            self._normalise()
        self.text = self._mfront_text()

    # ---- interval propagation and domain repair
    def _leaf_interval(self, e):
        p = self.prog
        t = e[0]
        if t == "num":
            v = fl(e[1])
            return ["num", e[1]], v, v
        if t == "in":
            if not self.nin:
                return ["num", "1.5"], 1.5, 1.5
            i = e[1] % self.nin
            lo, hi = self.domains[i]
            return ["in", i], lo, hi
        if t == "par":
            if not p["params"]:
                return ["num", "0.75"], 0.75, 0.75
            i = e[1] % len(p["params"])
            vals = [self.par_values[i]] + [fl(v) for j, v in p["overrides"] if j == i]
            return ["par", i], min(vals), max(vals)
        if t == "cst":
            if not p["consts"]:
                return ["num", "2.0"], 2.0, 2.0
            i = e[1] % len(p["consts"])
            return ["cst", i], self.cst_values[i], self.cst_values[i]
        if t == "sta":
            if not p["statics"]:
                return ["num", "-0.5"], -0.5, -0.5
            i = e[1] % len(p["statics"])
            return ["sta", i], self.sta_values[i], self.sta_values[i]
        if t == "tmp":
            if not self._tmp_iv:
                return ["num", "3.0"], 3.0, 3.0
            i = e[1] % len(self._tmp_iv)
            return ["tmp", i], self._tmp_iv[i][0], self._tmp_iv[i][1]
        raise ValueError("bad leaf %r" % (e,))

    def _norm(self, e):
        try:
            return self._norm1(e)
        except (OverflowError, ZeroDivisionError):
            raise Reject("interval arithmetic overflow")

    def _norm1(self, e):
        """returns (repaired expr, lo, hi) with [lo,hi] enclosing every value the
        expression can take for inputs in their domains (outward widened)"""
        t = e[0]
        if t in ("num", "in", "par", "cst", "sta", "tmp"):
            r = self._leaf_interval(e)
        elif t == "neg":
            a, l, h = self._norm(e[1])
            r = ["neg", a], -h, -l
        elif t in ("add", "sub", "mul", "div", "min", "max", "pow"):
            a, al, ah = self._norm(e[1])
            b, bl, bh = self._norm(e[2])
            if t == "add":
                r = ["add", a, b], al + bl, ah + bh
            elif t == "sub":
                r = ["sub", a, b], al - bh, ah - bl
            elif t == "mul":
                c = [al * bl, al * bh, ah * bl, ah * bh]
                r = ["mul", a, b], min(c), max(c)
            elif t == "min":
                r = ["min", a, b], min(al, bl), min(ah, bh)
            elif t == "max":
                r = ["max", a, b], max(al, bl), max(ah, bh)
            elif t == "div":
                if bl <= 1e-3 and bh >= -1e-3:  # denominator may come close to zero
                    m = max(abs(bl), abs(bh))
                    b, bl, bh = ["add", ["call", "fabs", b], ["num", "0.5"]], 0.5, m + 0.5
                c = [al / bl, al / bh, ah / bl, ah / bh]
                r = ["div", a, b], min(c), max(c)
            else:  # pow: positive base, exponent within [-3,3]
                if al < 0.1:
                    m = max(abs(al), abs(ah))
                    a, al, ah = ["add", ["call", "fabs", a], ["num", "0.5"]], 0.5, m + 0.5
                if ah > 1e30:  # keep base**3 far from overflow
                    a, ah = ["min", a, ["num", "1.0e30"]], 1e30
                if bl < -3.0 or bh > 3.0:
                    b, bl, bh = ["min", ["max", b, ["num", "-3.0"]], ["num", "3.0"]], max(bl, -3.0), min(bh, 3.0)
                c = [al ** bl, al ** bh, ah ** bl, ah ** bh]
                r = ["pow", a, b], min(c), max(c)
        elif t == "call":
            fn = e[1]
            a, l, h = self._norm(e[2])
            if fn == "exp":
                if l < -40.0 or h > 40.0:
                    a, l, h = ["min", ["max", a, ["num", "-40.0"]], ["num", "40.0"]], max(l, -40.0), min(h, 40.0)
                r = ["call", "exp", a], math.exp(l), math.exp(h)
            elif fn == "log":
                if l < 1e-3:
                    m = max(abs(l), abs(h))
                    a, l, h = ["add", ["call", "fabs", a], ["num", "1.0"]], 1.0, m + 1.0
                r = ["call", "log", a], math.log(l), math.log(h)
            elif fn == "sqrt":
                if l < 0.0:
                    m = max(abs(l), abs(h))
                    a, l, h = ["call", "fabs", a], 0.0, m
                r = ["call", "sqrt", a], math.sqrt(l), math.sqrt(h)
            elif fn == "fabs":
                m = max(abs(l), abs(h))
                r = ["call", "fabs", a], (0.0 if l <= 0.0 <= h else min(abs(l), abs(h))), m
            elif fn == "cbrt":
                r = ["call", "cbrt", a], math.cbrt(l), math.cbrt(h)
            elif fn == "tanh":
                r = ["call", "tanh", a], -1.0, 1.0
            elif fn == "atan":
                r = ["call", "atan", a], -1.6, 1.6
            elif fn in ("sin", "cos"):
                r = ["call", fn, a], -1.0, 1.0
            else:
                raise ValueError("bad call %r" % (fn,))
        else:
            raise ValueError("bad node %r" % (e,))
        ex, lo, hi = r
        w = 1e-9 * max(abs(lo), abs(hi)) + 1e-300
        lo, hi = lo - w, hi + w
        if max(abs(lo), abs(hi)) > 1e100:  # keep every intermediate far from overflow
            return ["call", "tanh", ex], -1.0, 1.0
        return ex, lo, hi

    def _normalise(self):
        p = self.prog
        self._tmp_iv = []
        self.temps = []
        for e in p["temps"]:
            ex, lo, hi = self._norm(e)
            self.temps.append(ex)
            self._tmp_iv.append((lo, hi))
        self.tmp_names = ["t%d" % i for i in range(len(self.temps))]
        self.res, rl, rh = self._norm(p["res"])
        self.cond = None
        if p.get("cond") and self.nin:
            c = p["cond"]
            i = c["in"] % self.nin
            lo, hi = self.domains[i]
            thr = lo + (hi - lo) * (c["frac"] % 10) / 10.0
            ex, el, eh = self._norm(c["else"])
            self.cond = {"in": i, "thr": lit_from_float6(thr), "else": ex}
            rl, rh = min(rl, el), max(rh, eh)
        self.post = None
        if p.get("post"):
            op, e = p["post"]
            ex, lo, hi = self._norm(e)
            if op == "/=" and lo <= 1e-3 and hi >= -1e-3:
                ex = ["add", ["call", "fabs", ex], ["num", "0.5"]]
            self.post = [op, ex]
        self.aug = None
        if p.get("aug"):
            # `out += a0 * T + a1 * p + c0 * x ...`: no declared value is dead code, so that defaults,
            # overrides and emitted literals always reach the returned value
            terms = []
            k = 0
            for kind, n in (("par", len(p["params"])), ("cst", len(p["consts"])), ("sta", len(p["statics"]))):
                for i in range(n):
                    leaf = ["in", k % self.nin] if self.nin else ["num", "1.5"]
                    terms.append(["mul", [kind, i], leaf])
                    k += 1
            if terms:
                e = terms[0]
                for t in terms[1:]:
                    e = ["add", e, t]
                self.aug = self._norm(e)[0]
        self.event = None
        ev = p.get("event")
        if ev:
            self.event = {"type": ev["type"], "in": ev["in"] % self.nin, "c": ev["c"], "s": ev["s"]}

    def has_libm(self):
        """true when the emitted body calls libm functions whose results are not correctly rounded: the
        compiler may evaluate them itself (exact rounding) where their arguments are compile-time constants,
        which depends on the interface (constexpr parameters in the c interface)"""
        def walk(e):
            if e[0] == "pow" or (e[0] == "call" and e[1] not in ("fabs", "sqrt")):
                return True
            return any(walk(x) for x in e[1:] if isinstance(x, (list, tuple)))
        if self.prog["kind"] != "function":
            return False
        es = list(self.temps) + [self.res] + ([self.cond["else"]] if self.cond else []) + (
            [self.post[1]] if self.post else []) + ([self.aug] if self.aug else [])
        return any(walk(e) for e in es)

    # ---- text emission
    def cxx(self, e):
        t = e[0]
        rl = (lambda s: "real(" + s + ")") if self.useqt else (lambda s: s)
        if t == "num":
            s = e[1]
            return rl("(" + s + ")" if s.startswith("-") else s)
        if t == "in":
            return self.in_names[e[1]]
        if t == "par":
            return self.par_names[e[1]]
        if t == "cst":
            return self.cst_names[e[1]]
        if t == "sta":
            return self.sta_names[e[1]]
        if t == "tmp":
            return self.tmp_names[e[1]]
        if t == "neg":
            return "(-(" + self.cxx(e[1]) + "))"
        if t in ("add", "sub", "mul", "div"):
            op = {"add": " + ", "sub": " - ", "mul": " * ", "div": " / "}[t]
            return "(" + self.cxx(e[1]) + op + self.cxx(e[2]) + ")"
        if t in ("min", "max"):
            return t + "(" + self.cxx(e[1]) + ", " + self.cxx(e[2]) + ")"
        if t == "pow":
            return "std::pow(" + self.cxx(e[1]) + ", " + self.cxx(e[2]) + ")"
        if t == "call":
            return "std::" + e[1] + "(" + self.cxx(e[2]) + ")"
        raise ValueError(e)

    def event_cxx(self):
        ev = self.event
        x = self.in_names[ev["in"]]
        c = "(" + ev["c"] + ")"
        d = "(" + x + " - " + c + ")"
        ty = ev["type"]
        if ty == "log":
            return "std::log" + d
        if ty == "sqrt":
            return "std::sqrt" + d
        if ty == "exp":
            return "std::exp((" + ev["s"] + ") * " + d + ")"
        if ty == "div":
            return "(1.0 / " + d + ")"
        if ty == "nan":
            return "(" + d + " / " + d + ")"
        raise ValueError(ty)

    def _bounds_text(self, kw, name, b):
        if not b:
            return ""
        if b["k"] == "lower":
            return "%s %s in [%s:*[;\n" % (kw, name, b["lo"])
        if b["k"] == "upper":
            return "%s %s in ]*:%s];\n" % (kw, name, b["hi"])
        return "%s %s in [%s:%s];\n" % (kw, name, b["lo"], b["hi"])

    def _mfront_text(self):
        p = self.prog
        o = []
        o.append(["@DSL MaterialLaw;", "@Parser MaterialLaw;", "@DSL MaterialProperty;"][p.get("dsl", 0) % 3])
        o.append("@Law %s;" % self.law)
        if self.material:
            o.append("@Material %s;" % self.material)
        o.append("@Author verif;")
        if self.useqt:
            o.append("@UseQt true;")
        data_qt = self.useqt and p["kind"] == "data"
        if self.outname:
            o.append("@Output %s%s;" % ("stress " if data_qt else "", self.outname))
            if self.outname == "E":
                o.append('E.setGlossaryName("YoungModulus");')
        for i, n in enumerate(self.in_names):
            ty = "temperature " if (data_qt and n == "T" and p["inputs"][i].get("gloss")) else ""
            o.append("@Input %s%s;" % (ty, n))
            if p["inputs"][i].get("gloss"):
                if INPUT_GLOSS[n]:
                    o.append('%s.setGlossaryName("%s");' % (n, INPUT_GLOSS[n]))
                else:
                    o.append('%s.setEntryName("Arg_%s");' % (n, n))
        for i, q in enumerate(p["params"]):
            o.append("@Parameter %s = %s;" % (self.par_names[i], q["v"]))
            if q.get("entry"):
                o.append('%s.setEntryName("%s");' % (self.par_names[i], self.par_ext[i]))
        for i, v in enumerate(p["consts"]):
            o.append("@Constant %s = %s;" % (self.cst_names[i], v))
        for i, v in enumerate(p["statics"]):
            o.append("@StaticVariable real %s = %s;" % (self.sta_names[i], v))
        t = "\n".join(o) + "\n"
        for i, n in enumerate(self.in_names):
            t += self._bounds_text("@PhysicalBounds", n, p["inputs"][i].get("pb"))
            t += self._bounds_text("@Bounds", n, p["inputs"][i].get("b"))
        if p.get("ob") or p.get("opb"):
            if not self.outname:  # bounds on the output need a declared output
                t = t.replace("@Author verif;\n", "@Author verif;\n@Output res;\n", 1)
            t += self._bounds_text("@PhysicalBounds", self.out, p.get("opb"))
            t += self._bounds_text("@Bounds", self.out, p.get("ob"))
        if p["kind"] == "data":
            if not self.nin:
                t += "@Data {\n  value: %s\n};\n" % self.ys_lit[0]
                return t
            vals = ", ".join("%s : %s" % (x, y) for x, y in zip(self.xs_lit, self.ys_lit))
            t += "@Data {\n  values: { %s }" % vals
            if self.interp:
                t += ',\n  interpolation: "%s"' % self.interp
            if self.extrap is not None:
                t += ",\n  extrapolation: %s" % (("true" if self.extrap else "false") if isinstance(self.extrap, bool)
                                                 else '"%s"' % self.extrap)
            t += "\n};\n"
            return t
        b = ["@Function{"]
        for i, e in enumerate(self.temps):
            b.append("  const real %s = %s;" % (self.tmp_names[i], self.cxx(e)))
        for n in self.in_names + self.par_names + self.cst_names + self.sta_names + self.tmp_names:
            b.append("  static_cast<void>(%s);" % n)
        if self.cond:
            c = self.cond
            b.append("  if (%s > %s) {" % (self.in_names[c["in"]], c["thr"]))
            b.append("    %s = %s;" % (self.out, self.cxx(self.res)))
            b.append("  } else {")
            b.append("    %s = %s;" % (self.out, self.cxx(c["else"])))
            b.append("  }")
        else:
            b.append("  %s = %s;" % (self.out, self.cxx(self.res)))
        if self.post:
            b.append("  %s %s %s;" % (self.out, self.post[0], self.cxx(self.post[1])))
        if self.aug:
            b.append("  %s += %s;" % (self.out, self.cxx(self.aug)))
        if self.event:
            b.append("  %s += %s;" % (self.out, self.event_cxx()))
        b.append("}")
        return t + "\n".join(b) + "\n"

    def wrapper_text(self):
        """C wrapper around the functor of the c++ interface"""
        n, m = self.nin, len(self.par_names)
        args = ", ".join("a[%d]" % i for i in range(n))
        sets = "".join("    if (pm[%d]) { f.set%s(pv[%d]); }\n" % (i, self.par_names[i], i) for i in range(m))
        return ('#include "%s-cxx.cxx"\n'
                'extern "C" __attribute__((visibility("default"))) int verif_cxx_call('
                "const double* a, const double* pv, const int* pm, double* out) {\n"
                "  static_cast<void>(a); static_cast<void>(pv); static_cast<void>(pm);\n"
                "  try {\n    mfront::%s f;\n%s    *out = f(%s);\n    return 0;\n"
                "  } catch (std::exception&) {\n    return 1;\n  } catch (...) {\n    return 2;\n  }\n}\n"
                % (self.fname, self.fname, sets, args))


def frac_to_lit(x):
    """exact decimal string (with a '.') of a Fraction whose denominator is 2^a 5^b"""
    neg = x < 0
    x = abs(x)
    k = 0
    while x.denominator != 1:
        x *= 10
        k += 1
        if k > 60:
            raise Reject("not a decimal")
    s = str(x.numerator)
    if k:
        s = s.rjust(k + 1, "0")
        s = s[:-k] + "." + s[-k:]
    else:
        s = s + ".0"
    return ("-" if neg else "") + s


def lit_from_float6(x):
    s = "%.5e" % x
    m, e = s.split("e")
    return "%se%d" % (m, int(e))


# --------------------------------------------------------------------------- oracle
class Evaluator:
    """evaluates a prepared function program in Python, in the same operation
    order as the emitted C++, with a running bound on the deviation allowed
    between two conforming IEEE-754/libm evaluations (libm calls: 2 ulp each)
    and a record of the libm error events (errno)"""

    def __init__(self, P, args, params, consts=None, statics=None):
        self.P, self.args, self.params = P, args, params
        self.consts = P.cst_values if consts is None else consts
        self.statics = P.sta_values if statics is None else statics
        self.events = []      # errno values set, in evaluation order (order between operands unspecified)
        self.uncertain = False
        self.tmp = []

    # every method returns (value, error bound)
    def ev(self, e):
        t = e[0]
        if t == "num":
            return fl(e[1]), 0.0
        if t == "in":
            return self.args[e[1]], 0.0
        if t == "par":
            return self.params[e[1]], 0.0
        if t == "cst":
            return self.consts[e[1]], 0.0
        if t == "sta":
            return self.statics[e[1]], 0.0
        if t == "tmp":
            return self.tmp[e[1]]
        if t == "neg":
            v, d = self.ev(e[1])
            return -v, d
        if t in ("add", "sub", "mul", "div", "min", "max", "pow"):
            a, da = self.ev(e[1])
            b, db = self.ev(e[2])
            inexact = (da + db) > 0.0
            if t == "add":
                v = a + b
                return v, da + db + (ulp(v) if inexact else 0.0)
            if t == "sub":
                v = a - b
                return v, da + db + (ulp(v) if inexact else 0.0)
            if t == "mul":
                v = a * b
                return v, abs(a) * db + abs(b) * da + da * db + (ulp(v) if inexact else 0.0)
            if t == "div":
                v = ieee_div(a, b)
                if not inexact:
                    return v, 0.0
                den = abs(b) - db
                if den <= 0.0:
                    return v, INF
                return v, (da + abs(v) * db) / den + ulp(v)
            if t == "min":
                if abs(a - b) <= da + db and inexact:
                    return (a if a < b else b), max(da, db) + abs(a - b)
                return (a, da) if a < b else (b, db)
            if t == "max":
                if abs(a - b) <= da + db and inexact:
                    return (a if a > b else b), max(da, db) + abs(a - b)
                return (a, da) if a > b else (b, db)
            # pow, positive base in safe programs
            v = self._pow(a, b)
            d = 2.0 * ulp(v)
            if inexact and a > 0.0 and v == v and abs(v) != INF:
                d += 2.0 * (abs(b * v / a) * da + abs(v * math.log(a)) * db) + ulp(v)
            return v, d
        if t == "call":
            x, dx = self.ev(e[2])
            return self._call(e[1], x, dx)
        raise ValueError(e)

    def _pow(self, a, b):
        try:
            return math.pow(a, b)
        except OverflowError:
            self.events.append(ERANGE)
            return INF
        except ValueError:
            self.events.append(EDOM)
            return NAN

    def _call(self, fn, x, dx):
        if fn == "fabs":
            return abs(x), dx
        if x != x:
            return NAN, 0.0
        if fn == "sqrt":
            if x < 0.0:
                self.events.append(EDOM)
                return NAN, 0.0
            v = math.sqrt(x)
            if dx == 0.0:
                return v, 0.0  # correctly rounded
            if v == 0.0:
                return v, INF
            return v, dx / v + ulp(v)
        if fn == "exp":
            if x > 709.0:
                if x < 710.5:
                    self.uncertain = True
                self.events.append(ERANGE)
                return INF, 0.0
            if x < -708.0:
                if x > -746.0:
                    self.uncertain = True  # subnormal results: errno depends on the libm
                self.events.append(ERANGE)
                return 0.0, 0.0
            v = math.exp(x)
            return v, 2.0 * ulp(v) + 2.0 * v * dx
        if fn == "log":
            if x < 0.0:
                self.events.append(EDOM)
                return NAN, 0.0
            if x == 0.0:
                self.events.append(ERANGE)
                return -INF, 0.0
            v = math.log(x)
            return v, 2.0 * ulp(v) + 2.0 * dx / x
        if fn == "tanh":
            v = math.tanh(x)
            return v, 2.0 * ulp(v) + 2.0 * dx * max(1.0 - v * v, 0.0) + (ulp(v) if dx else 0.0)
        if fn == "atan":
            v = math.atan(x)
            return v, 2.0 * ulp(v) + 2.0 * dx / (1.0 + x * x if abs(x) < 1e150 else INF) + (ulp(v) if dx else 0.0)
        if fn in ("sin", "cos"):
            if abs(x) == INF:
                self.events.append(EDOM)
                return NAN, 0.0
            v = math.sin(x) if fn == "sin" else math.cos(x)
            return v, 2.0 * ulp(v) + 2.0 * dx
        if fn == "cbrt":
            v = math.cbrt(x)
            if dx == 0.0:
                return v, 2.0 * ulp(v)
            if v == 0.0:
                return v, INF
            return v, 2.0 * ulp(v) + 2.0 * dx / (3.0 * v * v)
        raise ValueError(fn)

    def run(self):
        """returns (value, error bound)"""
        P = self.P
        self.tmp = []
        for e in P.temps:
            self.tmp.append(self.ev(e))
        if P.cond and not (self.args[P.cond["in"]] > fl(P.cond["thr"])):
            v, d = self.ev(P.cond["else"])
        else:
            v, d = self.ev(P.res)
        if P.post:
            op, e = P.post
            b, db = self.ev(e)
            inexact = (d + db) > 0.0
            if op == "+=":
                v, d = v + b, d + db
            elif op == "-=":
                v, d = v - b, d + db
            elif op == "*=":
                v, d = v * b, abs(v) * db + abs(b) * d + d * db
            else:
                den = abs(b) - db
                nv = ieee_div(v, b)
                d = ((d + abs(nv) * db) / den) if den > 0.0 else INF
                v = nv
            if inexact:
                d += ulp(v)
        if getattr(P, "aug", None):
            b, db = self.ev(P.aug)
            inexact = (d + db) > 0.0
            v, d = v + b, d + db
            if inexact:
                d += ulp(v)
        if P.event:
            b, db = self._event()
            v, d = v + b, d + db + (ulp(v + b) if (d + db) > 0.0 else 0.0)
        return v, d

    def _event(self):
        ev = self.P.event
        x = self.args[ev["in"]]
        d = x - fl(ev["c"])
        ty = ev["type"]
        if ty == "log":
            return self._call("log", d, 0.0)
        if ty == "sqrt":
            return self._call("sqrt", d, 0.0)
        if ty == "exp":
            return self._call("exp", fl(ev["s"]) * d, 0.0)
        if ty == "div":
            return ieee_div(1.0, d), 0.0
        if ty == "nan":
            return ieee_div(d, d), 0.0
        raise ValueError(ty)


def ieee_div(a, b):
    if b != 0.0:
        try:
            return a / b
        except OverflowError:
            return INF if (a > 0) == (b > 0) else -INF
    if a != a or a == 0.0:
        return NAN
    neg = (math.copysign(1.0, a) < 0) != (math.copysign(1.0, b) < 0)
    return -INF if neg else INF


# ---- tabulated data: exact rational references
def spline_second_derivatives(xs, ys):
    """second derivatives M_i of the natural cubic spline through (xs, ys) -- exact (Fractions)"""
    n = len(xs)
    M = [Fraction(0)] * n
    if n < 3:
        return M
    h = [xs[i + 1] - xs[i] for i in range(n - 1)]
    # unknowns M_1..M_{n-2}; Thomas algorithm on exact rationals
    a = [h[i - 1] for i in range(1, n - 1)]
    b = [2 * (h[i - 1] + h[i]) for i in range(1, n - 1)]
    c = [h[i] for i in range(1, n - 1)]
    r = [6 * ((ys[i + 1] - ys[i]) / h[i] - (ys[i] - ys[i - 1]) / h[i - 1]) for i in range(1, n - 1)]
    m = n - 2
    for i in range(1, m):
        w = a[i] / b[i - 1]
        b[i] -= w * c[i - 1]
        r[i] -= w * r[i - 1]
    sol = [Fraction(0)] * m
    sol[m - 1] = r[m - 1] / b[m - 1]
    for i in range(m - 2, -1, -1):
        sol[i] = (r[i] - c[i] * sol[i + 1]) / b[i]
    for i in range(m):
        M[i + 1] = sol[i]
    return M


def table_reference(xs, ys, interp, extrapolate, x, cache=None):
    """exact value (Fraction) of the declared interpolant at the float x, and a scale for the tolerance.
    xs, ys: Fractions (strictly increasing xs)."""
    n = len(xs)
    X = Fraction(x)
    if n == 1:
        return ys[0], abs(ys[0])
    cubic = (interp == "cubic_spline")
    if cache is not None and "M" in cache:
        M = cache["M"]
    else:
        M = spline_second_derivatives(xs, ys) if cubic else None
        if cache is not None:
            cache["M"] = M

    def slope_at(i_end):
        if i_end == 0:
            h = xs[1] - xs[0]
            s = (ys[1] - ys[0]) / h
            return s - h * M[1] / 6 if cubic else s
        h = xs[n - 1] - xs[n - 2]
        s = (ys[n - 1] - ys[n - 2]) / h
        return s + h * M[n - 2] / 6 if cubic else s

    ymax = max(abs(y) for y in ys)
    if X <= xs[0] or X >= xs[n - 1]:
        k = 0 if X <= xs[0] else n - 1
        if not extrapolate:
            return ys[k], ymax
        s = slope_at(k)
        v = ys[k] + s * (X - xs[k])
        return v, ymax + abs(s * (X - xs[k]))
    i = 0
    while not (xs[i] <= X <= xs[i + 1]):
        i += 1
    h = xs[i + 1] - xs[i]
    if not cubic:
        s = (ys[i + 1] - ys[i]) / h
        return ys[i] + s * (X - xs[i]), ymax + abs(s * h)
    A, B = xs[i + 1] - X, X - xs[i]
    v = (M[i] * A ** 3 + M[i + 1] * B ** 3) / (6 * h) + (ys[i] / h - M[i] * h / 6) * A + (ys[i + 1] / h - M[i + 1] * h / 6) * B
    # scale: ordinates + end slopes times the largest step (size of the terms TFEL adds)
    hm = max(xs[j + 1] - xs[j] for j in range(n - 1))
    dmax = max(abs((ys[j + 1] - ys[j]) / (xs[j + 1] - xs[j])) for j in range(n - 1))
    mmax = max(abs(m) for m in M)
    return v, ymax + (dmax + mmax * hm) * hm * 3


def data_value(P, x, digits=None):
    """(reference value as float, tolerance) for a data program at input x.
    digits: None = declared values; n = values re-read after printing with n significant digits"""
    def cv(s):
        return Fraction(fl(s)) if digits is None else Fraction(trunc_sig(fl(s), digits))
    if digits is None:
        xs = list(P.xs_exact)
    else:
        xs = [Fraction(trunc_sig(fl(s), digits)) for s in P.xs_lit]
    ys = [cv(s) for s in P.ys_lit]
    extrap = P.extrap
    extrapolate = True if extrap is None else (extrap if isinstance(extrap, bool) else False)
    cubic = P.interp == "cubic_spline"
    if P.nin == 0:
        return float(ys[0]), 0.0
    v, scale = table_reference(xs, ys, P.interp, extrapolate, x, P._mcache.setdefault(digits, {}))
    k = 2000.0 if cubic else 16.0
    return float(v), TOLK * k * EPS * float(scale) + 1e-300


# --------------------------------------------------------------------------- build
def _lock(path):
    f = open(path, "w")
    fcntl.flock(f, fcntl.LOCK_EX)
    return f


PCH_TEXT = """#include<algorithm>
#include<iterator>
#include<iostream>
#include<sstream>
#include<fstream>
#include<cstring>
#include<cstdlib>
#include<cerrno>
#include<string>
#include<vector>
#include<locale>
#include<cmath>
#include<stdexcept>
#include"TFEL/Config/TFELTypes.hxx"
#include"TFEL/PhysicalConstants.hxx"
#include"TFEL/Math/General/IEEE754.hxx"
#include"TFEL/Math/General/DerivativeType.hxx"
#include"TFEL/Math/qt.hxx"
#include"TFEL/Math/Quantity/qtIO.hxx"
#include"TFEL/Math/LinearInterpolation.hxx"
#include"TFEL/Math/CubicSpline.hxx"
"""

_pch = {}


def pch_flags():
    """precompiled header of the TFEL headers every generated material property
    includes (pure compile-time accelerator; same flags as compile_generated)"""
    import verifpy as V
    if "flags" in _pch:
        return _pch["flags"]
    d = os.path.join(V.VERIF, "build", "cache", "pch-" + V.header_tree_digest()[:16])
    os.makedirs(d, exist_ok=True)
    hx = os.path.join(d, "mp_pch.hxx")
    flags = ()
    lk = _lock(os.path.join(d, "lock"))
    try:
        if not os.path.exists(hx + ".gch"):
            with open(hx, "w") as f:
                f.write(PCH_TEXT)
            cmd = ["g++"] + [x for x in V.CXXFLAGS_GENERATED if x != "-shared"] + [
                "-I" + os.path.join(V.REPO, "include"), "-I" + os.path.join(V.BUILD, "include"),
                "-I" + os.path.join(V.REPO, "mfront", "include"), "-x", "c++-header", hx, "-o", hx + ".gch.tmp"]
            rc, so, se = V.run(cmd, timeout=600)
            if rc == 0:
                os.replace(hx + ".gch.tmp", hx + ".gch")
        if os.path.exists(hx + ".gch"):
            flags = ("-include", hx)
    finally:
        lk.close()
    _pch["flags"] = flags
    return flags


_stamp = {}


def mfront_stamp():
    """identity of the mfront that generates the sources (executable + libTFELMFront: path, size, mtime);
    work directories that survive between runs (replays) are regenerated when it changes"""
    import verifpy as V
    if "s" not in _stamp:
        b = os.environ.get("VERIF_MFRONT_BUILD") or V.BUILD
        parts = []
        for p in (os.path.join(b, "mfront", "src", "mfront"), os.path.join(b, "mfront", "src", "libTFELMFront.so")):
            try:
                st = os.stat(p)
                parts.append("%s %d %d" % (os.path.realpath(p), st.st_size, st.st_mtime_ns))
            except OSError:
                parts.append(p + " ?")
        _stamp["s"] = "\n".join(parts)
    return _stamp["s"]


def generate(P, root):
    """writes the mfront file and runs mfront; returns (workdir, error or None)"""
    import verifpy as V
    wd = os.path.join(root, P.law)
    os.makedirs(wd, exist_ok=True)
    lk = _lock(os.path.join(wd, ".lock"))  # the same program can be asked for by two threads / processes
    try:
        return _generate(P, wd)
    finally:
        lk.close()


def _generate(P, wd):
    import verifpy as V
    ok = os.path.join(wd, ".generated")
    stamp = mfront_stamp()
    if os.path.exists(ok) and open(ok).read() == stamp:
        return wd, None
    if os.path.isdir(os.path.join(wd, "src")):  # generated by another mfront (rebuilt tree): start again
        import shutil
        shutil.rmtree(os.path.join(wd, "src"), ignore_errors=True)
        shutil.rmtree(os.path.join(wd, "include"), ignore_errors=True)
    os.makedirs(wd, exist_ok=True)
    src = os.path.join(wd, P.law + ".mfront")
    with open(src, "w") as f:
        f.write(P.text)
    mb = os.environ.get("VERIF_MFRONT_BUILD")
    if mb:
        # sensitivity runs (mutants/C37.md, C38.md): a mutated mfront of another build tree generates the
        # sources; everything else (headers, libraries, compile cache) stays the one of the regular tree
        import glob
        dirs = sorted(set(os.path.dirname(p) for p in glob.glob(os.path.join(mb, "**", "lib*.so"), recursive=True)))
        env = dict(os.environ)
        env["LD_LIBRARY_PATH"] = ":".join(dirs) + ":" + env.get("LD_LIBRARY_PATH", "")
        rc, so, se = V.run([os.path.join(mb, "mfront", "src", "mfront"), "--interface=generic,c,c++", src], cwd=wd,
                           timeout=120, env=env)
    else:
        rc, so, se = V.mfront_generate(src, wd, interface="generic,c,c++")
    if rc != 0:
        return wd, "mfront failed (rc=%d): %s" % (rc, (so + se)[-1500:])
    with open(os.path.join(wd, "src", "verif_cxx_wrapper.cxx"), "w") as f:
        f.write(P.wrapper_text())
    with open(ok, "w") as f:
        f.write(stamp)
    return wd, None


def iface_source(P, wd, iface):
    return {"c": os.path.join(wd, "src", P.fname + ".cxx"),
            "generic": os.path.join(wd, "src", P.fname + "-generic.cxx"),
            "cxx": os.path.join(wd, "src", "verif_cxx_wrapper.cxx")}[iface]


def _memoise_libdirs():
    """verifpy.libdirs() walks the whole build tree at every call (Python level, under the GIL): with
    ~100 compilations running in threads this serialises them.  Memoised here, for this process only."""
    import verifpy as V
    if not getattr(V.libdirs, "_memoised", False):
        orig, memo = V.libdirs, {}

        def libdirs():
            if "d" not in memo:
                memo["d"] = orig()
            return memo["d"]
        libdirs._memoised = True
        V.libdirs = libdirs


def compile_iface(P, wd, iface):
    import verifpy as V
    _memoise_libdirs()
    return V.compile_generated(wd, P.fname + "_" + iface, sources=[iface_source(P, wd, iface)],
                               extra_flags=("-DVERIF_IFACE_" + iface, "-I" + os.path.join(wd, "src")) + tuple(pch_flags()),
                               libs=("TFELMathCubicSpline", "TFELMath", "TFELException"))


IFACES = ("generic", "c", "cxx")


def build(P, root):
    """returns ({iface: lib path}, None) or (None, error)"""
    wd, err = generate(P, root)
    if err:
        return None, "mfront: " + err
    import verifpy as V
    pch_flags()
    libs = {}
    for i, (so, err) in zip(IFACES, V.parallel_map(lambda i: compile_iface(P, wd, i), IFACES, 3)):
        if so is None:
            return None, "g++ (%s): %s" % (i, err)
        libs[i] = so
    return libs, None


KNOWN_HITS = {}


def stash_known(key, msg, case):
    """a call hit a class listed as a known finding: the call is dropped (counted), the other
    calls of the program are still checked; flush_known() reports the hits to the unit"""
    h = KNOWN_HITS.setdefault(key, {"count": 0, "msg": msg, "case": case})
    h["count"] += 1


def flush_known(unit, sub):
    for key, h in sorted(KNOWN_HITS.items()):
        for _ in range(h["count"]):
            unit.fail(sub, key, h["msg"], h["case"])


SHRINK = {"failed": False, "builds": 0}


def note_failure():
    """to be called when a new (not known) failure is about to be reported: from then on
    Hypothesis is shrinking and every new program costs a mfront + 3 g++ runs"""
    SHRINK["failed"] = True


def build_budgeted(P, root, budget):
    """build(), but once a failure has been seen only `budget` programs that are not in the
    cache are still built (the others are rejected), which bounds the time spent shrinking"""
    wd = os.path.join(root, P.law)
    gen = os.path.join(wd, ".generated")
    cached = os.path.exists(gen) and open(gen).read() == mfront_stamp() and all(
        os.path.exists(os.path.join(wd, "src", "lib%s_%s.so" % (P.fname, i))) for i in IFACES)
    if not cached and SHRINK["failed"]:
        if SHRINK["builds"] >= budget:
            raise Reject()
        SHRINK["builds"] += 1
    return build(P, root)


def prebuild(progs, root, jobs):
    """generate + compile a batch of programs in parallel (fills the compile cache)"""
    import verifpy as V
    pch_flags()
    Ps, seen = [], set()
    for p in progs:
        try:
            P = Prepared(p)
        except Reject:
            continue
        if P.law not in seen:
            seen.add(P.law)
            Ps.append(P)
    gen = V.parallel_map(lambda P: (P,) + generate(P, root), Ps, jobs)
    tasks = [(P, wd, i) for P, wd, err in gen if not err for i in IFACES]
    V.parallel_map(lambda t: compile_iface(*t), tasks, jobs)
    return len(Ps)


def collect_cases(strategy, n, seed):
    """the first n examples Hypothesis will generate for (strategy, seed) when every example passes"""
    from hypothesis import given, settings, seed as hseed, HealthCheck, Phase, assume
    out = []

    @hseed(seed)
    @settings(max_examples=n, database=None, deadline=None, derandomize=False, report_multiple_bugs=False,
              suppress_health_check=list(HealthCheck), phases=[Phase.generate, Phase.shrink])
    @given(strategy)
    def collect(case):
        try:
            Prepared(case["prog"])
        except Reject:
            assume(False)
        except Exception:
            return  # harness error: reported by check_case in the real run
        out.append(case)
    try:
        collect()
    except Exception:
        pass
    return out


# --------------------------------------------------------------------------- prober (child process)
class OutputStatus(ctypes.Structure):
    _fields_ = [("status", ctypes.c_int), ("c_error_number", ctypes.c_int), ("bounds_status", ctypes.c_int),
                ("msg", ctypes.c_char * 512)]


def probe_main(jobfile, outfile):
    job = json.load(open(jobfile))
    nin, sym, npar = job["nin"], job["sym"], job["npar"]
    L = {}

    def lib(i):
        if i not in L:
            L[i] = ctypes.CDLL(job["libs"][i], use_errno=True)
        return L[i]
    res = []
    out = open(outfile, "w")
    for c in job["calls"]:
        k = c["i"]
        r = {}
        if k == "g":
            f = getattr(lib("generic"), sym)
            f.restype = ctypes.c_double
            f.argtypes = [ctypes.POINTER(OutputStatus), ctypes.POINTER(ctypes.c_double), ctypes.c_size_t, ctypes.c_int]
            st = OutputStatus()
            ctypes.memset(ctypes.byref(st), 0x7f, ctypes.sizeof(st))
            args = [unhex(a) for a in c["args"]]
            arr = (ctypes.c_double * max(1, len(args), c["nargs"]))(*args)
            ctypes.set_errno(c["errno"])
            v = f(ctypes.byref(st), arr, c["nargs"], c["pol"])
            en = ctypes.get_errno()
            raw = bytes(st.msg.raw) if hasattr(st.msg, "raw") else ctypes.string_at(ctypes.addressof(st) + 12, 512)
            z = raw.find(b"\0")
            r = {"v": hexf(v), "st": st.status, "ce": st.c_error_number, "bs": st.bounds_status, "en": en,
                 "mt": z >= 0, "msg": raw[:max(z, 0)][:160].decode(errors="replace")}
        elif k == "gset":
            f = getattr(lib("generic"), sym + "_setParameter")
            f.restype = ctypes.c_int
            f.argtypes = [ctypes.c_char_p, ctypes.c_double]
            r = {"rc": f(c["name"].encode(), unhex(c["v"]))}
        elif k == "c":
            f = getattr(lib("c"), sym)
            f.restype = ctypes.c_double
            f.argtypes = [ctypes.c_double] * nin
            ctypes.set_errno(c["errno"])
            v = f(*[unhex(a) for a in c["args"]])
            r = {"v": hexf(v), "en": ctypes.get_errno()}
        elif k == "ccb":
            try:
                f = getattr(lib("c"), sym + "_checkBounds")
            except AttributeError:
                r = {"missing": True}
            else:
                f.restype = ctypes.c_int
                f.argtypes = [ctypes.c_double] * nin
                r = {"r": f(*[unhex(a) for a in c["args"]])}
        elif k == "x":
            f = lib("cxx").verif_cxx_call
            f.restype = ctypes.c_int
            a = (ctypes.c_double * max(1, nin))(*[unhex(a) for a in c["args"]])
            pv = (ctypes.c_double * max(1, npar))()
            pm = (ctypes.c_int * max(1, npar))()
            for i, v in c.get("pset", []):
                pv[i] = unhex(v)
                pm[i] = 1
            o = ctypes.c_double(0.0)
            rc = f(a, pv, pm, ctypes.byref(o))
            r = {"v": hexf(o.value), "exc": rc}
        res.append(r)
    json.dump(res, out)
    out.close()


def probe(P, libs, calls, workdir, tag, pfile=None):
    """run the calls in a fresh python process whose cwd is `workdir/tag`;
    pfile = text of <law>-parameters.txt to place there.  Returns (results or None, error)"""
    cwd = os.path.join(workdir, "probe_" + tag)
    os.makedirs(cwd, exist_ok=True)
    pf = os.path.join(cwd, P.fname + "-parameters.txt")
    if os.path.exists(pf):
        os.unlink(pf)
    if pfile is not None:
        with open(pf, "w") as f:
            f.write(pfile)
    job = {"libs": libs, "sym": P.fname, "nin": P.nin, "npar": len(P.par_names), "calls": calls}
    jf, of = os.path.join(cwd, "job.json"), os.path.join(cwd, "out.json")
    with open(jf, "w") as f:
        json.dump(job, f)
    if os.path.exists(of):
        os.unlink(of)
    try:
        r = subprocess.run([sys.executable, os.path.abspath(__file__), "--probe", jf, of], cwd=cwd,
                           stdout=subprocess.PIPE, stderr=subprocess.PIPE, timeout=300)
    except subprocess.TimeoutExpired:
        return None, "prober timeout"
    if r.returncode != 0:
        return None, "prober exit %d: %s" % (r.returncode, r.stderr.decode(errors="replace")[-800:])
    return json.load(open(of)), None


if __name__ == "__main__":
    if len(sys.argv) == 4 and sys.argv[1] == "--probe":
        probe_main(sys.argv[2], sys.argv[3])
        sys.exit(0)
    sys.exit(2)
