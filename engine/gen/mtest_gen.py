"""Shared helpers of the MTest / PipeTest checks (C48, C49, C50, C53).

* a small library of behaviours generated from .mfront sources (Hooke, Norton
  creep (Implicit DSL), J2 plasticity with linear isotropic hardening
  (IsotropicPlasticMisesFlow DSL), J2 plasticity with linear isotropic + Prager
  kinematic hardening (Implicit DSL, StandardElastoViscoPlasticity brick)),
  compiled once per run through verifpy.mfront_generate/compile_generated
  (generic interface, content-hash cached);
  every behaviour carries a *fault script*: a process-global counter of the
  calls of the behaviour integration and a list of call indices (environment
  variable VERIF_FAULTS, read once) at which the integration reports a failure
  (`@APrioriTimeStepScalingFactor` returning {false, 0.5}).  Without the
  variable nothing ever fails;
* a writer turning a JSON problem description into the text of a .mtest file,
  and python oracles for the evolutions (LPI tables, a few functions of t);
* a runner (mtest executable of the hooks tree) and a parser of `.res` files.
"""
import math
import os
import re
import shutil
import threading

from verifpy import (WORK, run, tool, mfront_generate, compile_generated, parallel_map, fnv)

HYPOTHESES = {
    # name: (strain components, stress components) in the order of the result file
    "Tridimensional": (["EXX", "EYY", "EZZ", "EXY", "EXZ", "EYZ"], ["SXX", "SYY", "SZZ", "SXY", "SXZ", "SYZ"]),
    "Axisymmetrical": (["ERR", "EZZ", "ETT", "ERZ"], ["SRR", "SZZ", "STT", "SRZ"]),
    "AxisymmetricalGeneralisedPlaneStrain": (["ERR", "EZZ", "ETT"], ["SRR", "SZZ", "STT"]),
    "PlaneStrain": (["EXX", "EYY", "EZZ", "EXY"], ["SXX", "SYY", "SZZ", "SXY"]),
    "PlaneStress": (["EXX", "EYY", "EZZ", "EXY"], ["SXX", "SYY", "SZZ", "SXY"]),
}
# components that may carry a loading (docs/mtest/mtest/ImposedStrain.md, ImposedStress.md):
# the out-of-plane component of the plane hypotheses is not a degree of freedom of the problem
LOADABLE = {
    "Tridimensional": [0, 1, 2, 3, 4, 5],
    "Axisymmetrical": [0, 1, 2, 3],
    "AxisymmetricalGeneralisedPlaneStrain": [0, 1, 2],
    "PlaneStrain": [0, 1, 3],
    "PlaneStress": [0, 1, 3],
}

MH = '@ModellingHypotheses {Tridimensional, Axisymmetrical, AxisymmetricalGeneralisedPlaneStrain, PlaneStrain, PlaneStress};'

FAULT_SCRIPT = r'''
@Includes{
#include<cstdlib>
#include<vector>
#ifndef VERIF_FAULT_SCRIPT
#define VERIF_FAULT_SCRIPT
/* process-global counter of the integration calls; the call indices listed in
 * the environment variable VERIF_FAULTS (read once) report a failure */
inline bool verif_fault(){
  static long counter = 0;
  static const std::vector<long> idx = [](){
    std::vector<long> v;
    const char* e = ::getenv("VERIF_FAULTS");
    if(e!=nullptr){
      const char* p = e;
      while(*p){
        char* q;
        const long k = ::strtol(p,&q,10);
        if(q==p){break;}
        v.push_back(k);
        p=q;
        while(*p==','){++p;}
      }
    }
    return v;
  }();
  const long c = counter++;
  for(const auto k: idx){
    if(k==c){return true;}
  }
  return false;
}
#endif
}

//! time steps larger than this value are rejected, the behaviour proposes the factor verif_dtmax/dt (non dyadic)
@Parameter real verif_dtmax = 1.e300;
//! time step scaling factor proposed after a successful integration
@Parameter real verif_growth = 1.e10;

@APrioriTimeStepScalingFactor{
  if(verif_fault()){
    return {false,real(0.5)};
  }
  if(dt>verif_dtmax*(1+1.e-9)){
    return {false,real(verif_dtmax/dt)};
  }
}

@APosterioriTimeStepScalingFactor{
  return {true,real(verif_growth)};
}
'''

ENERGIES = r'''
@InternalEnergy{
  Psi_s = (sig|eel)/2;
}
@DissipatedEnergy{
  Psi_d += sig|(deto-deel);
}
'''

SOURCES = {
    "VElasticity": r'''
@DSL Default;
@Behaviour VElasticity;
@Description{Hooke law (after mfront/tests/behaviours/Elasticity.mfront)}
''' + MH + r'''
@ProvidesSymmetricTangentOperator;
@MaterialProperty stress young;
young.setGlossaryName("YoungModulus");
@MaterialProperty real nu;
nu.setGlossaryName("PoissonRatio");
@LocalVariable stress lambda,mu;
''' + FAULT_SCRIPT + r'''
@InitLocalVariables{
  lambda = computeLambda(young,nu);
  mu = computeMu(young,nu);
}
@PredictionOperator{
  static_cast<void>(smt);
  computeAlteredElasticStiffness<hypothesis,real>::exe(Dt,lambda,mu);
}
@Integrator{
  sig = lambda*trace(eto+deto)*StrainStensor::Id()+2*mu*(eto+deto);
  if(computeTangentOperator_){
    Dt = lambda*Stensor4::IxI()+2*mu*Stensor4::Id();
  }
}
@Integrator<PlaneStress,Replace>{
  static_cast<void>(computeTangentOperator_);
  computeAlteredElasticStiffness<hypothesis,real>::exe(Dt,lambda,mu);
  sig = Dt*(eto+deto);
}
''',
    "VNorton": r'''
@DSL Implicit;
@Behaviour VNorton;
@Description{Norton creep, implicit scheme (after mfront/tests/behaviours/ImplicitNorton.mfront)}
''' + MH + r'''
@Epsilon 1.e-16;
@Theta 1;
@Brick StandardElasticity;
@MaterialProperty stress young;
young.setGlossaryName("YoungModulus");
@MaterialProperty real nu;
nu.setGlossaryName("PoissonRatio");
@MaterialProperty real A;
A.setEntryName("NortonCoefficient");
@MaterialProperty real E;
E.setEntryName("NortonExponent");
@MaterialProperty stress s0;
s0.setEntryName("ReferenceStress");
@StateVariable strain p;
p.setGlossaryName("EquivalentViscoplasticStrain");
''' + FAULT_SCRIPT + r'''
@Integrator{
  const auto mu = computeMu(young,nu);
  const auto seq = sigmaeq(sig);
  const auto iseq = 1/(max(seq,real(1.e-12)*young));
  const auto n = 3*deviator(sig)*(iseq/2);
  const auto tmp = A*pow(seq/s0,E-1);
  const auto df_dseq = E*tmp/s0;
  feel += dp*n;
  fp   -= tmp*(seq/s0)*dt;
  dfeel_ddeel += 2*mu*theta*dp*iseq*(Stensor4::M()-(n^n));
  dfeel_ddp    = n;
  dfp_ddeel    = -2*mu*theta*df_dseq*dt*n;
}
''' + ENERGIES,
    "VPlasticity": r'''
@DSL IsotropicPlasticMisesFlow;
@Behaviour VPlasticity;
@Description{J2 plasticity, linear isotropic hardening (after mfront/tests/behaviours/Plasticity.mfront)}
''' + MH.replace(", PlaneStress", "") + r'''
@Epsilon 1.e-16;
@MaterialProperty stress H;
H.setEntryName("HardeningSlope");
@MaterialProperty stress s0;
s0.setEntryName("InitialYieldStress");
''' + FAULT_SCRIPT + r'''
@FlowRule{
  f = seq-H*p-s0;
  df_dseq = 1;
  df_dp = -H;
}
''' + ENERGIES,
    "VKinematic": r'''
@DSL Implicit;
@Behaviour VKinematic;
@Description{J2 plasticity, linear isotropic and Prager kinematic hardening
 (after mfront/tests/behaviours/StandardElastoViscoPlasticity/PlasticityTest3.mfront)}
''' + MH + r'''
@Epsilon 1.e-16;
@Theta 1;
@Brick "StandardElastoViscoPlasticity" {
  stress_potential : "Hooke" {young_modulus : 150e9, poisson_ratio : 0.3},
  inelastic_flow : "Plastic" {
    criterion : "Mises",
    isotropic_hardening : "Linear" {R0 : 120e6, H : 6e9},
    kinematic_hardening : "Prager" {C : 30e9}
  }
};
''' + FAULT_SCRIPT + ENERGIES,
}

# material properties of a behaviour: name -> (low, high, log scale?)
MATERIAL_PROPERTIES = {
    "VElasticity": {"YoungModulus": (50e9, 250e9), "PoissonRatio": (0.1, 0.4)},
    "VNorton": {"YoungModulus": (50e9, 250e9), "PoissonRatio": (0.1, 0.4),
                "NortonCoefficient": (1e-7, 1e-5), "NortonExponent": (1.5, 6.0), "ReferenceStress": (50e6, 200e6)},
    "VPlasticity": {"YoungModulus": (50e9, 250e9), "PoissonRatio": (0.1, 0.4),
                    "HardeningSlope": (5e9, 50e9), "InitialYieldStress": (50e6, 300e6)},
    "VKinematic": {},
}
# the IsotropicPlasticMisesFlow DSL does not support plane stress
SUPPORTED = {n: [h for h in HYPOTHESES if not (n == "VPlasticity" and h == "PlaneStress")] for n in SOURCES}
KIND = {"VElasticity": "elastic", "VNorton": "viscous", "VPlasticity": "plastic", "VKinematic": "plastic"}
YOUNG = {"VKinematic": 150e9}
YIELD = {"VKinematic": 120e6}

_lock = threading.Lock()
_libs = {}


def build_library(names=None, root=None):
    """generate + compile the behaviours; returns {name: absolute path of the shared library}.
    Raises RuntimeError on failure (a broken harness, not a verdict)."""
    names = list(names or SOURCES)
    root = root or os.path.join(WORK, "behaviours")

    def one(n):
        wd = os.path.join(root, n)
        shutil.rmtree(wd, ignore_errors=True)
        os.makedirs(wd)
        with open(os.path.join(wd, n + ".mfront"), "w") as f:
            f.write(SOURCES[n])
        rc, so, se = mfront_generate(n + ".mfront", wd)
        if rc != 0:
            return n, None, "mfront failed: " + (so + se)[-2000:]
        lib, err = compile_generated(wd, n)
        return n, lib, err

    todo = [n for n in names if n not in _libs]
    for n, lib, err in parallel_map(one, todo, jobs=min(4, len(todo)) or 1):
        if lib is None:
            raise RuntimeError("behaviour %s: %s" % (n, err))
        _libs[n] = lib
    return {n: _libs[n] for n in names}


# ------------------------------------------------------------------ evolutions
def fmt(x):
    """shortest text that round-trips the double"""
    return repr(float(x))


def lpi(points, t):
    """the documented semantics of a table evolution (docs/mtest/Evolution.md): linear
    between the points, the first (last) value before (after) the table"""
    pts = sorted((float(a), float(b)) for a, b in points)
    if t <= pts[0][0]:
        return pts[0][1]
    if t >= pts[-1][0]:
        return pts[-1][1]
    for (x0, y0), (x1, y1) in zip(pts, pts[1:]):
        if x0 <= t <= x1:
            return y0 + (y1 - y0) * ((t - x0) / (x1 - x0))
    raise AssertionError("unreachable")


FUNCTIONS = {
    # name: (text with {a} {b}, python oracle, bound of |d/dt| as a function of a, b)
    "sin": ("{a}*sin(t/{b})", lambda a, b, t: a * math.sin(t / b), lambda a, b: abs(a / b)),
    "lin": ("{a}*t/{b}", lambda a, b, t: a * t / b, lambda a, b: abs(a / b)),
    "exp": ("{a}*(1-exp(-t/{b}))", lambda a, b, t: a * (1 - math.exp(-t / b)), lambda a, b: abs(a / b)),
    "sq": ("{a}*(t/{b})**2", lambda a, b, t: a * (t / b) ** 2, None),
    "cos": ("{a}*(1-cos(t/{b}))", lambda a, b, t: a * (1 - math.cos(t / b)), lambda a, b: abs(a / b)),
}


def evolution_text(ev):
    """ev = {"type":"const","v":x} | {"type":"lpi","pts":[[t,v],...]} | {"type":"fun","f":name,"a":..,"b":..}
    returns (option, text)"""
    if ev["type"] == "const":
        return "evolution", fmt(ev["v"])
    if ev["type"] == "lpi":
        return "evolution", "{" + ",".join("%s:%s" % (fmt(a), fmt(b)) for a, b in ev["pts"]) + "}"
    if ev["type"] == "fun":
        return "function", "'" + FUNCTIONS[ev["f"]][0].format(a=fmt(ev["a"]), b=fmt(ev["b"])) + "'"
    raise ValueError(ev)


def evolution_value(ev, t):
    if ev["type"] == "const":
        return float(ev["v"])
    if ev["type"] == "lpi":
        return lpi(ev["pts"], t)
    return FUNCTIONS[ev["f"]][1](float(ev["a"]), float(ev["b"]), t)


def evolution_lipschitz(ev, t0, t1):
    """bound of |dv/dt| on [t0,t1]"""
    if ev["type"] == "const":
        return 0.
    if ev["type"] == "lpi":
        pts = sorted((float(a), float(b)) for a, b in ev["pts"])
        return max([abs((y1 - y0) / (x1 - x0)) for (x0, y0), (x1, y1) in zip(pts, pts[1:])] or [0.])
    a, b = float(ev["a"]), float(ev["b"])
    if ev["f"] == "sq":
        return abs(2 * a * max(abs(t0), abs(t1)) / (b * b))
    return FUNCTIONS[ev["f"]][2](a, b)


def expand_times(times):
    """times = [t0, [t1, n1], [t2, n2], ...]: replicates SchemeParserBase::readTimesArray
    (tt + i*((t-tt)/n) for the sub-divisions)"""
    out = [float(times[0])]
    for t, n in times[1:]:
        t = float(t)
        tt = out[-1]
        dt = (t - tt) / float(n)
        for i in range(1, int(n)):
            out.append(tt + i * dt)
        out.append(t)
    return out


def times_text(times):
    s = [fmt(times[0])]
    for t, n in times[1:]:
        s.append(fmt(t) + (" in %d" % n if n > 1 else ""))
    return "{" + ", ".join(s) + "}"


# ------------------------------------------------------------------ .mtest writer
def mtest_text(pb, lib):
    """pb: {"behaviour","hypothesis","mp":{name:value},"loads":[{"comp":i,"kind":"strain"|"stress","ev":{...}}],
            "times":[...], "options":[[keyword, text],...]}"""
    h = pb["hypothesis"]
    en, sn = HYPOTHESES[h]
    L = ["@ModellingHypothesis '%s';" % h,
         "@Behaviour<generic> '%s' '%s';" % (lib, pb["behaviour"])]
    for k, v in pb.get("mp", {}).items():
        L.append("@MaterialProperty<constant> '%s' %s;" % (k, fmt(v)))
    L.append("@ExternalStateVariable 'Temperature' 293.15;")
    for kw, txt in pb.get("options", []):
        L.append("%s %s;" % (kw, txt))
    for ld in pb["loads"]:
        opt, txt = evolution_text(ld["ev"])
        if ld["kind"] == "strain":
            L.append("@ImposedStrain<%s> '%s' %s;" % (opt, en[ld["comp"]], txt))
        else:
            L.append("@ImposedStress<%s> '%s' %s;" % (opt, sn[ld["comp"]], txt))
    if "times_list" in pb:
        L.append("@Times {" + ", ".join(fmt(t) for t in pb["times_list"]) + "};")
    else:
        L.append("@Times " + times_text(pb["times"]) + ";")
    return "\n".join(L) + "\n"


# ------------------------------------------------------------------ runner / parser
class Res:
    def __init__(self, names, rows):
        self.names, self.rows = names, rows

    def col(self, name):
        return self.names.index(name)


_hdr = re.compile(r"^#\s*(first|\d+)\s+column\s*:\s*(.*)$")


def parse_res(path):
    """parse an MTest/PTest result file; the column names come from the header
    ('# 2 column: 1th component of the strain (EXX)' -> 'EXX', otherwise the description)"""
    names, rows = [], []
    with open(path) as f:
        for l in f:
            l = l.strip()
            if not l:
                continue
            if l.startswith("#"):
                m = _hdr.match(l)
                if m:
                    d = m.group(2).strip()
                    p = re.search(r"\(([^()]*)\)\s*$", d)
                    names.append(p.group(1) if p else d)
                continue
            rows.append([float(x) for x in l.split()])
    return Res(names, rows)


def classify_failure(out):
    """mtest's std::terminate path: returns the what() message (the documented error report) or None"""
    m = re.search(r"what\(\):\s*(.*)", out, re.S)
    return m.group(1).strip()[:600] if m else None


_cnt = [0]


def run_mtest(text, name=None, args=(), env_extra=None, ext=".mtest", verbose="quiet", timeout=120, keep=False, cwd=None):
    """writes the input file in a fresh directory and runs mtest.
    returns dict(status = 'ok' | 'error' (reported through what()) | 'crash' | 'timeout', rc, out, res (Res or None), dir)"""
    with _lock:
        _cnt[0] += 1
        k = _cnt[0]
    d = cwd or os.path.join(WORK, "runs", "%s_%d_%d" % (name or "t", os.getpid(), k))
    os.makedirs(d, exist_ok=True)
    base = name or "t"
    with open(os.path.join(d, base + ext), "w") as f:
        f.write(text)
    env = dict(os.environ)
    env.pop("VERIF_FAULTS", None)
    if env_extra:
        env.update(env_extra)
    # sensitivity runs: an alternative (mutated) libTFELMTest.so preloaded into mtest only (mutants/C48.md)
    if os.environ.get("VERIF_MTEST_PRELOAD"):
        env["LD_PRELOAD"] = os.environ["VERIF_MTEST_PRELOAD"]
    cmd = [tool("mtest"), "--verbose=" + verbose] + list(args) + [base + ext]
    rc, so, se = run(cmd, cwd=d, timeout=timeout, env=env)
    for _ in range(5):
        # the libraries of the build tree may be in the middle of a relink by another ./check (ninja): retry
        if rc == 127 and "error while loading shared libraries" in se:
            import time
            time.sleep(3)
            rc, so, se = run(cmd, cwd=d, timeout=timeout, env=env)
        else:
            break
    out = so + "\n" + se
    r = {"rc": rc, "out": out, "res": None, "dir": d, "status": "ok", "what": None}
    if rc == -999:
        r["status"] = "timeout"
    elif rc != 0:
        w = classify_failure(out)
        r["what"] = w
        r["status"] = "error" if (w is not None and rc in (134, -6)) else "crash"
        if rc == 1 and ("Execution failed" in out or ": FAILED" in out or "FAILED\n" in out):
            # the exception was caught by the test manager: verdict FAILED, exit status 1
            r["status"] = "error"
            m = re.search(r"Execution failed \((.*)\)\s*\n-number of period", out, re.S)
            r["what"] = m.group(1).strip()[:600] if m else (w or "")
    p = os.path.join(d, base + ".res")
    if os.path.exists(p):
        try:
            r["res"] = parse_res(p)
        except ValueError as e:
            r["res"] = None
            r["parse_error"] = str(e)
    if not keep and r["status"] in ("ok", "error"):
        shutil.rmtree(d, ignore_errors=True)
    return r


# ------------------------------------------------------------------ batched Hypothesis driver
def run_hypothesis_batched(unit, sub, strategy, check_fn, max_examples, batch=6, seed_offset=0):
    """same contract as verifpy.run_hypothesis, but Hypothesis draws `batch` cases at a time which are
    checked concurrently (each check spends its time waiting for mtest processes).  A failing case is
    shrunk by Hypothesis (the other members of the batch shrink to trivial passing cases) and recorded
    alone, so that the replay file holds a single case for `replay_main`."""
    from hypothesis import given, settings, seed, HealthCheck, Phase, strategies as st
    from verifpy import SEED, JOBS, Reject
    last = {}
    done = [0]
    # lists of 1..batch cases (so that a failing batch shrinks to a single case at once); the number
    # of generated cases is exactly max_examples: the last batch is truncated, later ones are skipped
    nb = max(1, max_examples)
    jobs = max(1, min(batch, JOBS, 8))

    def one(c):
        try:
            return check_fn(c)
        except Reject:
            return None

    @seed(SEED + seed_offset)
    @settings(max_examples=nb, database=None, deadline=None, derandomize=False, report_multiple_bugs=False,
              suppress_health_check=list(HealthCheck),
              phases=[Phase.generate] if os.environ.get("VERIF_NO_SHRINK") == "1" else [Phase.generate, Phase.shrink])
    @given(st.lists(strategy, min_size=1, max_size=batch))
    def prop(cases):
        if "case" not in last:
            if done[0] >= max_examples:
                return
            cases = cases[:max_examples - done[0]]
            done[0] += len(cases)
        rs = parallel_map(one, cases, jobs=jobs)
        bad = None
        for c, r in zip(cases, rs):
            if r is None:
                if "case" not in last:
                    unit.discard(sub)
            elif r.ok:
                if "case" not in last:
                    unit.case(sub, c, r.nontrivial, r.classes, r.errs, r.sample)
            elif unit.is_known(r.key):
                if "case" not in last:
                    unit.fail(sub, r.key, r.msg, c)
            elif bad is None:
                bad = (c, r)
        if bad is not None:
            saved = bad[0]
            if isinstance(saved, dict) and bad[1].sample is not None:
                # informational copy of the generated input file(s): the replay re-generates them from the case
                saved = dict(saved)
                saved["_generated"] = bad[1].sample
            last["case"], last["key"], last["msg"] = saved, bad[1].key, bad[1].msg
            raise AssertionError(bad[1].key + ": " + str(bad[1].msg))

    try:
        prop()
    except AssertionError:
        pass
    except Exception as e:
        if "case" not in last:
            unit.note("hypothesis: %s: %s" % (type(e).__name__, str(e)[:300]))
    if "case" in last:
        unit.fail(sub, last["key"], last["msg"], last["case"])


# ------------------------------------------------------------------ problem strategies (Hypothesis)
ACCELERATION_ALGORITHMS = {
    # names registered in mtest/src/AccelerationAlgorithmFactory.cxx : parameters accepted by setParameter
    "Cast3M": {"AccelerationTrigger": (3, 8), "AccelerationPeriod": (1, 4)},
    "Secant": {"AccelerationTrigger": (3, 8)},
    "AlternateSecant": {"AccelerationTrigger": (3, 8)},
    "AlternateDelta2": {"AccelerationTrigger": (3, 8)},
    "Alternate2Delta": {"AccelerationTrigger": (3, 8)},
    "CrossedSecant": {"AccelerationTrigger": (3, 8)},
    "CrossedDelta2": {"AccelerationTrigger": (3, 8)},
    "Crossed2Delta": {"AccelerationTrigger": (3, 8)},
    "Crossed2Deltabis": {"AccelerationTrigger": (3, 8)},
    "Steffensen": {"AccelerationTrigger": (3, 8)},
    "IronsTuck": {"AccelerationTrigger": (3, 8)},
    "UAnderson": {"MethodOrder": (1, 5), "AccelerationPeriod": (1, 4)},
    "FAnderson": {"MethodOrder": (1, 5), "AccelerationPeriod": (1, 4)},
}
PREDICTION_POLICIES = ["NoPrediction", "LinearPrediction", "ElasticPrediction", "SecantOperatorPrediction",
                       "TangentOperatorPrediction"]
STIFFNESS_TYPES = ["Elastic", "SecantOperator", "TangentOperator", "ConsistentTangentOperator"]
ROUNDING_MODES = ["ToNearest", "UpWard", "DownWard", "TowardZero", "Random"]


def stress_scale(b, mp):
    if b == "VNorton":
        return mp["ReferenceStress"]
    if b == "VPlasticity":
        return mp["InitialYieldStress"]
    if b == "VKinematic":
        return YIELD[b]
    return 100e6


def young_modulus(b, mp):
    return mp.get("YoungModulus", YOUNG.get(b))


def st_times(draw, st, T, t0, max_periods=6, max_sub=4):
    n = draw(st.integers(1, max_periods))
    w = [draw(st.floats(0.05, 1.0)) for _ in range(n)]
    s = sum(w)
    times, acc = [t0], 0.
    for x in w:
        acc += x
        times.append([t0 + T * acc / s, draw(st.integers(1, max_sub))])
    return times


def st_evolution(draw, st, amp, T, t0, zero_start=None):
    kind = draw(st.sampled_from(["lpi", "lpi", "lpi", "lpi", "fun", "fun", "const"]))
    if kind == "const":
        return {"type": "const", "v": amp * draw(st.floats(0.1, 1.0))}
    if kind == "fun":
        f = draw(st.sampled_from(sorted(FUNCTIONS)))
        lo = 0.5 if f in ("sq", "lin") else 0.1
        return {"type": "fun", "f": f, "a": amp, "b": T * draw(st.floats(lo, 2.0))}
    n = draw(st.integers(2, 6))
    ts = sorted(x / 1000. for x in set(draw(st.lists(st.integers(-300, 1300), min_size=n, max_size=n, unique=True))))
    # the table points are separated by at least 1e-3 T
    pts, lastt = [], None
    zs = draw(st.booleans()) if zero_start is None else zero_start
    for i, x in enumerate(ts):
        t = t0 + T * x
        if lastt is not None and t - lastt < 1e-3 * T:
            continue
        v = 0. if (i == 0 and zs) else amp * draw(st.integers(-1000, 1000)) / 1000.
        pts.append([t, v])
        lastt = t
    if len(pts) < 2:
        pts.append([pts[0][0] + 0.5 * T, amp])
    return {"type": "lpi", "pts": pts}


def st_problem(st, behaviours=None, max_periods=6, max_sub=4, amp_max=4.0):
    """composite strategy of well-posed MTest problems: behaviour x hypothesis x mixed strain/stress loading
    paths x time grid.  Stress amplitudes stay below 1.6 x the yield (reference) stress, strain amplitudes
    below amp_max x the yield strain, the hardening moduli are >= 5 GPa: the problems have a unique solution."""

    @st.composite
    def pb(draw):
        b = draw(st.sampled_from(list(behaviours or SOURCES)))
        h = draw(st.sampled_from(SUPPORTED[b]))
        mp = {k: draw(st.floats(lo, hi)) for k, (lo, hi) in MATERIAL_PROPERTIES[b].items()}
        T = 10 ** draw(st.floats(0., 3.))
        t0 = draw(st.sampled_from([0., 0., 0.1, -0.05])) * T
        S = stress_scale(b, mp)
        E = young_modulus(b, mp)
        loads = []
        for c in LOADABLE[h]:
            k = draw(st.sampled_from(["strain", "strain", "stress", "stress", "free"]))
            if k == "free":
                continue
            sgn = draw(st.sampled_from([-1., 1.]))
            if k == "strain":
                amp = sgn * (S / E) * draw(st.floats(0.1, amp_max))
            else:
                amp = sgn * S * draw(st.floats(0.1, 1.6))
            loads.append({"comp": c, "kind": k, "ev": st_evolution(draw, st, amp, T, t0)})
        if not loads:
            loads.append({"comp": LOADABLE[h][0], "kind": "strain",
                          "ev": st_evolution(draw, st, (S / E) * draw(st.floats(0.1, amp_max)), T, t0)})
        return {"behaviour": b, "hypothesis": h, "mp": mp, "loads": loads,
                "times": st_times(draw, st, T, t0, max_periods, max_sub)}

    return pb()


# ------------------------------------------------------------------ PipeTest helpers
def parse_profile(path):
    """profile file written by @Profile: returns [(time, [[r, v1, v2, ...], ...]), ...]"""
    blocks = []
    with open(path) as f:
        for l in f:
            l = l.strip()
            if not l:
                continue
            if l.startswith("#Time"):
                blocks.append((float(l.split()[1]), []))
            elif l.startswith("#"):
                continue
            else:
                blocks[-1][1].append([float(x) for x in l.split()])
    return blocks


def lame(Ri, Re, Pi, Pe, E, nu, axial, value=0.):
    """closed-form solution of the elastic isotropic thick-walled cylinder under generalised plane strain
    (uniform axial strain ezz).  axial in {"None", "EndCapEffect", "ImposedAxialForce", "ImposedAxialGrowth"};
    value = axial force (tension > 0) or axial strain.  Evaluated with fractions-free long arithmetic in
    python floats (relative rounding error ~1e-15, far below the discretisation errors that are compared).
    returns dict(A, B, ezz, szz, srr(r), stt(r), ur(r))"""
    d = Re * Re - Ri * Ri
    A = (Pi * Ri * Ri - Pe * Re * Re) / d
    B = (Pi - Pe) * Ri * Ri * Re * Re / d
    if axial == "None":
        szz = 0.
    elif axial == "EndCapEffect":
        szz = A
    elif axial == "ImposedAxialForce":
        szz = value / (math.pi * d)
    elif axial == "ImposedAxialGrowth":
        szz = 2 * nu * A + E * value
    else:
        raise ValueError(axial)
    ezz = (szz - 2 * nu * A) / E

    def srr(r):
        return A - B / (r * r)

    def stt(r):
        return A + B / (r * r)

    def ur(r):
        return r * (stt(r) - nu * (srr(r) + szz)) / E

    return {"A": A, "B": B, "ezz": ezz, "szz": szz, "srr": srr, "stt": stt, "ur": ur}


# ------------------------------------------------------------------ comparison of two result files (C49 band)
def smallest_modulus(pb):
    b, mp = pb["behaviour"], pb["mp"]
    E = young_modulus(b, mp)
    if b == "VPlasticity":
        return min(0.3 * E, mp["HardeningSlope"])
    if b == "VKinematic":
        return 6e9
    return 0.3 * E


def column_kinds(pb, names):
    ncomp = len(HYPOTHESES[pb["hypothesis"]][0])
    kinds = []
    for i, n in enumerate(names):
        if i == 0:
            kinds.append("time")
        elif i <= ncomp:
            kinds.append("strain")
        elif i <= 2 * ncomp:
            kinds.append("stress")
        elif "energy" in n:
            # (sic: the header says 'disspated energy')
            kinds.append("dissipated_energy" if ("disspated" in n or "dissipated" in n) else "energy")
        else:
            kinds.append("strain")  # the internal state variables of the library are strains
    return kinds


def convergence_band(pb, R, nsteps, eeps, seps):
    """band (C = 1) within which two converged computations of the same problem agree:
    stress columns (E eeps + seps) n_steps, strain-like columns the same / smallest tangent modulus,
    energies stress band x max|strain| + strain band x max|stress|"""
    ncomp = len(HYPOTHESES[pb["hypothesis"]][0])
    E = young_modulus(pb["behaviour"], pb["mp"])
    maxe = max([abs(x) for row in R.rows for x in row[1:1 + ncomp]] + [1e-12])
    maxs = max([abs(x) for row in R.rows for x in row[1 + ncomp:1 + 2 * ncomp]] + [1.])
    bs = (E * eeps + seps) * max(1, nsteps)
    be = bs / smallest_modulus(pb)
    tmax = max([abs(row[0]) for row in R.rows] + [1e-300])
    return {"stress": bs, "strain": be, "energy": bs * maxe + be * maxs, "dissipated_energy": bs * maxe + be * maxs,
            "time": 1e-14 * tmax}


def compare_results(pb, R, P, nsteps, eeps, seps, cband, errs=None, tag="", skip=()):
    """returns None when every column of every row agrees within cband x band, else (kind, message);
    the columns whose kind is listed in `skip` are not compared"""
    kinds = column_kinds(pb, R.names)
    band = convergence_band(pb, R, nsteps, eeps, seps)
    if len(R.rows) != len(P.rows):
        return "rows", "%d rows against %d" % (len(R.rows), len(P.rows))
    for ra, rb in zip(R.rows, P.rows):
        if len(ra) != len(rb):
            return "rows", "rows of different lengths at t=%r" % ra[0]
        for i, (x, y) in enumerate(zip(ra, rb)):
            k = kinds[i]
            if k in skip:
                continue
            tol = cband * band[k] + 4e-15 * max(abs(x), abs(y))
            e = abs(x - y)
            if not (e <= tol):  # also catches NaN
                return k, "t=%r column %s: %r against %r (|diff| %.3g > band %.3g)" % (ra[0], R.names[i], x, y, e, tol)
            if errs is not None:
                errs[k + tag] = max(errs.get(k + tag, 0.), e / tol)
    return None


# ------------------------------------------------------------------ known finding: end of period missed
# GenericSolver::execute (GenericSolver.cxx:258,295) ends a period when |te - t| < 100 eps (te - ti): the slack is
# relative to the length of the period although the rounding error of the accumulated time `t += dt` is relative to
# |t|.  After a rejected step (dt halved, then 2^k additions) t can sit a few ulp(t) before te; when
# te - ti <~ 0.03 |te| that is more than the slack, the loop performs one more sub-step of length dt beyond te and
# the state printed at te is the state at te + dt (findings/pending/C48.json).
SHORT_PERIOD_RATIO = 0.05


def is_short_period(ti, te):
    return (te - ti) < SHORT_PERIOD_RATIO * max(abs(ti), abs(te))


def has_short_period(times):
    return any(is_short_period(a, b) for a, b in zip(times, times[1:]))


def has_missed_end_signature(instants):
    """accepted instants of an EveryPeriod result file: an accepted sub-step within a few ulp before the next instant"""
    return any(0 < (b - a) < 1e-13 * max(abs(a), abs(b)) for a, b in zip(instants, instants[1:]))
