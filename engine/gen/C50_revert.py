#!/usr/bin/env python3-vt
"""C50 - a rejected MTest step leaves no trace (differential, fault injection).

The behaviours of the library carry a fault script: a process-global counter of the calls of the behaviour
integration; the call indices listed in the environment variable VERIF_FAULTS report a failure, which makes
GenericSolver::execute revert the state and retry with a smaller step.

  run A : the problem with faults, @OutputFrequency 'EveryPeriod', @OutputFilePrecision 17: its result file lists
          every accepted instant (requested times and accepted sub-steps), exactly;
          the log (--verbose=level1) gives the number of rejected steps;
  run B : the same problem, no fault, @Times = exactly the accepted instants of A.
Oracle: A and B agree on every column of every row (strains, stresses, internal state variables, energies at the
accepted instants) within the C49 band (C (E eeps + seps) n_steps for stresses, / smallest tangent modulus for
strain-like columns); A's counters are consistent (periods = accepted instants - 1, sub-steps = number of
"Dividing/Reducing time step" events >= 1 when a fault index was reached); B needs no sub-step.

sub "enumeration" (level fault_enumeration): on fixed small problems (4 requested periods, 3..6 iterations each;
Norton / J2 isotropic / J2 kinematic, mixed control so that Lagrange multipliers exist, with and without an
acceleration algorithm and @DynamicTimeStepScaling) EVERY single fault position k in [0, number of integration calls)
and every nested pair (k, k+1) is run.
sub "random": Hypothesis-generated histories (mtest_gen.st_problem on history dependent behaviours), 1..4 faults incl.
nested ones, @MaximumNumberOfSubSteps 2..12, with / without @DynamicTimeStepScaling, acceleration algorithms,
stiffness types, natural non-convergence (@MaximumNumberOfIterations small).
"""
import re
import sys

from hypothesis import strategies as st

from verifpy import Unit, Result, Reject, replay_main, replay_requested, load_replay, param, SEED
import mtest_gen as g

U = Unit("C50_revert")
EEPS, SEPS = 1e-12, 1e-3
CBAND = param("cband", 1.)
HISTORY = ["VNorton", "VPlasticity", "VKinematic"]

LIBS = {}


def libs():
    if not LIBS:
        LIBS.update(g.build_library())
    return LIBS


def option_lines(o, times, every_period, precision=17):
    L = [["@OutputFilePrecision", str(precision)], ["@StrainEpsilon", g.fmt(EEPS)], ["@StressEpsilon", g.fmt(SEPS)],
         ["@MaximumNumberOfSubSteps", str(o.get("substeps", 10))]]
    if "stiffness" in o:
        L.append(["@StiffnessMatrixType", "'%s'" % o["stiffness"]])
    if "prediction" in o:
        L.append(["@PredictionPolicy", "'%s'" % o["prediction"]])
    if "accel" in o:
        L.append(["@AccelerationAlgorithm", "'%s'" % o["accel"][0]])
        for k, v in o["accel"][1].items():
            L.append(["@AccelerationAlgorithmParameter", "'%s' %d" % (k, v)])
    if "itermax" in o:
        L.append(["@MaximumNumberOfIterations", str(o["itermax"])])
    if o.get("dynamic"):
        L.append(["@DynamicTimeStepScaling", "true"])
    if every_period:
        L.append(["@OutputFrequency", "'EveryPeriod'"])
    return L


def run_pair(pb, o, faults):
    """returns (Result or None, info): None = pair agrees"""
    b, h = pb["behaviour"], pb["hypothesis"]
    lib = libs()[b]
    times = g.expand_times(pb["times"]) if "times" in pb else list(pb["times_list"])
    pa = dict(pb)
    pa["options"] = option_lines(o, times, True)
    ta = g.mtest_text(pa, lib)
    env = {"VERIF_FAULTS": ",".join(str(k) for k in faults)} if faults else None
    ra = g.run_mtest(ta, name="c50a", env_extra=env, verbose="level1")
    sample = {"A": ta, "faults": list(faults)}
    info = {"classes": ["behaviour." + b, "hypothesis." + h]}
    if ra["status"] in ("crash", "timeout"):
        return Result(False, "C50.%s" % ra["status"], "run A rc=%s: %s" % (ra["rc"], ra["out"][-500:]), sample=sample), info
    if ra["status"] != "ok" or ra["res"] is None:
        w = ra["what"] or ""
        if "sub stepping" in w or "minimal value" in w:
            info["classes"].append("inconclusive.A_not_converged")
            return None, info
        return Result(False, "C50.harness.rejected_input", "run A rejected: %s" % w[:300], sample=sample), info
    A = ra["res"]
    inst = [row[0] for row in A.rows]
    rejected = len(re.findall(r"Dividing time step by two|Reducing time step by a factor", ra["out"]))
    injected = ra["out"].count("behaviour intregration failed")
    m = re.search(r"-number of sub-steps:\s*(\d+)", ra["out"])
    nsub = int(m.group(1)) if m else -1
    m = re.search(r"-number of period:\s*(\d+)", ra["out"])
    nper = int(m.group(1)) if m else -1
    info.update(rejected=rejected, injected=injected, instants=len(inst), missed_end=g.has_missed_end_signature(inst))
    # ---- A's own book-keeping
    for x, y in zip(inst, inst[1:]):
        if not y > x:
            return Result(False, "C50.instants.not_increasing", "accepted instants %r then %r" % (x, y), sample=sample), info
    tol_t = 1e-14 * max(abs(t) for t in times)
    j = 0
    for t in times:
        while j < len(inst) and abs(inst[j] - t) > tol_t:
            j += 1
        if j == len(inst):
            return Result(False, "C50.instants.requested_time_missing", "requested time %r is not an accepted instant" % t, sample=sample), info
    if nsub != rejected:
        return Result(False, "C50.counters.substeps", "%d rejected steps in the log, 'number of sub-steps' = %d" % (rejected, nsub), sample=sample), info
    if nper != len(inst) - 1:
        return Result(False, "C50.counters.periods", "%d accepted instants, 'number of period' = %d" % (len(inst), nper), sample=sample), info
    if injected > rejected:
        return Result(False, "C50.counters.failure_not_rejected", "%d integration failures but %d rejected steps" % (injected, rejected), sample=sample), info
    # ---- B: same problem, no fault, the accepted instants as requested times
    pbb = {k: v for k, v in pb.items() if k != "times"}
    pbb["times_list"] = inst
    ob = dict(o)
    ob["substeps"] = 1
    pbb["options"] = option_lines(ob, inst, False)
    tb = g.mtest_text(pbb, lib)
    sample["B"] = tb
    rb = g.run_mtest(tb, name="c50b", verbose="level1")
    if rb["status"] in ("crash", "timeout"):
        return Result(False, "C50.%s" % rb["status"], "run B rc=%s: %s" % (rb["rc"], rb["out"][-500:]), sample=sample), info
    if rb["status"] != "ok" or rb["res"] is None:
        w = rb["what"] or ""
        if "sub stepping" in w or "minimal value" in w:
            # B starts every step from the same state as A did: it is expected to converge where A converged,
            # but the property only speaks of results
            info["classes"].append("inconclusive.B_not_converged")
            return None, info
        return Result(False, "C50.harness.rejected_input", "run B rejected: %s" % w[:300], sample=sample), info
    B = rb["res"]
    errs = {}
    bad = g.compare_results(pb, A, B, len(inst) - 1, EEPS, SEPS, CBAND, errs)
    info["errs"] = errs
    if bad is not None:
        return Result(False, "C50.trace.%s" % bad[0], "with faults %s (A) against direct run on the accepted instants (B): %s" % (
            list(faults), bad[1]), sample=sample), info
    pcols = [i for i, n in enumerate(A.names) if "Equivalent" in n]
    info["inelastic"] = any(abs(A.rows[-1][i]) > 1e-8 for i in pcols)
    # a rejected step after at least one accepted step
    first_rej = ra["out"].find("Dividing time step by two")
    if first_rej < 0:
        first_rej = ra["out"].find("Reducing time step by a factor")
    info["state_to_restore"] = rejected > 0 and ra["out"].find("convergence, after") < first_rej and ra["out"].find("convergence, after") >= 0
    if rejected:
        info["classes"].append("rejected_steps")
    if rejected >= 2:
        info["classes"].append("several_rejections")
    return None, info


# ------------------------------------------------------------------ random histories
def case_strategy():
    @st.composite
    def opt(draw):
        o = {"substeps": draw(st.integers(2, 12))}
        if draw(st.booleans()):
            o["stiffness"] = draw(st.sampled_from(["Elastic", "SecantOperator", "ConsistentTangentOperator"]))
        if draw(st.integers(0, 2)) == 0:
            o["prediction"] = draw(st.sampled_from(["NoPrediction", "LinearPrediction", "ElasticPrediction"]))
        if draw(st.integers(0, 2)) == 0:
            a = draw(st.sampled_from(sorted(g.ACCELERATION_ALGORITHMS)))
            o["accel"] = [a, {k: draw(st.integers(lo, hi)) for k, (lo, hi) in g.ACCELERATION_ALGORITHMS[a].items()}]
        if draw(st.integers(0, 3)) == 0:
            o["itermax"] = draw(st.integers(3, 10))
        o["dynamic"] = draw(st.booleans())
        f = set()
        for _ in range(draw(st.integers(1, 4))):
            k = draw(st.integers(0, 40))
            f.add(k)
            if draw(st.booleans()):
                f.add(k + 1)
        return {"opt": o, "faults": sorted(f)}

    return st.tuples(g.st_problem(st, behaviours=HISTORY, max_periods=5, max_sub=3), opt()).map(
        lambda t: {"pb": t[0], "opt": t[1]["opt"], "faults": t[1]["faults"]})


KNOWN_MISSED_END = "C50.end_of_period_missed.short_period_substepped"


def keyed(r, info, o):
    """known class (findings/pending/C50.json, same defect as C48's): without dynamic time step scaling, A accepted a
    sub-step a few ulp before a requested time and then stepped beyond it (two accepted instants closer than
    1e-13 |t|): whatever is observed afterwards (difference with B, B rejecting the too close times) is that finding"""
    if r is not None and not r.ok and info.get("missed_end") and not o.get("dynamic"):
        r.msg = "[%s] %s" % (r.key, r.msg)
        r.key = KNOWN_MISSED_END
    return r


def check_case(case):
    r, info = run_pair(case["pb"], case["opt"], case["faults"])
    r = keyed(r, info, case["opt"])
    if r is not None:
        return r
    classes = list(info["classes"])
    if case["opt"].get("dynamic"):
        classes.append("dynamic_time_step")
    if "accel" in case["opt"]:
        classes.append("acceleration")
    kinds = set(ld["kind"] for ld in case["pb"]["loads"])
    if len(kinds) == 2:
        classes.append("control.mixed")
    nt = bool(info.get("state_to_restore") and info.get("inelastic"))
    return Result(True, nontrivial=nt, classes=classes, errs=info.get("errs"))


# ------------------------------------------------------------------ exhaustive single fault enumeration
def fixed_problems():
    T = [0., [1., 1], [2., 1], [3., 1], [4., 1]]
    P = []
    mps = {"VNorton": {"YoungModulus": 150e9, "PoissonRatio": 0.3, "NortonCoefficient": 2e-4, "NortonExponent": 4., "ReferenceStress": 100e6},
           "VPlasticity": {"YoungModulus": 150e9, "PoissonRatio": 0.3, "HardeningSlope": 10e9, "InitialYieldStress": 100e6},
           "VKinematic": {}}
    for b in HISTORY:
        loads = [{"comp": 0, "kind": "strain", "ev": {"type": "lpi", "pts": [[0., 0.], [1.5, 2e-3], [4., -1e-3]]}},
                 {"comp": 1, "kind": "stress", "ev": {"type": "lpi", "pts": [[0., 0.], [4., 60e6]]}},
                 {"comp": 3, "kind": "strain", "ev": {"type": "fun", "f": "sin", "a": 5e-4, "b": 1.5}}]
        P.append({"behaviour": b, "hypothesis": "Tridimensional", "mp": mps[b], "loads": loads, "times": T})
    opts = [{"substeps": 6},
            {"substeps": 6, "stiffness": "Elastic", "accel": ["Cast3M", {"AccelerationTrigger": 3, "AccelerationPeriod": 2}]},
            {"substeps": 6, "dynamic": True, "accel": ["UAnderson", {"MethodOrder": 3, "AccelerationPeriod": 1}],
             "stiffness": "SecantOperator"},
            {"substeps": 6, "prediction": "LinearPrediction"}]
    return P, opts


def enumeration_points(tier_all):
    """[(problem index, option index, faults)]: every single fault position and every nested pair"""
    P, opts = fixed_problems()
    pts = []
    combos = [(i, j) for i in range(len(P)) for j in range(len(opts))]
    if not tier_all:
        # quick: each behaviour with 1 of the 4 option sets (rotating with the seed)
        combos = [(i, (i + SEED) % len(opts)) for i in range(len(P))]
    return P, opts, combos


def check_enum_case(c):
    P, opts = fixed_problems()
    r, info = run_pair(P[c["problem"]], opts[c["options"]], c["faults"])
    r = keyed(r, info, opts[c["options"]])
    if r is not None:
        return r
    return Result(True, nontrivial=bool(info.get("state_to_restore") and info.get("inelastic")),
                  classes=info["classes"] + ["options.%d" % c["options"], "faults.%d" % len(c["faults"])], errs=info.get("errs"))


def run_enumeration():
    P, opts, combos = enumeration_points(param("all_combinations", False))
    work = []
    for i, j in combos:
        # number of integration calls of the fault-free run
        pa = dict(P[i])
        times = g.expand_times(pa["times"])
        pa["options"] = option_lines(opts[j], times, False)
        r0 = g.run_mtest(g.mtest_text(pa, libs()[pa["behaviour"]]), name="c50n", verbose="level1")
        m = re.search(r"-number of iterations:\s*(\d+)", r0["out"])
        if r0["status"] != "ok" or not m:
            U.note("enumeration: fault-free run of problem %d options %d did not complete" % (i, j))
            continue
        n = int(m.group(1))
        U.extra.setdefault("enumeration_calls", {})["%d.%d" % (i, j)] = n
        cap = param("max_positions", 0)
        if cap and n > cap:
            U.note("enumeration: problem %d options %d has %d integration calls, positions limited to the first %d" % (i, j, n, cap))
            n = cap
        for k in range(n):
            work.append({"problem": i, "options": j, "faults": [k]})
        for k in range(n):
            work.append({"problem": i, "options": j, "faults": [k, k + 1]})
    results = g.parallel_map(lambda c: (c, check_enum_case(c)), work, jobs=param("jobs", 6))
    for c, r in results:
        if r.ok:
            U.case("enumeration", c, r.nontrivial, r.classes, r.errs)
        else:
            saved = dict(c)
            saved["_generated"] = r.sample
            U.fail("enumeration", r.key, r.msg, saved)


replay_main({"random": check_case, "enumeration": check_enum_case})

if __name__ == "__main__":
    try:
        libs()
    except RuntimeError as e:
        print("C50: cannot build the behaviour library: %s" % e)
        sys.exit(2)
    if SEED < 1000 or SEED % 1000 == 0:
        # the enumeration is deterministic: of the shards of a thorough run (seed*1000+k) only the first one runs it
        run_enumeration()
    g.run_hypothesis_batched(U, "random", case_strategy(), check_case, max_examples=param("cases", 40), batch=param("batch", 6))
    sys.exit(U.finish())
