#!/usr/bin/env python3
"""C13 engine B (rejection half): libFuzzer campaign on tfel::math::Evaluator (asan tree).

The fuzz input is the formula text; the dictionary is the evaluator's alphabet; the oracle
(sanitizers + differential with a strict recursive-descent parser + lexical/bracketing
criteria) sits inside engine/fuzz/C13_evaluator_fuzz.cxx."""
import os, random, sys
sys.path.insert(0, os.path.join(os.path.dirname(os.path.abspath(__file__)), "..", "common"))
from verifpy import *
import fuzzpy

SRC = os.path.join(VERIF, "engine", "fuzz", "C13_evaluator_fuzz.cxx")
LIBS = ["TFELMathParser", "TFELMathKriging", "TFELMath", "TFELException", "TFELUtilities", "TFELUnicodeSupport"]

FUNS1 = ["exp", "exp2", "expm1", "cbrt", "abs", "sqrt", "ln", "log", "log10", "log2", "log1p", "cosh", "sinh", "tanh",
         "acosh", "asinh", "atanh", "sin", "cos", "tan", "acos", "asin", "atan", "erf", "erfc", "tgamma", "lgamma", "H"]
FUNS2 = ["max", "min", "hypot", "atan2"]
CSTS = ["AtomicMassConstant", "mu", "AvogadroConstant", "Na", "BoltzmannConstant", "kb", "ConductanceQuantum", "G0",
        "ElectricConstant", "e0", "ElectronMass", "me", "ElectronVolt", "eV", "ElementaryCharge", "e", "FaradayConstant",
        "F", "FineStructureConstant", "a", "MolarGasConstant", "R", "StefanBoltzmannConstant", "s"]

SEEDS = [
    "x", "1.5", "x+y*z", "(x+y)*z", "x/y-z", "-x**2", "x**-2", "2**x", "x**y", "x*-y", "x/-y", "-(x+y)", "1e-3*x", "1.E+4", ".5*x", "2.*y",
    "sin(x)+cos(y)*tan(z)", "sqrt(abs(x))", "exp(-x/(Cste::R*y))", "max(x,y)", "min(x,1)", "hypot(x,y)", "atan2(y,x)",
    "power<3>(x)", "power<-2>(y)", "power<16>(x+1)", "x>1 ? y : z", "x>1&&y<2 ? x : y", "x<1||y>2||z==1 ? 1 : 0",
    "!(x>1) ? 1 : 2", "(x>1&&y>2)||z>1 ? 1 : 2", "x>1 ? (y>1 ? 1 : 2) : 3", "1+(x>2 ? 3 : 4)", "H(x)*x", "ln(x)+log(y)+log10(z)",
    "x*(y+1)>(1) ? 1 : 2", "max(x>1 ? 2 : 3, 1)", "diff(x*x*y,x)", "diff<2>(sin(x),x)", "diff(x*y,x,y)", "x - (y - 1)", "x-y-1", "x/y/3",
    "tgamma(x)+lgamma(y)", "erf(x)-erfc(y)", "cbrt(x)*exp2(y)+expm1(z)", "acosh(x+2)+asinh(y)+atanh(z/4)", "x>=y ? x : y", "x<=y ? x : y",
    "2**0.5", "x**0", "x**17", "x**-17", "x**(1+1)", "Cste::kb*Cste::Na", "x>1 ? 2 : Cste::R", "x ⋅ y", "1/2*x", "((x))", "x+y-z*x/y**2",
]


def build():
    ld = fuzzpy.asan_libdirs()
    libs = [l for l in LIBS if l in ld]
    exe, err = fuzzpy.build_target(SRC, "C13_evaluator_fuzz", libs, includes=[os.path.join(VERIF, "engine", "rc")])
    if exe is None:
        print("BUILD FAILED\n" + err)
        sys.exit(2)
    return exe


def confirm(exe, art):
    n, txt, first = 0, "", ""
    for _ in range(3):
        failed, txt = fuzzpy.rerun(exe, art, timeout=60)
        if failed:
            n += 1
            first = first or txt
    return n == 3, fuzzpy.summarise(first or txt)


def key_of(kind, summary):
    if "ORACLE-FAILURE" in summary:
        return summary.split("ORACLE-FAILURE ")[1].split(":")[0].strip()
    return "C13.fuzz." + kind


def main():
    exe = build()
    rp = replay_requested()
    if rp:
        failed, txt = fuzzpy.rerun(exe, rp, timeout=60, env={"VERIF_FUZZ_NO_EXCLUSION": "1"})
        print(("REPLAY-FAILS " if failed else "REPLAY-PASSES ") + fuzzpy.summarise(txt))
        sys.exit(1 if failed else 0)
    u = Unit("C13_fuzz")
    rng = random.Random(SEED)
    sdir = os.path.join(WORK, "seeds")
    os.makedirs(sdir, exist_ok=True)
    seeds = list(SEEDS)
    rng.shuffle(seeds)
    sfiles = []
    for i, s in enumerate(seeds):
        p = os.path.join(sdir, "s%03d" % i)
        with open(p, "wb") as f:
            f.write(s.encode())
        sfiles.append(p)
    dpath = os.path.join(WORK, "dict.txt")
    toks = ["+", "-", "*", "/", "**", "(", ")", ",", "?", ":", "::", "<", ">", "<=", ">=", "==", "=", "&&", "||", "!", "&", "|",
            "Cste::", "power<", "power<2>(", "diff(", "diff<2>(", " ", "\\x09", "\\x0a", "1e", "e+", "E-", ".", "1.5", "0", "2", "16", "17",
            "x", "y", "z", "x[0]", "$", "_", "[", "]", "\\xe2\\x8b\\x85", "\\xcf\\x83", "#", "@", "{", "}", "^", "%", "~", "'", ";", "\\\\", "\\\""]
    toks += [f + "(" for f in FUNS1 + FUNS2] + ["Cste::" + c for c in CSTS]
    with open(dpath, "w") as f:
        for t in toks:
            if t == "\"":
                continue
            f.write("\"%s\"\n" % t)
    r = fuzzpy.campaign(exe, sfiles, runs=param("runs", 40000), jobs=min(JOBS, param("jobs", 4)),
                        max_len=param("max_len", 96), timeout=20, dict_path=dpath, tag="ev")
    fuzzpy.merge_stats(u, "text", r["stats"], r["executions"])
    u.extra["executions"] = r["executions"]
    seen = set()
    for art in r["artifacts"]:
        kind = fuzzpy.artifact_kind(art)
        if kind in ("oom", "slow-unit", "other"):
            u.note("ignored artifact %s (load noise)" % os.path.basename(art))
            continue
        ok3, summary = confirm(exe, art)
        if not ok3:
            u.note("artifact %s did not reproduce 3/3: %s" % (os.path.basename(art), summary))
            continue
        key = key_of(kind, summary)
        if key in seen:
            continue
        seen.add(key)
        dst = fuzzpy.save_artifact(u, art, REPLAY_DIR)
        text = open(art, "rb").read()[:300].decode(errors="replace")
        msg = "%s | input: %r" % (summary, text)
        if u.is_known(key):
            u.fail("text", key, msg, {"artifact": dst})
        else:
            u.failures.append({"sub": "text", "key": key, "msg": msg, "replay": dst})
            print("FALSIFIED key=%s %s replay=%s" % (key, msg, dst), flush=True)
    sys.exit(u.finish())


main()
