#!/usr/bin/env python3-vt
"""C44  Behaviour responses are frame- and hypothesis-consistent.

A small fixed family of generated behaviours (built once, content-hash cached) is
driven through the generic interface (ctypes) by Hypothesis-generated loadings:

  hyp_iso    isotropic behaviours (elasticity, Norton, J2 plasticity; bricks and the
             Isotropic* DSLs): a strain history representable in a small hypothesis is
             run in that hypothesis and in every larger one
             (AxisymmetricalGeneralisedPlaneStrain c Axisymmetrical c Tridimensional,
              PlaneStrain c GeneralisedPlaneStrain c Tridimensional): stresses, state
             variables and the consistent tangent operator sub-block must agree
             component-wise, components outside the small hypothesis must vanish.
  pstress    PlaneStress: sigma_zz = 0 and, feeding the exported `AxialStrain` back as
             eps_zz of a Tridimensional computation, same stresses / state.
  rot_iso    Tridimensional isotropic behaviours: response(Q eps Q^T) = Q response Q^T
             (stress, tensorial state variables, K; scalars unchanged).
  rot_fn     orthotropic behaviours, every hypothesis: the exported
             <b>_<h>_rotateGradients / rotateThermodynamicForces / rotateTangentOperatorBlocks
             (+ rotateArrayOf*, in place) against the numpy reference:
             rv = column-major R (v_material = R v_global, docs/web/generic-behaviours-interface.md),
             gradients: R e R^T, forces and operator: rotated back with R^T.
  ortho      orthotropic behaviours: global-frame response obtained through the exported
             functions == numpy rotations around a material-frame integration; the
             response is invariant under the orthotropic symmetry group (pi rotations
             about the material axes); hypothesis consistency under the orthotropic
             axes conventions (Pipe: 2nd and 3rd axes exchanged between the plane
             hypotheses and 3D; Plate / Default: no exchange) - TFEL/Material/OrthotropicAxesConvention.hxx.

Symmetric tensors are stored (xx,yy,zz,sqrt2 xy,sqrt2 xz,sqrt2 yz) (docs/web/tensors.md):
with this storage a rotation acts on the 6-vector through an orthogonal 6x6 matrix M(Q)
and on a st2tost2 as M K M^T; the reference builds M(Q) from 3x3 matrix products only.
"""
import ctypes as C
import json
import math
import os
import sys

sys.path.insert(0, os.path.join(os.path.dirname(os.path.abspath(__file__)), "..", "common"))
sys.path.insert(0, os.path.dirname(os.path.abspath(__file__)))
import numpy as np  # noqa: E402
from hypothesis import strategies as st  # noqa: E402

from verifpy import (Unit, Result, Reject, run_hypothesis, replay_main, SEED, TIER, JOBS, param, parallel_map)  # noqa: E402
import gb_iface as G  # noqa: E402

SQ2 = math.sqrt(2.0)
E0 = 150e9
H1D, HAXI, HPE, HGPE, HPS, H3D = ("AxisymmetricalGeneralisedPlaneStrain", "Axisymmetrical", "PlaneStrain",
                                  "GeneralisedPlaneStrain", "PlaneStress", "Tridimensional")
ALLH = [H1D, HAXI, HPE, HGPE, HPS, H3D]
TOL_STATE = 1.0e-7   # relative; worst observed over 10 seeds 3.2e-10 (see mutants/C44.md)
TOL_PS = 1.0e-6      # plane stress vs 3D (the axial strain is itself a converged unknown): worst observed 6e-9
TOL_K = 1.0e-6
TOL_ROT = 1.0e-12


# ----------------------------------------------------------------------------- programs
def _hyps(hs):
    return "@ModellingHypotheses {%s};" % ", ".join(hs)


def programs():
    P = {}
    head = lambda n, dsl, hs: "@DSL %s;\n@Behaviour %s;\n%s\n" % (dsl, n, _hyps(hs))
    imp = "@Epsilon 1.e-14;\n@IterMax 200;\n@Theta 1;\n"
    P["C44Elastic"] = dict(iso=True, hyps=ALLH, src=head("C44Elastic", "Implicit", ALLH) + imp +
                           "@Brick StandardElasticity{young_modulus : 150e9, poisson_ratio : 0.3};\n")
    P["C44Norton"] = dict(iso=True, visc=True, hyps=ALLH, src=head("C44Norton", "Implicit", ALLH) + imp +
                          '@Brick StandardElastoViscoPlasticity{\n  stress_potential : "Hooke" {young_modulus : 150e9, poisson_ratio : 0.3},\n'
                          '  inelastic_flow : "Norton" {criterion : "Mises", kinematic_hardening : "Armstrong-Frederick" {C : 30e9, D : 150},\n'
                          '    K : 100e6, n : 3.2}\n};\n')
    P["C44Plastic"] = dict(iso=True, hyps=ALLH, src=head("C44Plastic", "Implicit", ALLH) + imp +
                           '@Brick StandardElastoViscoPlasticity{\n  stress_potential : "Hooke" {young_modulus : 150e9, poisson_ratio : 0.25},\n'
                           '  inelastic_flow : "Plastic" {criterion : "Mises", isotropic_hardening : "Linear" {R0 : 150e6, H : 3e9},\n'
                           '    isotropic_hardening : "Voce" {R0 : 0, Rinf : 60e6, b : 150}, kinematic_hardening : "Prager" {C : 10e9}}\n};\n')
    h5 = [H1D, HAXI, HPE, HGPE, H3D]
    P["C44J2Dsl"] = dict(iso=True, hyps=h5, src=head("C44J2Dsl", "IsotropicPlasticMisesFlow", h5) +
                         "@Epsilon 1.e-14;\n@ElasticMaterialProperties {150e9, 0.3};\n@Parameter stress H = 4e9;\n@Parameter stress s0 = 140e6;\n"
                         "@FlowRule{\n  f = seq - H * p - s0;\n  df_dseq = 1;\n  df_dp = -H;\n}\n")
    P["C44CreepDsl"] = dict(iso=True, visc=True, hyps=h5, src=head("C44CreepDsl", "IsotropicMisesCreep", h5) +
                            "@Epsilon 1.e-14;\n@ElasticMaterialProperties {150e9, 0.3};\n@Parameter real A = 1e-2;\n@Parameter real En = 3.5;\n"
                            "@FlowRule{\n  const auto x = seq / 100e6;\n  const auto tmp = A * pow(x, En - 1);\n  f = tmp * x;\n  df_dseq = En * tmp / 100e6;\n}\n")
    ortho = ('@Brick StandardElastoViscoPlasticity{\n  stress_potential : "Hooke" {young_modulus1 : 150e9, young_modulus2 : 175e9, young_modulus3 : 110e9,\n'
             '    poisson_ratio12 : 0.3, poisson_ratio23 : 0.25, poisson_ratio13 : 0.2,\n'
             '    shear_modulus12 : 68e9, shear_modulus23 : 72e9, shear_modulus13 : 52e9},\n'
             '  inelastic_flow : "Norton" {criterion : "Hill" {F : 0.371, G : 0.629, H : 4.052, L : 1.3, M : 1.7, N : 2.1},\n'
             '    K : 120e6, n : 3.1}\n};\n')
    # <Plate> + orthotropic Hooke does not compile in the 2D hypotheses (incomplete type ComputeOrthotropicStiffnessTensor<
    # PLANESTRAIN, UNALTERED, PLATE>, StiffnessTensor.ixx:656: only PIPE specialisations exist): the Plate program uses an
    # isotropic elasticity, its orthotropy comes from the Hill criterion only (side observation in the report)
    hplate = [HPE, HGPE, HPS, H3D]
    ortho_plate = ortho.replace(ortho[ortho.index('"Hooke" {'):ortho.index("inelastic_flow")],
                                '"Hooke" {young_modulus : 150e9, poisson_ratio : 0.3},\n  ')
    P["C44OrthoPipe"] = dict(iso=False, visc=True, conv="Pipe", hyps=ALLH,
                             src=head("C44OrthoPipe", "Implicit", ALLH) + imp + "@OrthotropicBehaviour<Pipe>;\n" + ortho)
    P["C44OrthoPlate"] = dict(iso=False, visc=True, conv="Plate", hyps=hplate,
                              src=head("C44OrthoPlate", "Implicit", hplate) + imp + "@OrthotropicBehaviour<Plate>;\n" + ortho_plate)
    # without an axes convention an orthotropic stiffness is only accepted in 3D
    P["C44OrthoDefault"] = dict(iso=False, visc=True, conv="Default", hyps=[H3D],
                                src=head("C44OrthoDefault", "Implicit", [H3D]) + imp + "@OrthotropicBehaviour;\n" + ortho)
    for n, p in P.items():
        p["name"] = n
    return P


PROGS = programs()


# ----------------------------------------------------------------------------- reference algebra
def to_mat(v):
    """TFEL symmetric tensor vector (3, 4 or 6 components) -> 3x3"""
    v = list(v) + [0.0] * (6 - len(v))
    return np.array([[v[0], v[3] / SQ2, v[4] / SQ2], [v[3] / SQ2, v[1], v[5] / SQ2], [v[4] / SQ2, v[5] / SQ2, v[2]]])


def to_vec(m, n=6):
    v = np.array([m[0, 0], m[1, 1], m[2, 2], SQ2 * m[0, 1], SQ2 * m[0, 2], SQ2 * m[1, 2]])
    return v[:n]


def rot6(Q):
    """6x6 matrix M with vec(Q A Q^T) = M vec(A)"""
    M = np.zeros((6, 6))
    for k in range(6):
        e = np.zeros(6)
        e[k] = 1.0
        M[:, k] = to_vec(Q @ to_mat(e) @ Q.T)
    return M


def rotation(axis_angle, dim):
    """rotation matrix from a rotation vector; for dim 2 rotation about z, dim 1 identity"""
    if dim == 1:
        return np.eye(3)
    w = np.array(axis_angle, dtype=float)
    if dim == 2:
        w = np.array([0.0, 0.0, w[2]])
    a = float(np.linalg.norm(w))
    if a == 0:
        return np.eye(3)
    k = w / a
    Kx = np.array([[0, -k[2], k[1]], [k[2], 0, -k[0]], [-k[1], k[0], 0]])
    return np.eye(3) + math.sin(a) * Kx + (1 - math.cos(a)) * (Kx @ Kx)


# index of the components of a small hypothesis inside a larger one
def embed_index(hs, hb, conv=None):
    ns, nb = G.HYP[hs][1], G.HYP[hb][1]
    if ns == nb:
        return list(range(ns))
    if ns == 3 and nb == 4:
        return [0, 1, 2]
    if ns == 3 and nb == 6:
        return [0, 1, 2]
    if ns == 4 and nb == 6:
        if conv == "Pipe" and hs in (HPE, HGPE, HPS):
            return [0, 2, 1, 4]  # (rr,tt,zz,rt) -> 3D axes (r,z,t): xx, zz, yy, xz
        return [0, 1, 2, 3]
    raise ValueError((hs, hb))


CHAINS = [[H1D, HAXI, H3D], [HAXI, H3D], [HPE, HGPE, H3D], [HGPE, H3D]]


# ----------------------------------------------------------------------------- running
_libs = {}


def build_mutated(prog, mut):
    """sensitivity runs only (mutants/C44.md): emulate a mutant of mfront/src/*.cxx by rewriting the code it emits.
    VERIF_C44_MUTATE_EMITTED = 'regex=>replacement' applied to every generated .hxx/.cxx file"""
    import glob
    import hashlib
    import re
    from verifpy import WORK, mfront_generate, compile_generated
    pat, rep = mut.split("=>", 1)
    wd = os.path.join(WORK, "prog_mut", prog["name"] + "_" + hashlib.sha1(mut.encode()).hexdigest()[:8])
    os.makedirs(wd, exist_ok=True)
    src = os.path.join(wd, prog["name"] + ".mfront")
    open(src, "w").write(prog["src"])
    rc, so, se = mfront_generate(src, wd)
    if rc != 0:
        return None, "mfront failed: " + (so + se)[-1500:]
    n = 0
    for f in glob.glob(os.path.join(wd, "include", "TFEL", "Material", "*.hxx")) + glob.glob(os.path.join(wd, "src", "*.cxx")):
        txt = open(f).read()
        new, k = re.subn(pat, rep, txt)
        n += k
        if k:
            open(f, "w").write(new)
    print("mutation %r: %d substitutions in %s" % (mut, n, prog["name"]), flush=True)
    path, err = compile_generated(wd, prog["name"] + "_mut")
    if path is None:
        return None, "g++ failed: " + err
    return G.Library(path, prog["name"], prog["hyps"]), ""


def get_lib(name):
    if name not in _libs:
        p = PROGS[name]
        mut = os.environ.get("VERIF_C44_MUTATE_EMITTED", "")
        if mut:
            lib, err = build_mutated(p, mut)
        else:
            lib, err = G.build({"name": name, "src": p["src"], "hyps": p["hyps"]})
        if lib is None:
            raise RuntimeError("cannot build %s: %s" % (name, err))
        _libs[name] = lib
    return _libs[name]


def lib_of(case):
    """the replay file carries the program text: check it is the one we build"""
    name = case["prog"]
    if "src" in case and case["src"] != PROGS[name]["src"]:
        p = {"name": name, "src": case["src"], "hyps": case.get("hyps", PROGS[name]["hyps"])}
        lib, err = G.build(p)
        if lib is None:
            raise RuntimeError(err)
        return lib
    return get_lib(name)


def integrate(lib, h, steps, iv_init=None, stop_on_failure=True):
    """steps: list of (strain at end of step (n), dt).  returns list of dict(sig, iv, K, r) per step"""
    b = G.Buffers(lib, h)
    n = G.HYP[h][1]
    ev0, ev1 = np.full(4, 293.15), np.full(4, 293.15)
    b.d.s0.external_state_variables = G.dptr(ev0)
    b.d.s1.external_state_variables = G.dptr(ev1)
    b._keep = (ev0, ev1)
    if iv_init is not None:
        b.iv0[:len(iv_init)] = iv_init
    out = []
    for e1, dt in steps:
        b.g1[:n] = e1
        b.K[:] = 0
        b.K[0] = 4
        b.rdt[0] = 1
        b.iv1[:] = b.iv0
        b.tf1[:] = b.tf0
        r = G.call(lib, h, b, dt=dt)
        ok = r >= 0 and np.all(np.isfinite(b.tf1[:n])) and np.all(np.isfinite(b.iv1)) and np.all(np.isfinite(b.K[:n * n]))
        out.append({"r": r if ok else -2, "sig": b.tf1[:n].copy(), "iv": b.iv1.copy(), "K": b.K[:n * n].copy().reshape(n, n)})
        if not ok:
            if stop_on_failure:
                break
            continue
        b.g0[:n] = b.g1[:n]
        b.tf0[:] = b.tf1
        b.iv0[:] = b.iv1
    return out


def isv_map(lib, hs, hb, idx):
    """[(name, type, offset small, offset big, size small)] for the state variables present in both hypotheses"""
    os_, ob = lib.offsets(hs, "InternalStateVariables"), lib.offsets(hb, "InternalStateVariables")
    ms = lib.meta[hs]["InternalStateVariables"]
    out = []
    for nme, t in zip(ms["names"], ms["types"]):
        if nme in ob:
            out.append((nme, t, os_[nme][0], ob[nme][0], os_[nme][1]))
    return out


class Cmp:
    def __init__(self):
        self.err = {}
        self.bad = None

    def close(self, what, a, b, scale, tol):
        a, b = np.asarray(a, dtype=float), np.asarray(b, dtype=float)
        e = float(np.max(np.abs(a - b))) / scale if a.size else 0.0
        self.err[what] = max(self.err.get(what, 0.0), e / tol)
        if not (e <= tol) and self.bad is None:
            k = int(np.argmax(np.abs(a - b)))
            self.bad = (what, "%s: |a-b|/scale = %.3g > %.1g (entry %d: %.12g vs %.12g, scale %.3g)" % (what, e, tol, k, a.flat[k], b.flat[k], scale))


def loaded(steps, k):
    """False for a step without strain increment: after a plastic step the state sits on the yield surface and the
    elastic/plastic status of such a step (hence the tangent operator, which is discontinuous there) is decided by
    round-off.  The tangent operators of those steps are not compared (states are)."""
    prev = steps[k - 1][0] if k > 0 else 0 * steps[0][0]
    return float(np.max(np.abs(steps[k][0] - prev))) > 1.0e-8


def scales(res_list, steps):
    s = max([float(np.max(np.abs(r["sig"]))) for r in res_list] + [1.0])
    emax = max(float(np.max(np.abs(e))) for e, _ in steps)
    return max(s, 1e-3 * E0 * emax), max(emax, 1e-6)


def compare_embedded(c, tag, lib, hs, hb, rs, rb, idx, steps, with_K=True):
    """rs/rb: results in the small/big hypothesis; idx: position of the small components in the big tensor"""
    nb = G.HYP[hb][1]
    other = [i for i in range(nb) if i not in idx]
    for k, (a, b) in enumerate(zip(rs, rb)):
        if a["r"] < 0 or b["r"] < 0:
            break
        S, Se = scales([a, b], steps)
        c.close(tag + ".stress", a["sig"], b["sig"][idx], S, TOL_STATE)
        if other:
            c.close(tag + ".stress_out_of_subspace", b["sig"][other], 0 * b["sig"][other], S, TOL_STATE)
        for nme, t, o_s, o_b, sz in isv_map(lib, hs, hb, idx):
            if t == 0:
                sc = max(Se, abs(a["iv"][o_s]), abs(b["iv"][o_b]))
                c.close(tag + ".isv_scalar", [a["iv"][o_s]], [b["iv"][o_b]], sc, TOL_STATE)
            elif t == 1:
                vb = b["iv"][o_b:o_b + nb]
                sc = max(Se, float(np.max(np.abs(vb))))
                c.close(tag + ".isv_tensor", a["iv"][o_s:o_s + sz], vb[idx], sc, TOL_STATE)
                if other:
                    c.close(tag + ".isv_tensor_out_of_subspace", vb[other], 0 * vb[other], sc, TOL_STATE)
        if with_K and loaded(steps, k):
            Ks = max(float(np.max(np.abs(a["K"]))), float(np.max(np.abs(b["K"]))), 1.0)
            c.close(tag + ".K", a["K"], b["K"][np.ix_(idx, idx)], Ks, TOL_K)


def embed_steps(steps, idx, nb):
    out = []
    for e, dt in steps:
        E = np.zeros(nb)
        E[idx] = e
        out.append((E, dt))
    return out


def mk_steps(case, n):
    steps, e = [], np.zeros(n)
    for s in case["steps"]:
        e = e + np.array(s["de"][:n]) * case.get("amp", 1.0e-3)
        steps.append((e.copy(), s["dt"]))
    return steps


def finish(c, ok_steps, nontrivial, classes, key_prefix):
    if c.bad is not None:
        return Result(False, key=key_prefix + "." + c.bad[0], msg=c.bad[1], errs=c.err)
    return Result(True, nontrivial=nontrivial, classes=classes, errs=c.err)


def inelastic(lib, h, res):
    """some scalar state variable named Equivalent*Strain became positive"""
    off = lib.offsets(h, "InternalStateVariables")
    for nme, (o, sz) in off.items():
        if nme.startswith("Equivalent") and sz == 1 and res and res[-1]["r"] >= 0 and res[-1]["iv"][o] > 1e-7:
            return True
    return False


# ----------------------------------------------------------------------------- sub checks
def check_hyp_iso(case):
    lib = lib_of(case)
    chain = [h for h in CHAINS[case["chain"]] if h in lib.hyps]
    if len(chain) < 2:
        raise Reject()
    hs = chain[0]
    steps = mk_steps(case, G.HYP[hs][1])
    rs = integrate(lib, hs, steps)
    c = Cmp()
    nconv = sum(1 for r in rs if r["r"] >= 0)
    if nconv == 0:
        raise Reject()
    cls = ["prog." + case["prog"], "small." + hs]
    for hb in chain[1:]:
        idx = embed_index(hs, hb)
        rb = integrate(lib, hb, embed_steps(steps, idx, G.HYP[hb][1]))
        if sum(1 for r in rb if r["r"] >= 0) != nconv:
            cls.append("convergence_mismatch")
        compare_embedded(c, "C44.hyp.%s_in_%s" % (short(hs), short(hb)), lib, hs, hb, rs, rb, idx, steps)
    nt = inelastic(lib, hs, rs[:nconv]) or case["prog"] == "C44Elastic"
    return finish(c, nconv, nt, cls, "C44")


def short(h):
    return {H1D: "agpe", HAXI: "axi", HPE: "pe", HGPE: "gpe", HPS: "ps", H3D: "3d"}[h]


def check_pstress(case):
    lib = lib_of(case)
    if HPS not in lib.hyps:
        raise Reject()
    conv = PROGS[case["prog"]].get("conv")
    steps = mk_steps(case, 4)
    for e, dt in steps:
        e[2] = 0.0  # the zz slot of the gradient is not an input in plane stress (solvers pass 0)
    rs = integrate(lib, HPS, steps)
    nconv = sum(1 for r in rs if r["r"] >= 0)
    if nconv == 0:
        raise Reject()
    c = Cmp()
    off = lib.offsets(HPS, "InternalStateVariables")
    if "AxialStrain" not in off:
        return Result(False, key="C44.pstress.no_axial_strain", msg="no AxialStrain state variable exported in PlaneStress")
    oa = off["AxialStrain"][0]
    idx = embed_index(HPS, H3D, conv)
    zz = idx[2]
    steps3 = []
    for (e, dt), r in zip(steps[:nconv], rs[:nconv]):
        S, Se = scales([r], steps)
        # sigma_zz/young is one residual of the Newton system (criterion @Epsilon = 1e-14 on the mean residual of <= 20
        # unknowns): |sigma_zz| <= 20 * 1e-14 * E ~ 0.03 Pa at convergence; 100 x that + 1e-9 of the stress scale
        c.close("C44.pstress.sigma_zz", [r["sig"][2]], [0.0], S + 3.0e9, 1e-9)
        E = np.zeros(6)
        E[idx] = e
        E[zz] = r["iv"][oa]
        steps3.append((E, dt))
    r3 = integrate(lib, H3D, steps3)
    other = [i for i in range(6) if i not in idx]
    for a, b in zip(rs[:nconv], r3):
        if b["r"] < 0:
            break
        S, Se = scales([a, b], steps)
        c.close("C44.pstress.stress_vs_3d", a["sig"], b["sig"][idx], S, TOL_PS)
        c.close("C44.pstress.stress_vs_3d_out_of_plane", b["sig"][other], 0 * b["sig"][other], S, TOL_PS)
        for nme, t, o_s, o_b, sz in isv_map(lib, HPS, H3D, idx):
            if t == 0:
                sc = max(Se, abs(a["iv"][o_s]))
                c.close("C44.pstress.isv_scalar", [a["iv"][o_s]], [b["iv"][o_b]], sc, TOL_PS)
            elif t == 1:
                vb = b["iv"][o_b:o_b + 6]
                c.close("C44.pstress.isv_tensor", a["iv"][o_s:o_s + sz], vb[idx], max(Se, float(np.max(np.abs(vb)))), TOL_PS)
    nt = inelastic(lib, HPS, rs[:nconv]) or case["prog"] == "C44Elastic"
    return finish(c, nconv, nt, ["prog." + case["prog"]], "C44")


def tensor_isvs(lib, h):
    m = lib.meta[h]["InternalStateVariables"]
    off = lib.offsets(h, "InternalStateVariables")
    return [(n, t, off[n][0], off[n][1]) for n, t in zip(m["names"], m["types"])]


def check_rot_iso(case):
    lib = lib_of(case)
    steps = mk_steps(case, 6)
    Q = rotation(case["rot"], 3)
    M = rot6(Q)
    ra = integrate(lib, H3D, steps)
    rb = integrate(lib, H3D, [(M @ e, dt) for e, dt in steps])
    nconv = min(sum(1 for r in ra if r["r"] >= 0), sum(1 for r in rb if r["r"] >= 0))
    if nconv == 0:
        raise Reject()
    c = Cmp()
    for k, (a, b) in enumerate(zip(ra[:nconv], rb[:nconv])):
        S, Se = scales([a, b], steps)
        c.close("C44.rot.stress", M @ a["sig"], b["sig"], S, TOL_STATE)
        for nme, t, o, sz in tensor_isvs(lib, H3D):
            if t == 0:
                c.close("C44.rot.isv_scalar", [a["iv"][o]], [b["iv"][o]], max(Se, abs(a["iv"][o])), TOL_STATE)
            elif t == 1:
                va = a["iv"][o:o + 6]
                c.close("C44.rot.isv_tensor", M @ va, b["iv"][o:o + 6], max(Se, float(np.max(np.abs(va)))), TOL_STATE)
        if loaded(steps, k):
            Ks = max(float(np.max(np.abs(a["K"]))), 1.0)
            c.close("C44.rot.K", M @ a["K"] @ M.T, b["K"], Ks, TOL_K)
    ang = float(np.linalg.norm(case["rot"]))
    aligned = min(abs(math.sin(2 * ang)), 1.0) < 1e-3 or sum(1 for x in case["rot"] if abs(x) > 1e-3) < 1
    nt = (inelastic(lib, H3D, ra[:nconv]) or case["prog"] == "C44Elastic") and not aligned
    return finish(c, nconv, nt, ["prog." + case["prog"]], "C44")


def rot_functions(lib, name, h):
    fs = {}
    for k in ("rotateGradients", "rotateThermodynamicForces", "rotateTangentOperatorBlocks"):
        f = getattr(lib.lib, "%s_%s_%s" % (name, h, k))
        f.restype = None
        f.argtypes = [G.preal, G.preal, G.preal]
        fs[k] = f
        fa = getattr(lib.lib, "%s_%s_%s" % (name, h, k.replace("rotate", "rotateArrayOf")))
        fa.restype = None
        fa.argtypes = [G.preal, G.preal, G.preal, C.c_size_t]
        fs[k + "Array"] = fa
    return fs


def _sc(a):
    return max(float(np.max(np.abs(a))), 1e-300)


def ref_rot_vec(v, Mfull, n):
    V = np.zeros(6)
    V[:n] = v
    return (Mfull @ V)[:n], (Mfull @ V)[n:]


def check_rot_fn(case):
    lib = lib_of(case)
    name = case["prog"]
    h = case["hyp"]
    if h not in lib.hyps:
        raise Reject()
    dim, n, _ = G.HYP[h]
    R = rotation(case["rot"], dim)          # v_material = R v_global
    rv = np.ascontiguousarray(R.flatten(order="F"))  # column major
    M = rot6(R)
    fs = rot_functions(lib, name, h)
    c = Cmp()
    npts = case.get("npts", 3)
    rng = np.array(case["vals"], dtype=float)
    g = rng[:npts * n].reshape(npts, n).copy()
    tf = rng[40:40 + npts * n].reshape(npts, n).copy() * 1e8
    Kb = rng[80:80 + npts * n * n].reshape(npts, n, n).copy() * 1e11
    for a in (g, tf, Kb):
        if not np.any(a):
            raise Reject()  # all-zero input: nothing to scale the error with
    # single point
    for i in range(npts):
        d = np.full(n, 7.0)
        fs["rotateGradients"](G.dptr(d), G.dptr(g[i]), G.dptr(rv))
        c.close("C44.rotfn.gradients", d, (M @ np.pad(g[i], (0, 6 - n)))[:n], _sc(g[i]), TOL_ROT)
        d = np.full(n, 7.0)
        fs["rotateThermodynamicForces"](G.dptr(d), G.dptr(tf[i]), G.dptr(rv))
        c.close("C44.rotfn.forces", d, (M.T @ np.pad(tf[i], (0, 6 - n)))[:n], _sc(tf[i]), TOL_ROT)
        d = np.full(n * n, 7.0)
        src = np.ascontiguousarray(Kb[i].reshape(-1))
        fs["rotateTangentOperatorBlocks"](G.dptr(d), G.dptr(src), G.dptr(rv))
        K6 = np.zeros((6, 6))
        K6[:n, :n] = Kb[i]
        c.close("C44.rotfn.operator", d.reshape(n, n), (M.T @ K6 @ M)[:n, :n], _sc(Kb[i]), TOL_ROT)
        # in place
        d = g[i].copy()
        fs["rotateGradients"](G.dptr(d), G.dptr(d), G.dptr(rv))
        c.close("C44.rotfn.gradients_inplace", d, (M @ np.pad(g[i], (0, 6 - n)))[:n], _sc(g[i]), TOL_ROT)
        d = tf[i].copy()
        fs["rotateThermodynamicForces"](G.dptr(d), G.dptr(d), G.dptr(rv))
        c.close("C44.rotfn.forces_inplace", d, (M.T @ np.pad(tf[i], (0, 6 - n)))[:n], _sc(tf[i]), TOL_ROT)
        d = np.ascontiguousarray(Kb[i].reshape(-1)).copy()
        fs["rotateTangentOperatorBlocks"](G.dptr(d), G.dptr(d), G.dptr(rv))
        c.close("C44.rotfn.operator_inplace", d.reshape(n, n), (M.T @ K6 @ M)[:n, :n], _sc(Kb[i]), TOL_ROT)
    # arrays = n x the single version (bitwise)
    for k, arr in (("rotateGradients", g), ("rotateThermodynamicForces", tf), ("rotateTangentOperatorBlocks", Kb)):
        flat = np.ascontiguousarray(arr.reshape(-1))
        da = np.full(flat.size + 2, 7.0)
        fs[k + "Array"](G.dptr(da), G.dptr(flat), G.dptr(rv), npts)
        ds = np.full(flat.size + 2, 7.0)
        sz = flat.size // npts
        for i in range(npts):
            tmp = np.zeros(sz)
            fs[k](G.dptr(tmp), G.dptr(np.ascontiguousarray(flat[i * sz:(i + 1) * sz])), G.dptr(rv))
            ds[i * sz:(i + 1) * sz] = tmp
        if G.bits(da) != G.bits(ds):
            return Result(False, key="C44.rotfn.array_vs_single." + k, msg="rotateArrayOf* differs from n single calls (or writes out of bounds)", errs=c.err)
    ang = abs(case["rot"][2]) if dim == 2 else float(np.linalg.norm(case["rot"]))
    nt = dim > 1 and abs(math.sin(2 * ang)) > 1e-3
    return finish(c, 1, nt, ["prog." + name, "hyp." + short(h)], "C44")


def check_ortho(case):
    lib = lib_of(case)
    name = case["prog"]
    conv = PROGS[name].get("conv")
    kind = case["kind"]
    c = Cmp()
    if kind == "chain":
        # global frame response through the exported functions vs numpy rotations
        h = case["hyp"]
        if h not in lib.hyps:
            raise Reject()
        dim, n, _ = G.HYP[h]
        R = rotation(case["rot"], dim)
        rv = np.ascontiguousarray(R.flatten(order="F"))
        M = rot6(R)
        fs = rot_functions(lib, name, h)
        steps_g = mk_steps(case, n)
        # (a) with the exported functions
        steps_m = []
        for e, dt in steps_g:
            d = np.zeros(n)
            fs["rotateGradients"](G.dptr(d), G.dptr(np.ascontiguousarray(e)), G.dptr(rv))
            steps_m.append((d, dt))
        rm = integrate(lib, h, steps_m)
        # (b) reference
        steps_r = [((M @ np.pad(e, (0, 6 - n)))[:n], dt) for e, dt in steps_g]
        rr = integrate(lib, h, steps_r)
        nconv = min(sum(1 for r in rm if r["r"] >= 0), sum(1 for r in rr if r["r"] >= 0))
        if nconv == 0:
            raise Reject()
        for a, b in zip(rm[:nconv], rr[:nconv]):
            S, Se = scales([a, b], steps_g)
            sg = np.zeros(n)
            fs["rotateThermodynamicForces"](G.dptr(sg), G.dptr(np.ascontiguousarray(a["sig"])), G.dptr(rv))
            c.close("C44.ortho.chain.stress", sg, (M.T @ np.pad(b["sig"], (0, 6 - n)))[:n], S, TOL_STATE)
            Kg = np.zeros(n * n)
            fs["rotateTangentOperatorBlocks"](G.dptr(Kg), G.dptr(np.ascontiguousarray(a["K"].reshape(-1))), G.dptr(rv))
            K6 = np.zeros((6, 6))
            K6[:n, :n] = b["K"]
            c.close("C44.ortho.chain.K", Kg.reshape(n, n), (M.T @ K6 @ M)[:n, :n], max(1.0, float(np.max(np.abs(b["K"])))), TOL_K)
        ang = abs(case["rot"][2]) if dim == 2 else float(np.linalg.norm(case["rot"]))
        nt = inelastic(lib, h, rm[:nconv]) and dim > 1 and abs(math.sin(2 * ang)) > 1e-3
        return finish(c, nconv, nt, ["prog." + name, "chain." + short(h)], "C44")
    if kind == "symmetry":
        # pi rotation about a material axis leaves an orthotropic response invariant
        ax = case["axis"]
        S3 = -np.eye(3)
        S3[ax, ax] = 1.0
        M = rot6(S3)
        steps = mk_steps(case, 6)
        ra = integrate(lib, H3D, steps)
        rb = integrate(lib, H3D, [(M @ e, dt) for e, dt in steps])
        nconv = min(sum(1 for r in ra if r["r"] >= 0), sum(1 for r in rb if r["r"] >= 0))
        if nconv == 0:
            raise Reject()
        for a, b in zip(ra[:nconv], rb[:nconv]):
            S, Se = scales([a, b], steps)
            c.close("C44.ortho.symmetry.stress", M @ a["sig"], b["sig"], S, TOL_STATE)
            c.close("C44.ortho.symmetry.K", M @ a["K"] @ M.T, b["K"], max(1.0, float(np.max(np.abs(a["K"])))), TOL_K)
        return finish(c, nconv, inelastic(lib, H3D, ra[:nconv]), ["prog." + name, "symmetry"], "C44")
    if kind == "hyp":
        chain = [h for h in CHAINS[case["chain"]] if h in lib.hyps]
        if len(chain) < 2:
            raise Reject()
        hs = chain[0]
        steps = mk_steps(case, G.HYP[hs][1])
        rs = integrate(lib, hs, steps)
        nconv = sum(1 for r in rs if r["r"] >= 0)
        if nconv == 0:
            raise Reject()
        for hb in chain[1:]:
            idx = embed_index(hs, hb, conv)
            rb = integrate(lib, hb, embed_steps(steps, idx, G.HYP[hb][1]))
            compare_embedded(c, "C44.ortho.hyp.%s.%s_in_%s" % (conv, short(hs), short(hb)), lib, hs, hb, rs, rb, idx, steps)
        return finish(c, nconv, inelastic(lib, hs, rs[:nconv]), ["prog." + name, "hyp." + hs], "C44")
    raise ValueError(kind)


# ----------------------------------------------------------------------------- strategies
f1 = st.floats(-1.0, 1.0, allow_nan=False, width=64)


def steps_strategy(visc_ok=True):
    step = st.fixed_dictionaries({"de": st.lists(f1, min_size=6, max_size=6),
                                  "dt": st.sampled_from([1.0, 0.01, 10.0, 100.0])})
    return st.lists(step, min_size=1, max_size=5)


def with_src(d):
    d = dict(d)
    d["src"] = PROGS[d["prog"]]["src"]
    d["hyps"] = PROGS[d["prog"]]["hyps"]
    return d


ISO = [n for n, p in PROGS.items() if p["iso"]]
ORTHO = [n for n, p in PROGS.items() if not p["iso"]]
rotvec = st.lists(st.floats(-3.0, 3.0, allow_nan=False), min_size=3, max_size=3)
amp = st.sampled_from([1.0e-3, 2.0e-3, 5.0e-4])

S_hyp_iso = st.fixed_dictionaries({"prog": st.sampled_from(ISO), "chain": st.integers(0, len(CHAINS) - 1),
                                   "steps": steps_strategy(), "amp": amp}).map(with_src)
S_pstress = st.fixed_dictionaries({"prog": st.sampled_from([n for n in PROGS if HPS in PROGS[n]["hyps"]]),
                                   "steps": steps_strategy(), "amp": amp}).map(with_src)
S_rot_iso = st.fixed_dictionaries({"prog": st.sampled_from(ISO), "steps": steps_strategy(), "amp": amp, "rot": rotvec}).map(with_src)
S_rot_fn = st.fixed_dictionaries({"prog": st.sampled_from(ORTHO), "hyp": st.sampled_from(ALLH), "rot": rotvec,
                                  "npts": st.integers(1, 3),
                                  "vals": st.lists(f1, min_size=200, max_size=200)}).map(with_src)
S_ortho = st.one_of(
    st.fixed_dictionaries({"kind": st.just("chain"), "prog": st.sampled_from(ORTHO), "hyp": st.sampled_from([HAXI, HPE, HGPE, H3D, H3D]),
                           "rot": rotvec, "steps": steps_strategy(), "amp": amp}),
    st.fixed_dictionaries({"kind": st.just("symmetry"), "prog": st.sampled_from(ORTHO), "axis": st.integers(0, 2),
                           "steps": steps_strategy(), "amp": amp}),
    st.fixed_dictionaries({"kind": st.just("hyp"), "prog": st.sampled_from(ORTHO), "chain": st.integers(0, len(CHAINS) - 1),
                           "steps": steps_strategy(), "amp": amp})).map(with_src)

SUBS = {"hyp_iso": (S_hyp_iso, check_hyp_iso, 1.0), "pstress": (S_pstress, check_pstress, 0.5),
        "rot_iso": (S_rot_iso, check_rot_iso, 1.0), "rot_fn": (S_rot_fn, check_rot_fn, 1.0),
        "ortho": (S_ortho, check_ortho, 1.5)}


def main():
    replay_main({k: v[1] for k, v in SUBS.items()})
    u = Unit("C44_frames")
    errs = parallel_map(lambda n: _try_build(n), list(PROGS), jobs=min(JOBS, 8))
    for n, e in zip(PROGS, errs):
        if e:
            u.fail("build", "C44.harness.build", "%s: %s" % (n, e), {"prog": n, "src": PROGS[n]["src"]})
    if u.failures:
        return u.finish()
    n = int(param("cases", 300))
    for k, (strat, fn, w) in SUBS.items():
        run_hypothesis(u, k, strat, fn, max_examples=max(10, int(n * w)))
    return u.finish()


def _try_build(n):
    try:
        get_lib(n)
        return ""
    except Exception as e:
        return str(e)[:1500]


if __name__ == "__main__":
    sys.exit(main())
