"""C43: catalogue of StandardElastoViscoPlasticity / StandardElasticity brick
components and the deterministic program-text builder.

A *configuration* is a JSON-serialisable dict
  {"sp": <stress potential>, "flows": [ {"flow":..., "crit":..., "fcrit":... or None,
                                         "iso": [..], "kin": [..]} , ...],
   "nuc": <porosity nucleation or None>, "palgo": "implicit"|"staggered"|None,
   "theta": float, "variant": int}
Everything (parameter values included) is a pure function of the configuration so
that the same configuration always gives the same program text (content-hash cache).

Parameter values are taken inside the admissible range documented in
docs/web/StandardElastoViscoPlasticityBrick.md (and -PorousPlasticity.md) and in the
test files mfront/tests/behaviours/StandardElastoViscoPlasticity/*.mfront.  Stresses
are in Pa (E = 150e9, yield stresses ~ 1e8).  Every numeric coefficient becomes an
MFront parameter, which the driver may rescale at run time by a factor in
[0.8, 1.25]: the base values below are such that the rescaled values stay admissible
(Poisson ratio < 0.5, 0 < lodeT < pi/6, eta <= 1, w < 1, f_c < f_r, ...).
"""
import hashlib
import json

E0 = 150e9
SY = 150e6  # reference yield stress

# Keys of the known findings (set by C43_bricks.py from verifpy.KNOWN).  A component is only kept out of the random pool
# (or restricted to the sub-domain where it is exact) while the key of its defect is *known*: once the key is dropped
# (defect repaired) the component is generated and asserted like any other one.
KNOWN_KEYS = set()
K_DRUCKER = "C43.jacobian.Drucker1949_c_ne_1"
K_CAZACU = "C43.jacobian.Cazacu2001_c_ne_1"
K_POWER = "C43.jacobian.theta.Power_p0"
K_UDIH = "C43.jacobian.theta.UserDefinedIsotropicHardening"
K_SRS = "C43.jacobian.theta.StrainRateSensitive"
K_UDVP = "C43.jacobian.theta.UserDefinedViscoplasticity_dvp_dp"
K_CNSTRAIN = "C43.jacobian.nucleation.ChuNeedleman1980_strain"
K_CNSTRESS = "C43.jacobian.nucleation.ChuNeedleman1980_stress"
K_PLSTRESS = "C43.jacobian.nucleation.PowerLaw_stress"
K_CHABOCHE = "C43.emitted_code.Chaboche2012_Phi"


def known(key):
    return key in KNOWN_KEYS


def _v(seq, k):
    return seq[k % len(seq)]


# ------------------------------------------------------------------ stress potentials
def sp_text(sp, k):
    """returns (text of the stress_potential entry, needs orthotropy, extra code after the brick, esv names)"""
    if sp == "hooke":
        nu = _v([0.3, 0.2, 0.38], k)
        return '"Hooke" {young_modulus : %g, poisson_ratio : %g}' % (E0, nu), False, "", []
    if sp == "hooke_T":
        # Young modulus and thermal expansion depend on the temperature (formulae): young != young_tdt when theta != 1
        return ('"Hooke" {young_modulus : "150e9 * (1 - 4e-4 * (T - 293.15))", poisson_ratio : 0.3,\n'
                '    thermal_expansion : "1.e-5 + 1.e-8 * (T - 293.15)", thermal_expansion_reference_temperature : 293.15}'), False, "", []
    if sp == "hooke_ortho":
        return ('"Hooke" {young_modulus1 : 150e9, young_modulus2 : 175e9, young_modulus3 : 110e9,\n'
                '    poisson_ratio12 : 0.3, poisson_ratio23 : 0.25, poisson_ratio13 : 0.2,\n'
                '    shear_modulus12 : 68e9, shear_modulus23 : 72e9, shear_modulus13 : 52e9}'), True, "", []
    if sp == "damage":
        nu = _v([0.3, 0.25], k)
        code = ('@ExternalStateVariable real di;\ndi.setEntryName("ImposedDamage");\n'
                '@Integrator{\n  fd = d + dd - di - ddi;\n}\n')
        return '"IsotropicDamage" {young_modulus : %g, poisson_ratio : %g}' % (E0, nu), False, code, ["ImposedDamage"]
    raise ValueError(sp)


STRESS_POTENTIALS = ["hooke", "hooke_T", "hooke_ortho", "damage"]

# ------------------------------------------------------------------ stress criteria
_BARLAT_L1 = "{-0.069888, 0.079143, 0.936408, 0.524741, 1.00306, 1.36318, 0.954322, 1.06906, 1.02377}"
_BARLAT_L2 = "{0.981171, 0.575316, 0.476741, 1.14501, 0.866827, -0.079294, 1.40462, 1.1471, 1.05166}"
_CAZ_A = "{0.586, 1.05, 0.823, 0.96, 1, 1}"
_CAZ_B = "{1.44, 0.061, -1.302, -0.281, -0.375, 1, 1, 1, 1, 0.445, 1}"

# name -> (ortho needed, porous, [variants of the text])
CRITERIA = {
    "Mises": (False, False, ['"Mises"']),
    "Hill": (True, False, ['"Hill" {F : 0.371, G : 0.629, H : 4.052, L : 1.5, M : 1.5, N : 1.5}',
                           '"Hill" {F : 0.5, G : 0.4, H : 0.6, L : 1.2, M : 1.8, N : 1.4}']),
    "Hosford": (False, False, ['"Hosford" {a : 6}', '"Hosford" {a : 8}', '"Hosford" {a : 3.5}',
                               '"Hosford 1972" {a : 12, eigen_solver : "Jacobi"}']),
    "Barlat": (True, False, ['"Barlat" {a : 8, l1 : %s, l2 : %s}' % (_BARLAT_L1, _BARLAT_L2),
                             '"Barlat" {a : 6, l1 : %s, l2 : %s, eigen_solver : "Jacobi"}' % (_BARLAT_L2, _BARLAT_L1)]),
    # c = 1 only in the pool: the second derivative is wrong for c != 1 (known finding, see Drucker1949_probe)
    "Drucker1949": (False, False, ['"Drucker 1949" {c : 1}']),
    "Drucker1949_probe": (False, False, ['"Drucker 1949" {c : 1.285}']),
    # same second derivative formula as Drucker 1949 (wrong for c != 1): c = 1 in the pool
    "Cazacu2001": (True, False, ['"Cazacu 2001" {a : %s, b : %s, c : 1}' % (_CAZ_A, _CAZ_B)]),
    "Cazacu2001_probe": (True, False, ['"Cazacu 2001" {a : %s, b : %s, c : 1.285}' % (_CAZ_A, _CAZ_B)]),
    "IsoCazacu2004": (False, False, ['"Isotropic Cazacu 2004" {c : -1.056}', '"Isotropic Cazacu 2004" {c : 0.8}']),
    "OrthoCazacu2004": (True, False, ['"Orthotropic Cazacu 2004" {a : %s, b : %s, c : 1.285}' % (_CAZ_A, _CAZ_B),
                                      '"Orthotropic Cazacu 2004" {a : %s, b : %s, c : -0.9}' % (_CAZ_A, _CAZ_B)]),
    "MohrCoulomb": (False, False, ['"MohrCoulomb" {c : 6e7, phi : 0.5, lodeT : 0.4, a : 2e7}',
                                   '"MohrCoulomb" {c : 8e7, phi : 0.3, lodeT : 0.35, a : 1e7}']),
    "GTN": (False, True, ['"GursonTvergaardNeedleman1982" {f_c : 0.04, f_r : 0.25, q_1 : 1.5, q_2 : 1.0, q_3 : 2.25}',
                          '"GTN" {f_c : 0.01, f_r : 0.10, q_1 : 2, q_2 : 1, q_3 : 4}']),
    "RTB": (False, True, ['"RousselierTanguyBesson2002" {qR : 0.89, DR : 2.2}',
                          '"RousselierTanguyBesson 2002" {qR : 1.2, DR : 1.6}']),
    "MichelSuquet": (False, True, ['"MichelAndSuquet1992HollowSphere" {n : 5}',
                                   '"MichelAndSuquet1992HollowSphere" {n : 3}']),
}
_DRUCKER_FULL = ['"Drucker 1949" {c : 1.285}', '"Drucker 1949" {c : -1.5}', '"Drucker 1949" {c : 1.75}']
_CAZACU_FULL = ['"Cazacu 2001" {a : %s, b : %s, c : 1.285}' % (_CAZ_A, _CAZ_B), '"Cazacu 2001" {a : %s, b : %s, c : 1}' % (_CAZ_A, _CAZ_B)]


def criterion_variants(name):
    """variants of the text of a criterion; Drucker 1949 / Cazacu 2001 are restricted to c = 1 while their finding is known"""
    if name == "Drucker1949" and not known(K_DRUCKER):
        return _DRUCKER_FULL
    if name == "Cazacu2001" and not known(K_CAZACU):
        return _CAZACU_FULL
    return CRITERIA[name][2]


def c_is_frozen(cfg):
    """true when a criterion of the configuration must stay at c = 1 (run-time rescaling of c disabled)"""
    for fl in cfg.get("flows", []):
        for c in (fl["crit"], fl.get("fcrit")):
            if (c == "Drucker1949" and known(K_DRUCKER)) or (c == "Cazacu2001" and known(K_CAZACU)):
                return True
    return False


# criteria usable as (non associated) flow criterion
FLOW_CRITERIA = ["Mises", "Hill", "Hosford", "Drucker1949", "IsoCazacu2004"]

# ------------------------------------------------------------------ isotropic hardening rules
ISO = {
    "Linear": ['"Linear" {R0 : 150e6, H : 2e9}', '"Linear" {R0 : 120e6, H : 8e9}', '"Linear" {R0 : 180e6}'],
    "LinearH": ['"Linear" {H : 3e9}'],  # only usable in a sum
    "Swift": ['"Swift" {R0 : 150e6, p0 : 2e-3, n : 0.2}', '"Swift" {R0 : 120e6, p0 : 5e-4, n : 0.1}'],
    "Power": ['"Power" {R0 : 600e6, p0 : 1e-3, n : 0.2}', '"Power" {R0 : 2e9, p0 : 5e-4, n : 0.45}'],
    "Voce": ['"Voce" {R0 : 150e6, Rinf : 300e6, b : 200}', '"Voce" {R0 : 200e6, Rinf : 120e6, b : 50}'],
    "UserDefined": ['"UserDefined" {R : "R0u + Hu * (1 - exp(-bu * p))", dR_dp : "bu * (R0u + Hu - R)", R0u : 150e6, Hu : 100e6, bu : 150}',
                    '"UserDefined" {R : "R0u + Hu * p + Qu * (1 - exp(-bu * p))", R0u : 140e6, Hu : 1e9, Qu : 60e6, bu : 300}'],
    "DataSpline": ['"Data" {values : {0 : 150e6, 1e-3 : 180e6, 3e-3 : 220e6, 1e-2 : 300e6}, interpolation : "cubic_spline"}'],
    "DataLinear": ['"Data" {values : {0 : 150e6, 1e-3 : 180e6, 3e-3 : 220e6, 1e-2 : 300e6}, interpolation : "linear"}'],
    "SRS_CowperSymonds": ['"StrainRateSensitive" {\n'
                          '      rate_independent_isotropic_hardening : "Swift" {R0 : 100e6, p0 : 2e-3, n : 0.15},\n'
                          '      rate_independent_isotropic_hardening : "Voce" {R0 : 40e6, Rinf : 90e6, b : 120},\n'
                          '      rate_sensitivity_factor : "CowperSymonds" {dp0 : 1e-2, n : 1.4}}'],
    "SRS_JohnsonCook": ['"StrainRateSensitive" {\n'
                        '      rate_independent_isotropic_hardening : "Linear" {R0 : 140e6, H : 3e9},\n'
                        '      rate_sensitivity_factor : "JohnsonCook" {A : 0.05, dp0 : 1e-6}}'],
}
# hardening "choices": each is a list of rule names (a sum)
ISO_CHOICES = {
    "none": [], "Linear": ["Linear"], "Swift": ["Swift"], "Power": ["Power"], "Voce": ["Voce"],
    "Linear+Voce": ["Linear", "Voce"], "Voce+Voce": ["Voce", "Voce"], "Linear+Power": ["Linear", "Power"],
    "Swift+LinearH": ["Swift", "LinearH"],
    "UserDefined": ["UserDefined"], "DataSpline": ["DataSpline"], "DataLinear": ["DataLinear"],
    "SRS_CowperSymonds": ["SRS_CowperSymonds"], "SRS_JohnsonCook": ["SRS_JohnsonCook"],
}

# ------------------------------------------------------------------ kinematic hardening rules
KIN = {
    "Prager": ['"Prager" {C : 20e9}', '"Prager" {C : 5e9}'],
    "AF": ['"Armstrong-Frederick" {C : 60e9, D : 400}', '"Armstrong-Frederick" {C : 15e9, D : 60}'],
    "BC": ['"Burlet-Cailletaud" {C : 50e9, D : 300, eta : 0.4}', '"Burlet-Cailletaud" {C : 25e9, D : 100, eta : 0}'],
    "Chaboche2012": ['"Chaboche 2012" {C : 50e9, D : 300, m : 2, w : 0.6}',
                     '"Chaboche 2012" {C : 25e9, D : 500, m : 3, w : 0.3}'],
    # Phi_inf / b options: the emitted code does not compile (known finding)
    "Chaboche2012_Phi": ['"Chaboche 2012" {C : 25e9, D : 500, m : 3, w : 0.3, Phi_inf : 0.5, b : 100}'],
    "DRS": ['"DRS" {C : 40e9, D : 200, f : 1e-6, m : 3, a0 : 1e-3, Ec : {0.33, 0.33, 0.33, 1, 1, 1},\n'
            '      Rs : {0.33, 0.63, 0.33, 1, 1, 1}, Rd : {0.33, 0.33, 0.33, 1, 1, 1}}'],
}
KIN_ORTHO = {"DRS"}
KIN_CHOICES = {
    "none": [], "Prager": ["Prager"], "AF": ["AF"], "BC": ["BC"], "Chaboche2012": ["Chaboche2012"], "DRS": ["DRS"],
    "AF+AF": ["AF", "AF"], "Prager+AF": ["Prager", "AF"], "BC+Chaboche2012": ["BC", "Chaboche2012"],
    "Chaboche2012_Phi": ["Chaboche2012_Phi"],
}
# values only used by the probes of the known findings, never drawn for the pool
def not_in_pool():
    """values only used by the probes (never drawn for the pool): probe-only variants, out of scope values and the
    components whose finding is still known"""
    v = {"crit:Drucker1949_probe", "crit:Cazacu2001_probe", "kin:Chaboche2012_Phi", "palgo:staggered"}
    if known(K_CNSTRAIN):
        v.add("nuc:CN_strain")
    if known(K_CNSTRESS):
        v.add("nuc:CN_stress")
    if known(K_PLSTRESS):
        v.add("nuc:PL_stress")
    return v


# components whose emitted derivative is only right for theta = 1 while their finding (C43.jacobian.theta.*) is known: the
# pool then drives them with theta = 1, the probes with theta = 0.5
THETA1_ISO = {"Power": K_POWER, "UserDefined": K_UDIH, "SRS_CowperSymonds": K_SRS, "SRS_JohnsonCook": K_SRS}
THETA1_FLOW = {"UserDefinedVP": K_UDVP}


def needs_theta1(cfg):
    for fl in cfg.get("flows", []):
        if known(THETA1_FLOW.get(fl["flow"])) or any(known(THETA1_ISO.get(r)) for r in ISO_CHOICES[fl["iso"]]):
            return True
    return False

# ------------------------------------------------------------------ flows
FLOWS = {
    "Plastic": ['', 'maximum_equivalent_stress_factor : 1.5,\n    equivalent_stress_check_maximum_iteration_factor : 0.4'],
    "Norton": ['K : 100e6, n : 3.2', 'A : 2e-2, K : 60e6, n : 5.5', 'K : 150e6, n : 1.8'],
    "HyperbolicSine": ['A : 1e-3, K : 60e6', 'A : 5e-4, K : 80e6, n : 2.2'],
    "HarmonicSum": ['A : {2, 5e-2}, K : {100e6, 70e6}, n : {3.2, 5.1}'],
    "UserDefinedVP": ['A : 3e-3, Ku : 100e6, En : 4.1, vp : "A * (f / Ku) ** En", dvp_df : "En * vp / max(f, seps)"',
                      'A : 2e-3, Ku : 90e6, En : 3.3, Em : 0.3, p0u : 1e-3,\n'
                      '    vp : "A * (f / Ku) ** En / ((p + p0u) ** Em)"'],
}
FLOW_NAME = {"Plastic": "Plastic", "Norton": "Norton", "HyperbolicSine": "HyperbolicSine",
             "HarmonicSum": "HarmonicSumOfNortonHoffViscoplasticFlows", "UserDefinedVP": "UserDefinedViscoplasticity"}

# ------------------------------------------------------------------ nucleation models
NUCLEATION = {
    "CN_strain": ['"Chu-Needleman 1980 (strain)" {fn : 0.04, en : 3e-3, sn : 1.5e-3}'],
    # fn has the unit of a stress here (df = An(sigma_I) dp with An = fn/(sn sqrt(2 pi)) exp(..))
    "CN_stress": ['"Chu-Needleman 1980 (stress)" {fn : 3e8, sigm : 200e6, sn : 60e6, fmax : 0.1}'],
    "PL_strain": ['"PowerLaw (strain)" {fn : 0.5, en : 1e-3, m : 2, fmax : 0.1}'],
    "PL_stress": ['"PowerLaw (stress)" {fn : 0.2, sn : 100e6, m : 2, fmax : 0.1, pmin : 0}'],
}


def needs_ortho(cfg):
    if cfg["sp"] == "hooke_ortho":
        return True
    for fl in cfg["flows"]:
        if CRITERIA[fl["crit"]][0]:
            return True
        if fl.get("fcrit") and CRITERIA[fl["fcrit"]][0]:
            return True
        if any(k in KIN_ORTHO for k in KIN_CHOICES[fl["kin"]]):
            return True
    return False


def is_porous(cfg):
    return cfg.get("nuc") is not None or any(CRITERIA[fl["crit"]][1] for fl in cfg["flows"]) or bool(cfg.get("elastic_porosity"))


def valid(cfg):
    """structural constraints documented for the brick"""
    if cfg.get("brick", "sevp") == "elasticity":
        return cfg["sp"] in ("hooke", "hooke_T", "hooke_ortho") and not cfg["flows"]
    for fl in cfg["flows"]:
        iso = ISO_CHOICES[fl["iso"]]
        if fl["flow"] == "Plastic" and not iso:
            return False  # a plastic flow needs a yield radius
        if any(x.startswith("SRS") for x in iso) and fl["flow"] != "Plastic":
            return False  # rate sensitive hardening: plastic flows only
        if fl.get("fcrit") and CRITERIA[fl["crit"]][1]:
            return False  # keep porous criteria associated
    if cfg["sp"] == "damage" and is_porous(cfg):
        return False
    if is_porous(cfg) and any(KIN_CHOICES[fl["kin"]] for fl in cfg["flows"]):
        return False  # "kinematic hardening rules are not supported when coupled with a porosity evolution" (mfront error)
    if sum(KIN_CHOICES[fl["kin"]].count("DRS") for fl in cfg["flows"]) > 1:
        return False  # entry name 'InelasticStrainRateLinearTransformationCoefficients' declared twice (mfront error)
    if is_porous(cfg) and any(fl["flow"] == "UserDefinedVP" or fl["crit"] == "MohrCoulomb" for fl in cfg["flows"]):
        # MohrCoulomb criterion (seen with Plastic and UserDefinedViscoplasticity flows) + porosity evolution: the emitted
        # code does not compile (dn_df, trace_n undeclared); reported separately.  UserDefinedViscoplasticity + porosity is
        # kept out as well (only met together with MohrCoulomb, not disentangled).
        return False
    if len(cfg["flows"]) > 1:
        # Several flows: mfront 5.2-dev generates code that does not compile (identifiers without the flow id) for
        # StrainRateSensitive / UserDefined hardening rules, UserDefinedViscoplasticity flows and porous criteria.
        # Not a Jacobian question: those combinations are left out (reported separately).
        if is_porous(cfg):
            return False
        for fl in cfg["flows"]:
            if fl["flow"] in ("UserDefinedVP", "HarmonicSum") or \
                    any(x.startswith(("SRS", "UserDefined", "Data")) for x in ISO_CHOICES[fl["iso"]]):
                return False
    return True


def config_name(cfg):
    return "C43_" + hashlib.sha1(json.dumps(cfg, sort_keys=True).encode()).hexdigest()[:12]


def int_variables(cfg):
    """names of the scalar equivalent-strain variables of the flows (brick convention)"""
    n = len(cfg["flows"])
    return ["p" if n == 1 else "p%d" % i for i in range(n)]


def program(cfg):
    """returns the program dict {"name","src","hyps","esv":[...]}"""
    k = int(cfg.get("variant", 0))
    name = config_name(cfg)
    brick = cfg.get("brick", "sevp")
    sp, ortho, extra, esv = sp_text(cfg["sp"], k)
    ortho = ortho or needs_ortho(cfg)
    L = ["@DSL Implicit;", "@Behaviour %s;" % name, "@Description{", "C43 generated: " + json.dumps(cfg, sort_keys=True), "}",
         "@ModellingHypothesis Tridimensional;", "@Epsilon 1.e-14;", "@IterMax 40;", "@Theta %g;" % cfg.get("theta", 1.0)]
    if ortho:
        L.append("@OrthotropicBehaviour;")
    L += ["@CompareToNumericalJacobian true;", "@JacobianComparisonCriterion 0;",
          "@PerturbationValueForNumericalJacobianComputation 1.e-7;", "@Includes{", "#include<iostream>", "}"]
    if brick == "elasticity":
        # the StandardElasticity brick takes the options of the Hooke stress potential directly
        inner = sp[sp.index("{") + 1: sp.rindex("}")]
        L.append("@Brick StandardElasticity{%s};" % inner)
    else:
        items = ["  stress_potential : " + sp]
        for i, fl in enumerate(cfg["flows"]):
            it = ["    criterion : " + _v(criterion_variants(fl["crit"]), k + i)]
            if fl.get("fcrit"):
                it.append("    flow_criterion : " + _v(criterion_variants(fl["fcrit"]), k + i + 1))
            seen = {}
            for r in ISO_CHOICES[fl["iso"]]:
                j = seen.get(r, 0)
                seen[r] = j + 1
                it.append("    isotropic_hardening : " + _v(ISO[r], k + i + j))
            seen = {}
            for r in KIN_CHOICES[fl["kin"]]:
                j = seen.get(r, 0)
                seen[r] = j + 1
                it.append("    kinematic_hardening : " + _v(KIN[r], k + i + j))
            opt = _v(FLOWS[fl["flow"]], k + i)
            if opt:
                it.append("    " + opt)
            items.append('  inelastic_flow : "%s" {\n%s\n  }' % (FLOW_NAME[fl["flow"]], ",\n".join(it)))
        if is_porous(cfg):
            pe = []
            if cfg.get("nuc"):
                pe.append("    nucleation_model : " + _v(NUCLEATION[cfg["nuc"]], k))
            if cfg.get("elastic_porosity"):
                pe.append("    elastic_contribution : true")
            pe.append('    algorithm : "%s"' % ("staggered scheme" if cfg.get("palgo") == "staggered" else "standard implicit scheme"))
            items.append("  porosity_evolution : {\n%s\n  }" % ",\n".join(pe))
        L.append("@Brick StandardElastoViscoPlasticity{\n%s\n};" % ",\n".join(items))
    if extra:
        L.append(extra)
    # instrumentation (user code blocks, allowed after the brick): full precision on std::cout and one
    # marker line per Newton iteration giving the iteration number, the residual and the current increments
    L += ["@InitLocalVariables{", "std::cout.precision(17);", "}",
          "@AdditionalConvergenceChecks{",
          'std::cout << "C43IT " << this->iter << " " << error << " " << converged << " " << this->zeros << \'\\n\';',
          "}"]
    return {"name": name, "src": "\n".join(L) + "\n", "hyps": ["Tridimensional"], "esv": esv, "cfg": cfg}
