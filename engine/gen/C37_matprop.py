#!/usr/bin/env python3-vt
"""C37 - generated material properties compute the declared law.

sub "gen"  : Hypothesis generates material-property programs (matprop_gen.py:
             @Function bodies from an expression AST over inputs / @Parameter /
             @Constant / @StaticVariable / temporaries, if/else, compound
             assignment; or @Data tables, linear / cubic spline, extrapolation
             options), mfront --interface=generic,c,c++ generates the three
             interfaces, g++ compiles them, a child process calls them through
             ctypes.  Oracle: the same AST evaluated in Python in the same
             operation order (running error bound, libm calls 2 ulp each);
             tables: exact rational linear / natural-cubic-spline interpolants.
             Parameter defaults, <law>_setParameter (generic, internal and
             external names, twice), set<p>() (c++ functor), <law>-parameters.txt
             (generic, read at first evaluation) are applied.  The interfaces
             must agree bit for bit when they use the same parameter values.
sub "repo" : property files of mfront/tests/properties against hand-written
             reference formulas.

A Hypothesis case is (program, probe seed); each program is probed with ~200
input vectors.  When a call fails, the failing call is stored in the case
("failing_call") so that the replay file is self-contained.
"""
import math
import os
import random
import sys
from fractions import Fraction

sys.path.insert(0, os.path.dirname(os.path.abspath(__file__)))
from verifpy import (Unit, Result, Reject, run_hypothesis, replay_main, SEED, TIER, WORK, REPO, JOBS, KNOWN, param,
                     parallel_map)
import matprop_gen as MG

ROOT = os.path.join(WORK, "progs")
ID = "C37"

# specific classes of genuine defects (see findings/pending/C37.json)
K_STATIC6 = "C37.value.constant_or_static_gt6digits"        # all interfaces
K_CPAR6 = "C37.value.c.param_default_gt6digits"
K_XPAR6 = "C37.value.cxx.param_default_gt6digits"
K_GPAR14 = "C37.value.generic.param_default_gt14digits"
K_DATA14 = "C37.value.data_gt14digits"


def same(a, b):
    return (a != a and b != b) or a == b


def close(obs, ref, tol):
    if ref != ref or obs != obs:
        return ref != ref and obs != obs
    if math.isinf(ref) or math.isinf(obs):
        return ref == obs
    return abs(obs - ref) <= tol


def vectors(P, rng, n):
    """input vectors inside the declared domains (edges, around the if/else threshold, uniform)"""
    out = []
    if P.nin == 0:
        return [[]]
    spec = []
    for i, (lo, hi) in enumerate(P.domains):
        s = [lo, hi, math.nextafter(lo, hi), math.nextafter(hi, lo), 0.5 * (lo + hi)]
        if getattr(P, "cond", None) and P.cond["in"] == i:
            t = MG.fl(P.cond["thr"])
            s += [t, math.nextafter(t, hi), math.nextafter(t, lo)]
        spec.append([v for v in s if lo <= v <= hi])
    for k in range(n):
        v = []
        for i, (lo, hi) in enumerate(P.domains):
            r = rng.random()
            if r < 0.2:
                v.append(rng.choice(spec[i]))
            elif r < 0.3:
                v.append(min(max(float("%.3g" % rng.uniform(lo, hi)), lo), hi))
            else:
                v.append(rng.uniform(lo, hi))
        out.append(v)
    return out


def data_vectors(P, rng, n):
    if P.nin == 0:
        return [[]]
    xs = [float(x) for x in P.xs_exact]
    pts = []
    for x in xs:
        pts += [x, math.nextafter(x, math.inf), math.nextafter(x, -math.inf)]
    for a, b in zip(xs, xs[1:]):
        pts += [0.5 * (a + b), a + 0.25 * (b - a)]
    span = (xs[-1] - xs[0]) or 1.0
    # guaranteed share of every table: several inputs below the first abscissa, exactly on the first / last
    # abscissa (above), and several beyond the last abscissa (extrapolation branches on both sides)
    for k in (1e-3, 0.37, 1.0, 7.5, 1e3):
        pts += [xs[0] - k * span, xs[-1] + k * span]
    pts += [xs[0] - rng.uniform(0.0, 2.0) * span, xs[-1] + rng.uniform(0.0, 2.0) * span]
    while len(pts) < n:
        pts.append(rng.uniform(xs[0] - 0.3 * span, xs[-1] + 0.3 * span))
    return [[x] for x in pts]


class Model:
    """reference values of a program under the declared values, or under the
    values as the interfaces emit them (known truncation classes)"""

    def __init__(self, P, asgen, cdigits=6):
        self.P, self.asgen = P, asgen
        t6 = (lambda x: MG.trunc_sig(x, 6)) if asgen else (lambda x: x)
        t14 = (lambda x: MG.trunc_sig(x, 14)) if asgen else (lambda x: x)
        tc = (lambda x: MG.trunc_sig(x, cdigits)) if asgen else (lambda x: x)
        self.consts = [t6(v) for v in P.cst_values]
        self.statics = [t6(v) for v in P.sta_values]
        self.defaults = {"generic": [t14(v) for v in P.par_values], "c": [tc(v) for v in P.par_values],
                         "cxx": [tc(v) for v in P.par_values]}

    def value(self, iface, args, overrides):
        P = self.P
        if P.prog["kind"] == "data":
            v, tol = MG.data_value(P, args[0] if args else 0.0, digits=14 if self.asgen else None)
            return v, tol, []
        params = list(self.defaults[iface])
        for i, v in overrides.items():
            params[i] = v
        ev = MG.Evaluator(P, args, params, self.consts, self.statics)
        v, d = ev.run()
        return v, MG.TOLK * max(d, 4.0 * MG.ulp(v)) + 1e-300, ev.events


def known_key_for(P, iface, used_default):
    lc = P.prog.get("longcat", "none")
    if lc == "static":
        return K_STATIC6
    if lc in ("param", "param15") and used_default:
        if iface == "c":
            return K_CPAR6
        if iface == "cxx":
            return K_XPAR6
        if lc == "param15":
            return K_GPAR14
    if lc == "data15":
        return K_DATA14
    return None


def check_case(case):
    try:
        return _check_case(case)
    except Reject:
        raise
    except Exception:
        import traceback
        MG.note_failure()
        return Result(False, key="C37.harness", msg="harness error:\n" + traceback.format_exc()[-3000:])


def _check_case(case):
    prog = case["prog"]
    try:
        P = MG.Prepared(prog)
    except MG.Reject:
        raise Reject()
    libs, err = MG.build_budgeted(P, ROOT, int(os.environ.get("VERIF_SHRINK_BUILDS", param("shrink_builds", 10))))
    if err:
        kind = "mfront" if err.startswith("mfront") else "gxx"
        MG.note_failure()
        return Result(False, key="C37.build." + kind, msg=err + "\n--- program ---\n" + P.text)
    rng = random.Random(case["probe_seed"])
    isdata = prog["kind"] == "data"
    fc = case.get("failing_call")
    if fc and "args" in fc:
        V1 = V2 = V3 = V4 = [[MG.unhex(a) for a in fc["args"]]]
    elif isdata:
        V1 = data_vectors(P, rng, int(param("vectors", 200)))
        V2 = V3 = V4 = []
    else:
        nv = int(param("vectors", 200))
        V1, V2, V3, V4 = (vectors(P, rng, nv * 3 // 10), vectors(P, rng, nv * 3 // 10), vectors(P, rng, nv * 2 // 10),
                          vectors(P, rng, nv * 2 // 10))
    ov1 = {i: MG.fl(v) for i, v in prog["overrides"]}
    # second round: midpoint between default and first override (inside the interval the program was normalised for)
    ov2 = {i: 0.5 * (P.par_values[i] + v) for i, v in ov1.items()}
    # ---- session A: defaults, then setParameter rounds
    calls, meta = [], []

    def add_value_calls(vecs, stage, ovs, ifaces):
        for a in vecs:
            ha = [MG.hexf(x) for x in a]
            for i in ifaces:
                if i == "generic":
                    calls.append({"i": "g", "args": ha, "nargs": len(a), "pol": 0, "errno": 0})
                elif i == "c":
                    calls.append({"i": "c", "args": ha, "errno": 0})
                else:
                    calls.append({"i": "x", "args": ha, "pset": [[k, MG.hexf(v)] for k, v in ovs.items()]})
                meta.append({"kind": "value", "iface": i, "args": a, "stage": stage,
                             "ov": dict(ovs) if i != "c" else {}})

    add_value_calls(V1, "defaults", {}, MG.IFACES)
    if ov1:
        for k, v in ov1.items():
            name = P.par_ext[k]  # first round: the external name when there is one, second round: the variable name
            calls.append({"i": "gset", "name": name, "v": MG.hexf(v)})
            meta.append({"kind": "set", "expect": 1, "name": name})
        add_value_calls(V2, "override1", ov1, MG.IFACES)
        calls.append({"i": "gset", "name": "no_such_parameter", "v": MG.hexf(1.0)})
        meta.append({"kind": "set", "expect": 0, "name": "no_such_parameter"})
        cur = dict(ov1)
        for k, v in ov2.items():
            calls.append({"i": "gset", "name": P.par_names[k], "v": MG.hexf(v)})
            meta.append({"kind": "set", "expect": 1, "name": P.par_names[k]})
            cur[k] = v
        add_value_calls(V3, "override2", cur, ("generic", "cxx"))
    wd = os.path.join(ROOT, P.law)
    resA, err = MG.probe(P, libs, calls, wd, "A")
    if err:
        return Result(False, key="C37.crash", msg=err + "\n--- program ---\n" + P.text)
    sessions = [(calls, meta, resA)]
    # ---- session B: parameters file read at the first evaluation
    if ov1 and V4:
        lines = ["# parameters overridden by the verification harness"]
        for k, v in ov1.items():
            name = P.par_ext[k] if rng.random() < 0.5 else P.par_names[k]
            lines.append("%s %s" % (name, dict((i, s) for i, s in prog["overrides"])[k]))
        lines.append("")
        callsB, metaB = [], []
        calls, meta = callsB, metaB
        add_value_calls(V4, "file", ov1, ("generic",))
        resB, err = MG.probe(P, libs, callsB, wd, "B", pfile="\n".join(lines))
        if err:
            return Result(False, key="C37.crash", msg=err + "\n--- program ---\n" + P.text)
        sessions.append((callsB, metaB, resB))
    # ---- compare
    decl, asgen, asgen14 = Model(P, False), Model(P, True), Model(P, True, 14)
    fails = []   # (known?, key, msg, failing call)
    errs = {}
    nval = 0
    irregular = 0
    bykey = {}
    for cl, mt, rs in sessions:
        for c, m, r in zip(cl, mt, rs):
            if m["kind"] == "set":
                if r["rc"] != m["expect"]:
                    fails.append(("C37.setParameter", "%s_setParameter(%r) returned %d, expected %d" % (
                        P.fname, m["name"], r["rc"], m["expect"]), None))
                continue
            iface, args = m["iface"], m["args"]
            obs = MG.unhex(r["v"])
            ref, tol, events = decl.value(iface, args, m["ov"])
            if events or tol == math.inf or not math.isfinite(ref):
                irregular += 1
                continue
            nval += 1
            bykey.setdefault((m["stage"], tuple(args)), {})[iface] = (r["v"], m["ov"], tol)
            desc = "%s(%s) stage=%s overrides=%s -> %r (%s), reference %r, tolerance %.3g" % (
                iface, ", ".join(repr(x) for x in args), m["stage"], m["ov"], obs, r["v"], ref, tol)
            fcall = {"args": [MG.hexf(x) for x in args], "iface": iface, "stage": m["stage"]}
            if iface == "generic" and (r["st"] != 0 or r["bs"] != 0 or r["en"] != 0):
                fails.append(("C37.generic.status", "status=%d bounds_status=%d errno=%d for a regular call: %s" % (
                    r["st"], r["bs"], r["en"], desc), fcall))
                continue
            if iface == "cxx" and r["exc"] != 0:
                fails.append(("C37.value.cxx", "exception thrown for a regular call: " + desc, fcall))
                continue
            if close(obs, ref, tol):
                e = abs(obs - ref) / tol if tol > 0 else 0.0
                if prog.get("longcat", "none") == "none":  # calibration statistic: long-literal classes apart
                    k = "value." + ("data" if isdata else iface)
                    errs[k] = max(errs.get(k, 0.0), e)
                continue
            used_default = len(m["ov"]) < len(P.par_values)
            kk = known_key_for(P, iface, used_default)
            if kk:
                ref2, tol2, _ = asgen.value(iface, args, m["ov"])
                if close(obs, ref2, tol2):
                    fails.append((kk, "value explained by the truncated literal: " + desc + ", as-emitted reference %r" % ref2,
                                  fcall))
                    continue
                if kk in (K_CPAR6, K_XPAR6) and P.prog.get("longcat") == "param15":
                    # a c / c++ default written with 14 digits: the class of K_GPAR14 (15-17 digit literals)
                    ref3, tol3, _ = asgen14.value(iface, args, m["ov"])
                    if close(obs, ref3, tol3):
                        fails.append((K_GPAR14, "value explained by the default rounded to 14 digits: " + desc +
                                      ", as-emitted reference %r" % ref3, fcall))
                        continue
            fails.append(("C37.value." + iface, desc, fcall))
    # all interfaces agree (same parameter values): bit for bit, except when the body calls libm functions
    # that are not correctly rounded -- g++ folds such calls on compile-time constants (the c interface declares
    # its parameters constexpr) with exact rounding while the other interfaces call glibc at run time; there the
    # values must agree within the rounding tolerance
    libm = P.has_libm()
    for (stage, args), d in bykey.items():
        vals, tols = {}, []
        for i, (hv, ov, tol) in d.items():
            if stage == "defaults" and P.prog.get("longcat") in ("param", "param15") and (
                    (i == "c" and K_CPAR6 in KNOWN) or (i == "cxx" and K_XPAR6 in KNOWN)):
                continue  # the emitted default values differ between interfaces (known classes above)
            if stage == "defaults" and P.prog.get("longcat") == "param15" and K_GPAR14 in KNOWN:
                continue  # 14-digit defaults in one interface, 6 or 14 in the others
            if i == "c" and stage != "defaults" and P.par_values:
                continue  # no run-time override in the c interface
            vals[i] = MG.unhex(hv)
            tols.append(tol)
        if len(vals) < 2:
            continue
        fv = list(vals.values())
        if libm:
            bad = max(fv) - min(fv) > 2.0 * max(tols)
        else:
            bad = len(set(fv)) > 1
        if bad:
            fails.append(("C37.agree", "interfaces disagree at (%s) stage=%s: %s (%s)" % (
                ", ".join(repr(x) for x in args), stage, {k: v.hex() for k, v in vals.items()},
                "within-tolerance agreement demanded: libm calls" if libm else "bitwise agreement demanded"),
                {"args": [MG.hexf(x) for x in args], "stage": stage}))
    classes = ["kind." + prog["kind"], "longcat." + prog.get("longcat", "none"), "nin.%d" % P.nin]
    if isdata:
        classes += ["data." + str(P.interp), "extrap." + str(P.extrap), "points.%d" % len(P.ys_lit)]
    else:
        classes += ["npar.%d" % len(P.par_values)] + (["override"] if ov1 else []) + (["cond"] if P.cond else [])
    if irregular:
        classes.append("irregular_probe")
    nknown = 0
    for key, msg, fcall in [f for f in fails if f[0] in KNOWN]:
        # known class: the call is dropped and counted, the rest of the program is still checked
        kc = dict(case)
        if fcall:
            kc["failing_call"] = dict(fcall, key=key)
        MG.stash_known(key, msg + "\n--- program ---\n" + P.text, kc)
        nknown += 1
    fails = [f for f in fails if f[0] not in KNOWN]
    if nknown:
        classes.append("excluded_known_calls")
    if fails:
        want = (fc or {}).get("key")  # replay: the recorded finding first
        key, msg, fcall = ([f for f in fails if f[0] == want] or fails)[0]
        fcall = dict(fcall or {}, key=key)
        case["failing_call"] = fcall
        MG.note_failure()
        return Result(False, key=key, msg=msg + "\n--- program ---\n" + P.text)
    effective = False
    if ov1 and not isdata and V2:
        r0 = decl.value("generic", V2[0], {})[0]
        effective = any(decl.value("generic", V2[0], {i: v})[0] != r0 for i, v in ov1.items())
        if effective:
            classes.append("override_effective")
    nontrivial = (isdata and len(P.ys_lit) >= 2 and P.nin == 1) or (not isdata and P.nin >= 2 and effective)
    return Result(True, nontrivial=nontrivial, classes=classes, errs=errs,
                  sample={"law": P.law, "mfront": P.text, "calls": nval})


# --------------------------------------------------------------------------- repository files
TAB = [(293.15, 240e9), (693.15, 180e9), (893.15, 170e9)]


def tab_ref(interp, extrapolate):
    xs = [Fraction("293.15"), Fraction("693.15"), Fraction("893.15")]
    ys = [Fraction(240 * 10 ** 9), Fraction(180 * 10 ** 9), Fraction(170 * 10 ** 9)]

    def f(T):
        v, scale = MG.table_reference(xs, ys, interp, extrapolate, T)
        return float(v), MG.TOLK * (2000.0 if interp == "cubic_spline" else 16.0) * MG.EPS * float(scale)
    return lambda a, p: f(a[0])


def _inconel(TK):
    TC = TK - 273.15
    return (-3.1636e-3 * TC * TC - 3.8654 * TC + 2.1421e+4) * 1e7


def _t91_E(T):
    TC = T - 273.15
    xm1, xm2, xm3, ym1, ym2, ym3 = 20., 500., 900., 206000., 175000., 127000.
    mx = lambda a, b: a if a > b else b
    return 1.e6 * (mx(ym1 + ((ym2 - ym1) / (xm2 - xm1)) * (mx(TC, xm1) - xm1), ym2)
                   + mx(((ym3 - ym2) / (xm3 - xm2)) * (mx(TC, xm2) - xm2), ym3 - ym2))


def _growth(T):
    TC = T - 273.15
    TC2 = TC * TC
    return - 1.31450E-09 * TC2 + 9.54433E-06 * TC - 9.59985E-03


# (file, function name, inputs, parameters [(name, default)], reference(args, params), sample range)
REPO_FILES = [
    ("Inconel600_YoungModulus", "Inconel600_YoungModulus", 1, [], lambda a, p: _inconel(a[0]), (1.0, 1500.0)),
    ("VanadiumAlloy_YoungModulus_SRMA", "VanadiumAlloy_YoungModulus_SRMA", 1, [("E0", 127.8e9)],
     lambda a, p: p[0] * (1 - 7.825e-5 * ((a[0] - 273.15) - 20.)), (293.15, 973.15)),
    ("VanadiumAlloy_SpecificHeat_SRMA", "VanadiumAlloy_SpecificHeat_SRMA", 1, [],
     lambda a, p: 575.57 - (21094. / a[0]), (373.15, 873.15)),
    ("T91MartensiticSteel_growth_ROUX2007", "T91MartensiticSteel_growth_ROUX2007", 1, [], lambda a, p: _growth(a[0]),
     (1.0, 1500.0)),
    ("T91MartensiticSteel_YoungModulus_ROUX2007", "T91MartensiticSteel_YoungModulus_ROUX2007", 1, [],
     lambda a, p: _t91_E(a[0]), (1.0, 1500.0)),
    ("YoungModulusTest", "YoungModulusTest", 0, [], lambda a, p: 7.8e+10, None),
    ("ThermalExpansionCoefficientTest2", "ThermalExpansionCoefficientTest2", 1, [],
     lambda a, p: 2.e-5 * (1 + (a[0] - 273.15) / 500), (1.0, 1500.0)),
    ("LinearDataInterpolationTest", "LinearDataInterpolationTest", 1, [], tab_ref("linear", True), (1.0, 1500.0)),
    ("LinearDataInterpolationTest5", "LinearDataInterpolationTest5", 1, [], tab_ref("linear", False), (1.0, 1500.0)),
    ("CubicSplineDataInterpolationTest3", "CubicSplineDataInterpolationTest3", 1, [], tab_ref("cubic_spline", True),
     (1.0, 1500.0)),
]
REPO_THOROUGH = [
    ("VanadiumAlloy_ThermalConductivity_SRMA", "VanadiumAlloy_ThermalConductivity_SRMA", 1, [],
     lambda a, p: 27.827 + (0.008603 * a[0]), (293.15, 873.15)),
    ("VanadiumAlloy_PoissonRatio_SRMA", "VanadiumAlloy_PoissonRatio_SRMA", 1, [],
     lambda a, p: 0.3272 * (1 - 3.056e-5 * ((a[0] - 273.15) - 20)), (293.15, 973.15)),
    ("T91AusteniticSteel_YieldStress_ROUX2007", "T91AusteniticSteel_YieldStress_ROUX2007", 1, [],
     lambda a, p: -2.97e+05 * (a[0] - 273.15) + 2.498e+08, (1.0, 1500.0)),
    ("PoissonRatioTest_12", "PoissonRatioTest_12", 0, [], lambda a, p: 0.13, None),
]


class RepoProgram:
    def __init__(self, fname, nin, params):
        self.law = "repo_" + fname
        self.fname = fname
        self.nin = nin
        self.par_names = [n for n, _ in params]
        self.text = None

    wrapper_text = MG.Prepared.wrapper_text


def repo_case(entry):
    try:
        return _repo_case(entry)
    except Exception as e:  # a harness error must not be silent
        return entry[0], ("C37.repo.harness", "%s: %s: %s" % (entry[0], type(e).__name__, e)), None


def _repo_case(entry):
    fn, fname, nin, params, ref, rg = entry
    P = RepoProgram(fname, nin, params)
    P.text = open(os.path.join(REPO, "mfront", "tests", "properties", fn + ".mfront"), encoding="utf-8",
                  errors="replace").read()
    libs, err = MG.build(P, ROOT)
    if err:
        return fn, ("C37.repo.build", err), None
    rng = random.Random(SEED * 7919 + len(fn))
    vecs = [[]] if nin == 0 else [[rng.uniform(*rg)] for _ in range(40)] + [[rg[0]], [rg[1]], [293.15], [693.15], [893.15]]
    calls, meta = [], []
    for stage in (0, 1):
        pv = [d * (1.0 if stage == 0 else 1.25) for _, d in params]
        if stage == 1:
            if not params:
                break
            for (n, _), v in zip(params, pv):
                calls.append({"i": "gset", "name": n, "v": MG.hexf(v)})
                meta.append(None)
        for a in vecs:
            ha = [MG.hexf(x) for x in a]
            calls.append({"i": "g", "args": ha, "nargs": nin, "pol": 0, "errno": 0})
            meta.append(("generic", a, pv))
            calls.append({"i": "x", "args": ha, "pset": [[k, MG.hexf(v)] for k, v in enumerate(pv)] if stage else []})
            meta.append(("cxx", a, pv))
            if stage == 0:
                calls.append({"i": "c", "args": ha, "errno": 0})
                meta.append(("c", a, pv))
    res, err = MG.probe(P, libs, calls, os.path.join(ROOT, P.law), "A")
    if err:
        return fn, ("C37.repo.crash", err), None
    worst = 0.0
    for c, m, r in zip(calls, meta, res):
        if m is None:
            if r["rc"] != 1:
                return fn, ("C37.repo.setParameter", "%s: setParameter(%s) returned %d" % (fn, c["name"], r["rc"])), None
            continue
        iface, a, pv = m
        out = ref(a, pv)
        v, tol = out if isinstance(out, tuple) else (out, 8.0 * MG.ulp(out))
        obs = MG.unhex(r["v"])
        if not close(obs, v, tol):
            return fn, ("C37.repo.value." + iface, "%s: %s(%r) params=%r -> %r, hand-written reference %r (tol %.3g)" % (
                fn, iface, a, pv, obs, v, tol)), None
        worst = max(worst, abs(obs - v) / tol if tol else 0.0)
    return fn, None, worst


def fixed_tables(seed):
    """a guaranteed share of every run: @Data programs with >= 3 points that are not aligned, for both
    interpolation schemes, extrapolation on (default and explicit) and off; structure fixed, values from the seed"""
    rng = random.Random(seed * 104729 + 37)

    def lit(nd, emin, emax, signed=True):
        m = rng.randint(10 ** (nd - 1), 10 ** nd - 1)
        e = rng.randint(emin, emax)
        ms = str(m)
        return ("-" if signed and rng.random() < 0.5 else "") + ms[0] + "." + (ms[1:] or "0") + ("e%d" % e if e else "")
    out = []
    for interp, extrap, n in ((None, None, 3), ("linear", True, 5), ("linear", None, 8), ("linear", False, 4),
                              ("linear", "bound_to_last_value", 3), ("cubic_spline", None, 3),
                              ("cubic_spline", True, 6), ("cubic_spline", "constant", 4)):
        while True:
            d = {"x0": lit(rng.randint(1, 5), -1, 2), "dx": [lit(rng.randint(1, 3), -1, 2, False) for _ in range(n - 1)],
                 "y": [lit(rng.randint(1, 6), -2, 3) for _ in range(n)], "interp": interp, "extrap": extrap}
            xs = [Fraction(d["x0"])]
            for dx in d["dx"]:
                xs.append(xs[-1] + Fraction(dx))
            ys = [Fraction(y) for y in d["y"]]
            slopes = [(ys[i + 1] - ys[i]) / (xs[i + 1] - xs[i]) for i in range(n - 1)]
            # not aligned, and the first and last segments differ by a visible amount
            if abs(slopes[0] - slopes[-1]) > Fraction(1, 100) * max(abs(slopes[0]), abs(slopes[-1])) and len(set(slopes)) == n - 1:
                break
        out.append({"prog": {"kind": "data", "dsl": rng.randint(0, 2), "material": rng.random() < 0.5,
                             "useqt": rng.random() < 0.5, "outname": rng.randint(0, 2), "ob": None, "opb": None,
                             "event": None, "longcat": "none",
                             "inputs": [{"dom": "sym", "gloss": rng.random() < 0.5, "b": None, "pb": None}],
                             "data": d, "params": [], "overrides": [], "consts": [], "statics": [], "temps": []},
                    "probe_seed": rng.randint(0, 2 ** 31 - 1)})
    return out


def run_tables(u):
    cases = fixed_tables(SEED)
    MG.prebuild([c["prog"] for c in cases], ROOT, JOBS)
    for c in cases:
        try:
            r = check_case(c)
        except Reject:
            u.discard("tables")
            continue
        if r.ok:
            u.case("tables", c, r.nontrivial, r.classes, r.errs, r.sample)
        else:
            u.fail("tables", r.key, r.msg, c)
    MG.SHRINK["failed"] = False  # these cases are not shrunk; the Hypothesis run keeps its own budget


def replay_repo(case):
    for e in REPO_FILES + REPO_THOROUGH:
        if e[0] == case["file"]:
            fn, fail, worst = repo_case(e)
            return Result(fail is None, key=fail[0] if fail else "", msg=fail[1] if fail else "")
    return Result(True)


def main():
    replay_main({"gen": check_case, "tables": check_case, "repo": replay_repo})
    u = Unit("C37_matprop")
    n = int(param("cases", 40))
    strat = MG.strategies("c37")
    only = os.environ.get("VERIF_ONLY", "")
    if only in ("", "tables"):
        run_tables(u)
    if only in ("", "gen"):
        import time
        t0 = time.time()
        cases = MG.collect_cases(strat, n, SEED)
        t1 = time.time()
        MG.prebuild([c["prog"] for c in cases], ROOT, JOBS)
        t2 = time.time()
        run_hypothesis(u, "gen", strat, check_case, max_examples=n)
        MG.flush_known(u, "gen")
        u.note("phases: generate %.0f s, mfront + g++ (parallel, cached) %.0f s, probe + oracle %.0f s" % (
            t1 - t0, t2 - t1, time.time() - t2))
        print(u.notes[-1], flush=True)
    if only in ("", "repo"):
        entries = REPO_FILES + (REPO_THOROUGH if TIER == "thorough" else [])
        for fn, fail, worst in parallel_map(repo_case, entries, JOBS):
            if fail:
                u.fail("repo", fail[0], fail[1], {"file": fn})
            else:
                u.case("repo", {"file": fn}, nontrivial=True, classes=["file." + fn], errs={"repo.value": worst})
    MG_prune()
    sys.exit(u.finish())


def MG_prune():
    try:
        from verifpy import prune_cache
        prune_cache()
    except Exception:
        pass


if __name__ == "__main__":
    main()
