#!/usr/bin/env python3-vt
"""C16 - tfel::math::ieee754::fpclassify / isnan / isfinite are bit-exact for
every value, whatever the optimisation flags.

Enumeration, not sampling: engine/tools/C16_enum.cxx (the only TU that includes
TFEL/Math/General/IEEE754.hxx) is compiled once per flag set and linked with
engine/tools/C16_oracle.cxx (g++ -O2, never fast-math), which walks the bit
patterns, owns the two oracles (integer decoders + glibc) and compares.

  sub "float_all"  : all 2^32 float patterns, per flag set, "loop" variant
                     (+ "call" variant: one out-of-line call per value)
  sub "structured" : float/double/x87 long double: every exponent x structured
                     + random mantissas (+ random patterns), loop + call,
                     + values classified by constant evaluation
A case is (flag set, variant, type, bit pattern); it is non-trivial when the
pattern is not an FP_NORMAL number.  `distinct` counts strata (flag set,
variant, type, class/x87 kind), the raw pattern counts are in `classes`.
"""
import json
import os
import random
import sys
import time

from verifpy import (Unit, Result, REPO, BUILD, WORK, JOBS, SEED, TIER, VERIF, param, run, libdirs,
                     parallel_map, replay_requested, load_replay, fnv)

TOOLS = os.path.join(VERIF, "engine", "tools")

QUICK_FLAGSETS = [
    ["g++", "-O2"],
    ["g++", "-O3 -ffast-math"],
    ["g++", "-Ofast -ffinite-math-only"],
    ["clang++", "-O2"],
    ["clang++", "-O3 -ffast-math"],
    ["clang++", "-Ofast -ffinite-math-only"],
]
THOROUGH_EXTRA = [
    ["g++", "-O0"],
    ["g++", "-O1 -ffinite-math-only"],
    ["g++", "-Os -ffast-math"],
    ["g++", "-O3 -ffast-math -march=native -funroll-loops"],
    ["clang++", "-O0"],
    ["clang++", "-O1 -ffinite-math-only"],
    ["clang++", "-O3 -ffast-math -march=native"],
]


def flagname(fs):
    return fs[0] + " " + fs[1]


def build_oracle(workdir):
    o = os.path.join(workdir, "C16_oracle.o")
    rc, so, se = run(["g++", "-std=c++20", "-O2", "-w", "-c", os.path.join(TOOLS, "C16_oracle.cxx"), "-o", o])
    if rc != 0:
        raise SystemExit("C16: oracle TU does not compile:\n" + "\n".join(
            l for l in se.splitlines() if "error" in l)[:3000])
    return o


def build_variant(workdir, oracle_o, idx, fs):
    """compile the tested TU with the flag set and link it with the oracle object"""
    obj = os.path.join(workdir, "C16_enum_%d.o" % idx)
    exe = os.path.join(workdir, "C16_x%d" % idx)
    cmd = [fs[0], "-std=c++20", "-w"] + fs[1].split() + [
        '-DC16_FLAGSET="%s"' % flagname(fs),
        "-I" + os.path.join(REPO, "include"), "-I" + os.path.join(BUILD, "include"),
        "-c", os.path.join(TOOLS, "C16_enum.cxx"), "-o", obj]
    rc, so, se = run(cmd)
    if rc != 0:
        return None, "\n".join(l for l in se.splitlines() if "error" in l)[:3000]
    ld = libdirs().get("TFELException")
    cmd = ["g++", oracle_o, obj, "-o", exe, "-lpthread"]
    if ld:
        cmd += ["-L" + ld, "-Wl,-rpath," + ld, "-lTFELException"]
    rc, so, se = run(cmd)
    if rc != 0:
        return None, se[-3000:]
    return exe, ""


def run_enum(exe, args, timeout=3000):
    rc, so, se = run([exe] + [str(a) for a in args], timeout=timeout)
    try:
        d = json.loads(so.strip().splitlines()[-1])
    except Exception:
        return rc, None, (so + se)[-2000:]
    return rc, d, ""


CLASS_NAMES = {0: "FP_NAN", 1: "FP_INFINITE", 2: "FP_ZERO", 3: "FP_SUBNORMAL", 4: "FP_NORMAL"}


def describe(code):
    return "%s isnan=%d isfinite=%d" % (CLASS_NAMES.get(code & 0xf, "class %d" % (code & 0xf)),
                                        (code >> 4) & 1, (code >> 5) & 1)


def key_of(m):
    t = {"float": "float", "double": "double", "long double": "ldouble"}[m["type"]]
    return "C16.%s.%s" % (t, CLASS_NAMES.get(m["expected"] & 0xf, "x").lower())


def msg_of(fs, m):
    return "%s pattern %s, variant %s, built with `%s`: TFEL says %s, expected %s" % (
        m["type"], m["bits"], m["variant"], flagname(fs), describe(m["got"]), describe(m["expected"]))


def check_case(case):
    """replay: recompile the flag set and check that single pattern"""
    wd = os.path.join(WORK, "replay_build")
    os.makedirs(wd, exist_ok=True)
    exe, err = build_variant(wd, build_oracle(wd), 0, case["flagset"])
    if exe is None:
        return Result(False, "C16.build", "tested TU does not compile with `%s`: %s" % (flagname(case["flagset"]), err))
    if case.get("variant") == "constexpr":
        rc, d, err = run_enum(exe, ["constexpr"])
    else:
        t = {"float": "f", "double": "d", "long double": "l"}[case["type"]]
        rc, d, err = run_enum(exe, ["single", t, case["bits"]])
    if d is None:
        return Result(False, "C16.crash", "enumeration program failed (exit %s): %s" % (rc, err))
    if d["mismatches"]:
        m = d["first_mismatches"][0]
        return Result(False, key_of(m), msg_of(case["flagset"], m))
    return Result(True, nontrivial=True)


def main():
    rp = replay_requested()
    if rp is not None:
        d = load_replay(rp)
        r = check_case(d["case"])
        if r.ok:
            print("REPLAY-PASSES")
            sys.exit(0)
        print("REPLAY-FAILS key=%s msg=%s" % (r.key, r.msg))
        sys.exit(1)

    u = Unit("C16_ieee754")
    flagsets = list(QUICK_FLAGSETS)
    if TIER == "thorough" or param("extra_flagsets", False):
        flagsets += THOROUGH_EXTRA
    nrandom = int(param("cases", 200000))        # random patterns per type in the structured sub
    float_full = bool(param("float_full", True))  # complete enumeration of the 2^32 floats
    call_full = bool(param("call_full", True))    # ... also through one call per value
    glibc_all = bool(param("glibc_all", TIER == "thorough"))
    threads = max(1, JOBS)
    rnd = random.Random(SEED)

    t0 = time.time()
    oracle_o = build_oracle(WORK)
    built = parallel_map(lambda a: build_variant(WORK, oracle_o, a[0], a[1]), list(enumerate(flagsets)),
                         jobs=min(threads, len(flagsets)))
    exes = []
    for fs, (exe, err) in zip(flagsets, built):
        if exe is None:
            # a flag set the compiler rejects cannot decide anything
            u.note("flag set `%s` skipped: %s" % (flagname(fs), err[:300]))
            if fs in QUICK_FLAGSETS:
                print("BROKEN: tested TU does not compile with `%s`:\n%s" % (flagname(fs), err))
                u.finish()
                sys.exit(2)
            continue
        exes.append((fs, exe))
    u.extra["build_s"] = round(time.time() - t0, 1)
    u.extra["flagsets"] = [flagname(fs) for fs, _ in exes]

    broken = []

    def account(sub, fs, d, variants):
        s = u._sub(sub)
        s["evaluations"] += d["evaluations"]
        s["nontrivial"] += d["nontrivial"]
        for k, v in d["classes"].items():
            s["classes"][k] = s["classes"].get(k, 0) + v
            cls = k.split(".")[1]
            if v and cls != "normal" and not (k.startswith("ldouble.")):
                for var in variants:
                    h = fnv([flagname(fs), var, k])
                    if h not in s["hashes"]:
                        s["hashes"].add(h)
                        if len(s["samples"]) < 3:
                            s["samples"].append({"flagset": flagname(fs), "variant": var, "class": k, "patterns": v})
        for k, v in d["variants"].items():
            if v:
                s["classes"]["variant." + k] = s["classes"].get("variant." + k, 0) + v
        for m in d["first_mismatches"][:3]:
            case = {"flagset": fs, "type": m["type"], "bits": m["bits"], "variant": m["variant"],
                    "got": m["got"], "expected": m["expected"]}
            u.fail(sub, key_of(m), msg_of(fs, m) + " (%d mismatching patterns in this run)" % d["mismatches"], case)
        if d["oracle_disagreements"]:
            broken.append("the two oracles disagree (%d patterns), e.g. %s" % (
                d["oracle_disagreements"], json.dumps(d["first_oracle_disagreements"][:2])))

    # ---- structured + random patterns of the three types, all flag sets at once
    per = max(1, threads // max(1, len(exes)))
    seeds = [rnd.getrandbits(48) for _ in exes]
    res = parallel_map(lambda a: run_enum(a[0][1], ["strat", per, a[1], nrandom]), list(zip(exes, seeds)),
                       jobs=min(threads, len(exes)))
    for (fs, exe), (rc, d, err) in zip(exes, res):
        if d is None:
            broken.append("`%s` strat: exit %s %s" % (flagname(fs), rc, err))
            continue
        account("structured", fs, d, ["loop", "call"])

    # ---- all 2^32 float patterns
    complete = float_full
    if float_full:
        for i, (fs, exe) in enumerate(exes):
            rc, d, err = run_enum(exe, ["float-full", threads, 0, 1 if (i == 0 or glibc_all) else 0])
            if d is None:
                broken.append("`%s` float-full: exit %s %s" % (flagname(fs), rc, err))
                complete = False
                continue
            complete = complete and d["evaluations"] == 2 ** 32
            account("float_all", fs, d, ["loop"])
            if call_full:
                rc, d, err = run_enum(exe, ["float-call", threads, 0, 0, 2 ** 32])
                if d is None:
                    broken.append("`%s` float-call: exit %s %s" % (flagname(fs), rc, err))
                    continue
                account("float_all", fs, d, ["call"])
    if complete:
        u.top["exhaustive"] = True
        u.top["explanation"] = ("float: every one of the 2^32 bit patterns is classified under each of the %d flag sets "
                                "(exhaustive over the inputs of the float overloads on this platform/compilers); "
                                "double and x87 long double: every exponent x structured and random mantissas "
                                "(stratified, not exhaustive)" % len(exes))
    u.extra["wall_s"] = round(time.time() - t0, 1)
    rcode = u.finish()
    for b in broken:
        print("BROKEN: " + b)
    sys.exit(2 if (broken and not rcode) else rcode)


main()
