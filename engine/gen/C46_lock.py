"""C46 - the mfront inter-process lock (POSIX named semaphore /mfront-<euid>)
provides mutual exclusion for every history of runs.

A case is a *history*:
  phase 1: 0..6 sequential runs, each one of
     touch          process that instantiates MFrontLock and exits normally
     sections       process that performs k guarded sections (MFrontLockGuard), leaving by
                    return from main / std::exit / _exit (no static destructor)
     killed         process that instantiates the lock and is SIGKILLed outside any section
     mfront         the real `mfront --interface=generic` of the hooks tree on a tiny file
  phase 2: 2..8 (thorough: ..16) concurrent actors (1..5 guarded sections each, hook-controlled dwell time
     0..5 ms inside a section, gaps, start offsets; event based start barrier) and 0..1
     concurrent real mfront.
All processes run under a dedicated uid (64000 + pid of this unit % 1000) so the semaphore
is private to the history; it is sem_unlink'ed before each history.

Oracle
  (i)  value: sem_getvalue between runs (nobody holds the lock) must be 1 once the semaphore
       exists ("never admits more holders than it was created with")
  (ii) trace: the [E,X] intervals written by the THELFER_TFEL_VERIF markers of MFrontLockGuard
       (E after the lock is obtained, X before it is released: a traced overlap is a real one)
       of different pids never overlap.
Known-finding classifier (the search continues behind it): a value equal to
1 + (number of lock-instantiating processes that exited normally so far) and an overlap of at
most that many holders are the class `after_normal_exit`; anything else gets another key.

Two thirds of the histories are drawn with exits = "fast": every process leaves through _exit
or is killed and no real mfront runs, so that no static destructor runs: these are the
histories *behind* the known finding (every history with a normal exit is in its class).

Non-trivial: phase 1 has >= 1 run that instantiated the lock and terminated (DESIGN: "exited
normally"; relaxed because those histories all belong to the known class) and phase 2 has
>= 2 actors whose sections were requested within 1 ms of each other.
"""
import hashlib
import os
import shutil
import signal
import stat
import subprocess
import sys
import time

import verifpy
from verifpy import (Unit, Result, Reject, run_hypothesis, replay_main, SEED, TIER, WORK, REPO, BUILD, VERIF, KNOWN,
                     param, tool, run)

UID = 64000 + os.getpid() % 1000
MUTANT_SRC = os.environ.get("C46_MUTANT_SRC", "")  # sensitivity runs: mutated MFrontLock.cxx compiled into the actor
NO_MFRONT = os.environ.get("C46_NO_MFRONT", "") == "1" or bool(MUTANT_SRC)

_actor = [None]
PREFER = [None]


def actor():
    if _actor[0] is None:
        src = os.path.join(VERIF, "engine", "tools", "C46_lock_actor.cxx")
        h = hashlib.sha1(open(src, "rb").read() + verifpy.header_tree_digest().encode() +
                         (open(MUTANT_SRC, "rb").read() if MUTANT_SRC else b"")).hexdigest()[:16]
        out = os.path.join(VERIF, "build", "cache", "C46_lock_actor-" + h)
        if not os.path.exists(out):
            os.makedirs(os.path.dirname(out), exist_ok=True)
            ld = verifpy.libdirs()
            cmd = ["g++", "-std=c++20", "-O1", "-w", "-DTHELFER_TFEL_VERIF", "-I" + os.path.join(REPO, "include"),
                   "-I" + os.path.join(BUILD, "include"), "-I" + os.path.join(REPO, "mfront", "include"), src]
            if MUTANT_SRC:
                cmd.append(MUTANT_SRC)
            cmd += ["-o", out + ".tmp%d" % os.getpid()]
            for l in ("TFELMFront", "MFrontLogStream", "TFELSystem", "TFELException"):
                cmd += ["-L" + ld[l], "-Wl,-rpath," + ld[l], "-l" + l]
            rc, so, se = run(cmd, timeout=900)
            if rc != 0:
                raise RuntimeError("cannot build C46_lock_actor: " + "\n".join(
                    l for l in se.splitlines() if "error" in l or "undefined" in l)[-1500:])
            os.replace(out + ".tmp%d" % os.getpid(), out)
            os.chmod(out, 0o755)
        _actor[0] = out
    return _actor[0]


def act(*args, env=None, timeout=60):
    rc, so, se = run([actor(), str(UID)] + [str(a) for a in args], timeout=timeout, env=env)
    if rc == -999:
        raise Reject()  # time budget: inconclusive
    return rc, so.strip(), se


def sem_value():
    rc, so, se = act("value")
    if so == "absent":
        return None
    try:
        return int(so)
    except ValueError:
        raise RuntimeError("actor value: %r %r" % (so, se))


TINY = """@Parser MaterialLaw;
@Law C46Tiny;
@Output y;
@Input x;
@Function{
  y = 2*x;
}
"""


def child_env(trace, dwell_us):
    e = dict(os.environ)
    e["TFEL_VERIF_LOCK_TRACE"] = trace
    e["TFEL_VERIF_LOCK_DWELL_US"] = str(int(dwell_us))
    e["HOME"] = "/tmp"
    return e


def demote():
    os.setgid(UID)
    os.setuid(UID)


def start_mfront(workdir, n, trace, dwell_us):
    d = os.path.join(workdir, "mf%d" % n)
    os.makedirs(d, exist_ok=True)
    with open(os.path.join(d, "tiny.mfront"), "w") as f:
        f.write(TINY)
    os.chmod(d, 0o777)
    return subprocess.Popen([tool("mfront"), "--interface=generic", "tiny.mfront"], cwd=d, env=child_env(trace, dwell_us),
                            stdout=subprocess.PIPE, stderr=subprocess.PIPE, preexec_fn=demote)


def parse_trace(path):
    """returns list of (pid, E, X) intervals; raises on malformed sequences"""
    ev = []
    if os.path.exists(path):
        for l in open(path):
            p = l.split()
            if len(p) == 3:
                ev.append((int(p[2]), int(p[0]), p[1]))
    ev.sort()
    open_ = {}
    out = []
    bad = []
    for t, pid, k in ev:
        if k == "E":
            if pid in open_:
                bad.append("pid %d entered twice" % pid)
            open_[pid] = t
        else:
            if pid not in open_:
                bad.append("pid %d left a section it did not enter" % pid)
            else:
                out.append((pid, open_.pop(pid), t))
    for pid, t in open_.items():
        bad.append("pid %d never left its section" % pid)
    return out, bad


def max_overlap(intervals):
    """(max number of simultaneous holders, description of a witness, time of the witness)"""
    pts = []
    for pid, a, b in intervals:
        pts.append((a, 1, pid))
        pts.append((b, 0, pid))
    pts.sort()  # exits (0) before entries (1) at equal times
    cur = set()
    best, wit, tw = 0, "", 0
    for t, k, pid in pts:
        if k == 1:
            cur.add(pid)
            if len(cur) > best:
                best, wit, tw = len(cur), "pids %s inside at t=%d ns" % (sorted(cur), t), t
        else:
            cur.discard(pid)
    return best, wit, tw


def effective(case):
    """histories drawn with exits == "fast" never run a static destructor (all processes leave
    through _exit or are killed, no real mfront): they exercise the lock itself, behind the
    known finding about normal exits"""
    if case.get("exits") != "fast":
        return case
    c = dict(case)
    c["phase1"] = [dict(r, exit="_exit") if r["kind"] == "sections" else
                   ({"kind": "sections", "k": 1, "dwell_us": 0, "exit": "_exit"} if r["kind"] in ("touch", "mfront") else r)
                   for r in case["phase1"]]
    c["phase2"] = [dict(a, exit="_exit") for a in case["phase2"]]
    c["mfront2"] = False
    return c


def check_case(case):
    case = effective(case)
    hid = hashlib.sha1(verifpy.canonical(case).encode()).hexdigest()[:10]
    wd = os.path.join(WORK, "h" + hid + ".%d" % os.getpid())
    shutil.rmtree(wd, ignore_errors=True)
    os.makedirs(wd)
    os.chmod(wd, 0o777)
    trace = os.path.join(wd, "trace.txt")
    open(trace, "w").close()
    os.chmod(trace, 0o666)
    violations = []  # (key, msg)
    classes = []
    try:
        act("unlink")
        if sem_value() is not None:
            raise RuntimeError("semaphore still present after sem_unlink")
        normal_exits = 0  # lock-instantiating processes that ran the static destructor so far
        instantiated = False
        nmf = 0

        def value_check(after, kind):
            v = sem_value()
            if v is None:
                if instantiated:
                    violations.append(("C46.sem_value.absent", "semaphore absent after %s" % after))
                return
            if v == 1:
                return
            if v == 1 + normal_exits:
                violations.append(("C46.sem_value.after_normal_exit",
                                   "sem_getvalue = %d with no holder after %s: %d process(es) that instantiated the lock "
                                   "exited normally, each posted the semaphore once" % (v, after, normal_exits)))
            else:
                violations.append(("C46.sem_value." + kind,
                                   "sem_getvalue = %d with no holder after %s (created with 1; %d normal exits so far)" % (
                                       v, after, normal_exits)))

        # ---------------- phase 1
        for i, r in enumerate(case["phase1"]):
            k = r["kind"]
            classes.append("p1." + k + ("." + r["exit"] if k == "sections" else ""))
            if k == "touch":
                rc, so, se = act("touch", env=child_env(trace, 0))
                ok = rc == 0
                normal_exits += 1
            elif k == "sections":
                mode = {"return": "sections", "exit": "sections_exit", "_exit": "sections_fast"}[r["exit"]]
                rc, so, se = act(mode, r["k"], 0, 0, env=child_env(trace, r["dwell_us"]))
                ok = rc == 0
                if r["exit"] != "_exit":
                    normal_exits += 1
            elif k == "killed":
                rc, so, se = act("killed", env=child_env(trace, 0))
                ok = rc == -signal.SIGKILL
            else:
                if NO_MFRONT:
                    continue
                p = start_mfront(wd, nmf, trace, r.get("dwell_us", 0))
                nmf += 1
                try:
                    so, se = p.communicate(timeout=120)
                except subprocess.TimeoutExpired:
                    p.kill()
                    raise Reject()
                rc, ok = p.returncode, p.returncode == 0
                so, se = so.decode(errors="replace"), se.decode(errors="replace")
                normal_exits += 1
            if not ok:
                raise RuntimeError("phase 1 run %d (%s) failed: rc=%s %s %s" % (i, k, rc, so[-300:], se[-300:]))
            instantiated = True
            value_check("run %d of phase 1 (%s)" % (i, k if k != "sections" else "sections, leaving by " + r["exit"]),
                        "after_" + (k if k != "sections" else "sections_" + r["exit"].strip("_")))
        value_at_phase2 = sem_value()
        exits_before_phase2 = normal_exits
        # ---------------- phase 2
        procs = []
        for j, a in enumerate(case["phase2"]):
            mode = {"return": "sections", "exit": "sections_exit", "_exit": "sections_fast"}[a["exit"]]
            p = subprocess.Popen([actor(), str(UID), mode, str(a["k"]), str(a["gap_us"]), "-1"], stdin=subprocess.PIPE,
                                 stdout=subprocess.PIPE, stderr=subprocess.PIPE, env=child_env(trace, a["dwell_us"]))
            procs.append(p)
        deadline = time.time() + 60
        for p in procs:
            l = p.stdout.readline()
            if l.strip() != b"ready" or time.time() > deadline:
                for q in procs:
                    q.kill()
                raise Reject()
        t0 = time.monotonic_ns() + 3000000
        mf = None
        if case.get("mfront2") and not NO_MFRONT:
            mf = start_mfront(wd, nmf, trace, case.get("mfront2_dwell_us", 0))
        for p, a in zip(procs, case["phase2"]):
            p.stdin.write(b"%d\n" % (t0 + 1000 * a["offset_us"]))
            p.stdin.flush()
        requests = []
        done = {}
        for p, a in zip(procs, case["phase2"]):
            try:
                so, se = p.communicate(timeout=90)
            except subprocess.TimeoutExpired:
                for q in procs:
                    q.kill()
                if mf is not None:
                    mf.kill()
                # a lock that is never obtained again would be a defect of its own,
                # but a time budget is not an oracle: inconclusive
                raise Reject()
            if p.returncode != 0:
                raise RuntimeError("phase 2 actor failed rc=%s %s" % (p.returncode, se.decode(errors="replace")[-300:]))
            for l in so.decode().splitlines():
                w = l.split()
                if len(w) == 3 and w[0] == "R":
                    requests.append((int(w[2]), int(w[1])))
                if len(w) == 3 and w[0] == "D" and a["exit"] != "_exit":
                    done[int(w[1])] = int(w[2])
        if mf is not None:
            try:
                so, se = mf.communicate(timeout=120)
            except subprocess.TimeoutExpired:
                mf.kill()
                raise Reject()
            if mf.returncode != 0:
                raise RuntimeError("phase 2 mfront failed: " + se.decode(errors="replace")[-300:])
        normal_exits += sum(1 for a in case["phase2"] if a["exit"] != "_exit") + (1 if mf is not None else 0)
        instantiated = True
        value_check("phase 2", "after_phase2")
        # ---------------- trace
        intervals, bad = parse_trace(trace)
        if bad:
            violations.append(("C46.trace.malformed", "; ".join(bad[:3])))
        holders, wit, tw = max_overlap(intervals)
        if holders >= 2:
            # holders explained by the known defect: the semaphore was worth
            # 1 + (normal exits that happened before the witness time)
            # (the exit time of a concurrent real mfront is not known: counted as possibly before)
            allowed = 1 + exits_before_phase2 + sum(1 for pid, t in done.items() if t < tw) + (1 if mf is not None else 0)
            start_value = 1 if value_at_phase2 is None else value_at_phase2  # absent: created with 1 by the first actor
            if start_value == 1 + exits_before_phase2 and holders <= allowed and allowed >= 2:
                violations.append(("C46.overlap.after_normal_exit",
                                   "%d processes inside a lock-protected section at the same time (%s); before that, %d "
                                   "process(es) had instantiated the lock and exited normally" % (holders, wit, allowed - 1)))
            else:
                violations.append(("C46.overlap", "%d processes inside a lock-protected section at the same time (%s); "
                                   "semaphore value at the start of phase 2: %s" % (holders, wit, value_at_phase2)))
        # ---------------- non-trivial rule
        requests.sort()
        close = any(b[0] - a[0] <= 1000000 and a[1] != b[1] for a, b in zip(requests, requests[1:]))
        # DESIGN's rule asks for a phase-1 run that exited *normally*; all those histories are in
        # the known class C46.*.after_normal_exit, so for the histories behind it the rule is
        # relaxed to "a phase-1 run instantiated the lock and terminated"
        nontrivial = (exits_before_phase2 >= 1 or len(case["phase1"]) >= 1) and close
        classes.append("exits." + ("normal_present" if normal_exits else "fast_or_killed_only"))
        if close:
            classes.append("p2.requests_within_1ms")
        classes.append("p2.actors.%d" % len(case["phase2"]))
        if holders >= 2:
            classes.append("observed.overlap")
    finally:
        try:
            act("unlink")
        except Exception:
            pass
        shutil.rmtree(wd, ignore_errors=True)
    if violations:
        # prefer a violation that is not a listed known finding
        # (a replay reports the violation its file was saved for, when it shows again)
        new = [v for v in violations if v[0] == PREFER[0]] or [v for v in violations if v[0] not in KNOWN]
        key, msg = (new or violations)[0]
        return Result(False, key, msg + " [history: %s]" % verifpy.canonical(case)[:600])
    return Result(True, nontrivial=nontrivial, classes=classes)


def check_confirmed(case):
    """generation mode: a schedule-dependent failure is only reported (and shrunk) when the
    history fails 3 times out of 3; otherwise it is a flaky observation (not a violation).
    Known-class failures are deterministic consequences of the history: no confirmation."""
    r = check_case(case)
    if r.ok or r.key in KNOWN:
        return r
    for _ in range(2):
        r2 = check_case(case)
        if r2.ok or r2.key in KNOWN:
            return Result(True, nontrivial=False, classes=["flaky_observation"])
        r = r2
    return r


def strategy():
    from hypothesis import strategies as st
    # Hypothesis shrinks sampled_from towards the first element and integers towards the
    # lower bound: lists are ordered (and k is mirrored) so that shrinking goes towards the
    # *decisive* histories (long dwell, many sections, simultaneous requests)
    dwell = st.sampled_from([5000, 3000, 1000, 200, 0, 0])
    exit_ = st.sampled_from(["return", "return", "exit", "_exit"])
    run1 = st.one_of(
        st.fixed_dictionaries({"kind": st.just("touch")}),
        st.fixed_dictionaries({"kind": st.just("sections"), "k": st.integers(1, 3), "dwell_us": dwell, "exit": exit_}),
        st.fixed_dictionaries({"kind": st.just("killed")}),
        st.fixed_dictionaries({"kind": st.just("mfront"), "dwell_us": dwell}),
    )
    act2 = st.fixed_dictionaries({"k": st.integers(1, 5).map(lambda x: 6 - x), "gap_us": st.sampled_from([0, 0, 200, 1000]),
                                  "offset_us": st.sampled_from([0, 0, 0, 100, 500, 2000]), "dwell_us": dwell, "exit": exit_})
    nmax = int(param("max_actors", 8))
    return st.fixed_dictionaries({
        "phase1": st.lists(run1, min_size=0, max_size=6),
        # (explicit size draw: st.lists alone is heavily biased towards min_size)
        "phase2": st.sampled_from([n for n in (2, 2, 3, 4, 5, 6, 8, 12, 16) if n <= max(2, nmax)]).flatmap(
            lambda n: st.lists(act2, min_size=n, max_size=n)),
        "exits": st.sampled_from(["fast", "fast", "any"]),
        "mfront2": st.booleans(),
        "mfront2_dwell_us": dwell,
    })


if __name__ == "__main__":
    if os.geteuid() != 0:
        print("C46 needs root (setuid to a dedicated uid)")
        sys.exit(2)
    if verifpy.replay_requested():
        PREFER[0] = verifpy.load_replay(verifpy.replay_requested()).get("key")
    replay_main({"histories": check_case})
    u = Unit("C46_lock")
    actor()
    run_hypothesis(u, "histories", strategy(), check_confirmed, max_examples=int(param("cases", 60)))
    sys.exit(u.finish())
