#!/usr/bin/env python3-vt
"""C48 - MTest enforces imposed loadings and reaches every requested time.

Generated: behaviour (Hooke, Norton, J2 plasticity isotropic / kinematic) x modelling hypothesis x
mixed strain / stress loading paths (table (LPI), function of t, constant evolutions, tables that start
after / end before the time span) x random non uniform time grids with `in n` sub-divisions x solver options
(@StrainEpsilon, @StressEpsilon, stiffness type, prediction policy, acceleration algorithm,
@MaximumNumberOfSubSteps, @MaximumNumberOfIterations, @DynamicTimeStepScaling + @MaximalTimeStep,
@OutputFrequency) x injected integration failures (fault script of the behaviours) that force sub-stepping.

Oracle, on the .res file of every run that completes (exit status 0):
  * the output times are the requested times (requested times form the whole first column with
    @OutputFrequency UserDefinedTimes, a sub-sequence of a strictly increasing column with EveryPeriod),
    the last row is the last requested time;
  * on every row after the initial state, every imposed strain component equals its evolution within
    @StrainEpsilon and every imposed stress component equals its evolution within @StressEpsilon
    (+ rounding of the 15 digits print + Lipschitz constant x the 100 ulp slack of the end-of-period test of
    GenericSolver::execute);  the evolutions are evaluated by the harness (LPI: linear interpolation,
    constant outside of the table, as documented in docs/mtest/Evolution.md).
A run ending with a reported error (std::terminate + what(), e.g. "maximum number of sub stepping
reached") is inconclusive.
"""
import math
import re
import sys

from hypothesis import strategies as st

from verifpy import Unit, Result, Reject, replay_main, param, SEED
import mtest_gen as g

U = Unit("C48_loadings")


def options_strategy():
    @st.composite
    def opt(draw):
        o = {"eeps": 10 ** draw(st.floats(-14., -8.)), "seps": 10 ** draw(st.floats(-4., 2.)),
             "substeps": draw(st.integers(4, 12))}
        if draw(st.booleans()):
            o["stiffness"] = draw(st.sampled_from(g.STIFFNESS_TYPES))
        if draw(st.integers(0, 3)) == 0:
            o["prediction"] = draw(st.sampled_from(g.PREDICTION_POLICIES))
        if draw(st.integers(0, 3)) == 0:
            a = draw(st.sampled_from(sorted(g.ACCELERATION_ALGORITHMS)))
            o["accel"] = [a, {k: draw(st.integers(lo, hi)) for k, (lo, hi) in g.ACCELERATION_ALGORITHMS[a].items()}]
        if draw(st.integers(0, 4)) == 0:
            o["itermax"] = draw(st.integers(3, 12))
        mode = draw(st.sampled_from(["plain", "faults", "faults", "faults", "dynamic", "dynamic",
                                     "behaviour_dt", "behaviour_dt"]))
        if mode == "faults":
            n = draw(st.integers(1, 3))
            f = set()
            for _ in range(n):
                k = draw(st.integers(0, 20))
                f.add(k)
                if draw(st.booleans()):
                    f.add(k + 1)  # nested failure: the first half step fails again
            o["faults"] = sorted(f)
        elif mode == "dynamic":
            o["dynamic"] = True
            o["maxdt_fraction"] = draw(st.floats(0.07, 1.5))  # x the smallest requested step
            # without @MinimalTimeStep the end-of-period clamp of GenericSolver::execute is dead (known finding):
            # half of the dynamic cases set it, and force a rejected step so that @MaximalTimeStep acts
            o["mindt"] = draw(st.booleans())
            if draw(st.booleans()):
                o["faults"] = [draw(st.integers(0, 20))]
        elif mode == "behaviour_dt":
            # the behaviour itself rejects the steps larger than a generated target (parameter verif_dtmax of the
            # library) and proposes the NON DYADIC factor target/dt; @MinimalTimeStep is given, @MaximalTimeStep
            # with or without: the last sub-step of every period has to be clipped to end at the requested time
            o["dynamic"] = True
            o["mindt"] = True
            o["substeps"] = 200
            o["bdt_fraction"] = draw(st.floats(0.07, 0.95))  # x the smallest requested step
            o["growth"] = draw(st.sampled_from([1.0, 1.0, 1.5, 2.7]))
            if draw(st.booleans()):
                o["maxdt_fraction"] = draw(st.floats(0.3, 1.5))
            if draw(st.booleans()):
                o["maxscale"] = draw(st.sampled_from([1.2, 1.5, 3.0]))
            if draw(st.integers(0, 2)) == 0:
                o["faults"] = [draw(st.integers(0, 30))]
        o["outfreq"] = draw(st.sampled_from(["UserDefinedTimes", "UserDefinedTimes", "EveryPeriod"]))
        return o

    return opt()


def case_strategy():
    return st.fixed_dictionaries({"pb": g.st_problem(st), "opt": options_strategy()})


def option_lines(case, times):
    o = case["opt"]
    L = [["@OutputFilePrecision", "15"], ["@StrainEpsilon", g.fmt(o["eeps"])], ["@StressEpsilon", g.fmt(o["seps"])],
         ["@MaximumNumberOfSubSteps", str(o["substeps"])]]
    if "stiffness" in o:
        L.append(["@StiffnessMatrixType", "'%s'" % o["stiffness"]])
    if "prediction" in o:
        L.append(["@PredictionPolicy", "'%s'" % o["prediction"]])
    if "accel" in o:
        L.append(["@AccelerationAlgorithm", "'%s'" % o["accel"][0]])
        for k, v in o["accel"][1].items():
            L.append(["@AccelerationAlgorithmParameter", "'%s' %d" % (k, v)])
    if "itermax" in o:
        L.append(["@MaximumNumberOfIterations", str(o["itermax"])])
    if o.get("dynamic"):
        dtmin = min(b - a for a, b in zip(times, times[1:]))
        L.append(["@DynamicTimeStepScaling", "true"])
        if "maxdt_fraction" in o:
            L.append(["@MaximalTimeStep", g.fmt(o["maxdt_fraction"] * dtmin)])
        if "bdt_fraction" in o:
            L.append(["@Parameter", "'verif_dtmax' %s" % g.fmt(o["bdt_fraction"] * dtmin)])
            L.append(["@Parameter", "'verif_growth' %s" % g.fmt(o["growth"])])
        if "maxscale" in o:
            L.append(["@MaximalTimeStepScalingFactor", g.fmt(o["maxscale"])])
        if o.get("mindt"):
            L.append(["@MinimalTimeStep", g.fmt(1e-9 * dtmin)])
    if o["outfreq"] != "UserDefinedTimes":
        L.append(["@OutputFrequency", "'%s'" % o["outfreq"]])
    return L


LIBS = {}


def libs():
    if not LIBS:
        LIBS.update(g.build_library())
    return LIBS


def check_case(case):
    pb = dict(case["pb"])
    o = case["opt"]
    times = g.expand_times(pb["times"])
    pb["options"] = option_lines(case, times)
    text = g.mtest_text(pb, libs()[pb["behaviour"]])
    env = {"VERIF_FAULTS": ",".join(str(k) for k in o["faults"])} if o.get("faults") else None
    # SchemeBase::completeInitialisation (SchemeBase.cxx:377-401) rejects 'SecantOperatorPrediction' as an
    # "internal error" whenever the verbose level is >= level1 (its logging code forgets that policy):
    # those files are run quietly (then the number of sub-steps is not known)
    verbose = "quiet" if o.get("prediction") == "SecantOperatorPrediction" else "level1"
    r = g.run_mtest(text, name="c48", env_extra=env, verbose=verbose)
    b, h = pb["behaviour"], pb["hypothesis"]
    classes = ["behaviour." + b, "hypothesis." + h, "outfreq." + o["outfreq"]]
    sample = {"mtest": text, "faults": o.get("faults", [])}
    if r["status"] in ("crash", "timeout"):
        return Result(False, "C48.%s" % r["status"], "mtest rc=%s: %s" % (r["rc"], r["out"][-600:]), sample=sample)
    if r["status"] == "error":
        w = r["what"] or ""
        cls = "inconclusive.substeps" if "sub stepping" in w else \
              "inconclusive.minimal_time_step" if "minimal value" in w else "inconclusive.other"
        if cls == "inconclusive.other" and verbose == "quiet" and not w.strip():
            cls = "inconclusive.quiet_run_failed"  # quiet runs (SecantOperatorPrediction) do not say why they failed
        if cls == "inconclusive.other":
            # any other reported error would mean that the generator writes invalid files
            return Result(False, "C48.harness.rejected_input", "mtest rejected a generated file: %s" % w[:400], sample=sample)
        return Result(True, classes=classes + [cls])
    res = r["res"]
    if res is None or not res.rows:
        return Result(False, "C48.no_result_file", "exit status 0 but no result rows; %s" % r.get("parse_error", ""), sample=sample)
    m = re.search(r"-number of sub-steps:\s*(\d+)", r["out"])
    nsub = int(m.group(1)) if m else 0
    m = re.search(r"-number of period:\s*(\d+)", r["out"])
    nper = int(m.group(1)) if m else 0
    errs = {}
    tmax = max(abs(t) for t in times)
    ttol = 1e-14 * tmax
    rows = res.rows
    tcol = [x[0] for x in rows]
    # ---- output times
    if o["outfreq"] == "UserDefinedTimes":
        if len(rows) != len(times):
            return Result(False, "C48.times.count", "%d output rows for %d requested times (%s ...)" % (
                len(rows), len(times), tcol[:12]), sample=sample)
        idx = list(range(len(times)))
    else:
        idx, j = [], 0
        for t in times:
            while j < len(rows) and abs(rows[j][0] - t) > ttol:
                j += 1
            if j == len(rows):
                return Result(False, "C48.times.missing", "requested time %r is not an output time (%s)" % (t, tcol[:40]), sample=sample)
            idx.append(j)
            j += 1
        for a, c in zip(tcol, tcol[1:]):
            if not c > a:
                rr = Result(False, "C48.times.not_increasing", "output times %r then %r" % (a, c), sample=sample)
                # (two rows with the same 15 digits time: signature of the known 'end of period missed' class when
                # that time is the end of a short period, see check_case_keyed)
                rr.failing_time, rr.nsub = c, (nsub if verbose != "quiet" else None)
                return rr
    for i, t in zip(idx, times):
        e = abs(rows[i][0] - t)
        errs["time"] = max(errs.get("time", 0.), e / ttol)
        if e > ttol:
            return Result(False, "C48.times.value", "output time %r, requested %r" % (rows[i][0], t), sample=sample)
    if abs(rows[-1][0] - times[-1]) > ttol:
        return Result(False, "C48.times.last", "last output time %r, last requested time %r" % (rows[-1][0], times[-1]), sample=sample)
    # ---- imposed values on every row after the initial state
    en, sn = g.HYPOTHESES[h]
    span = times[-1] - times[0]
    for ld in pb["loads"]:
        name = (en if ld["kind"] == "strain" else sn)[ld["comp"]]
        col = res.col(name)
        crit = o["eeps"] if ld["kind"] == "strain" else o["seps"]
        lip = g.evolution_lipschitz(ld["ev"], times[0], times[-1])
        for k, row in enumerate(rows):
            if k == 0:
                continue
            t = row[0]
            v = g.evolution_value(ld["ev"], t)
            # printed time and value carry 15 digits; GenericSolver::execute ends a period within 100 ulp x (te-ti)
            tol = crit + 2e-14 * abs(v) + lip * (1e-14 * tmax + 3e-14 * span)
            e = abs(row[col] - v)
            key = "imposed_%s.%s" % (ld["kind"], ld["ev"]["type"])
            errs[key] = max(errs.get(key, 0.), e / tol)
            if not e <= tol:
                what = "lpi_outside_table" if (ld["ev"]["type"] == "lpi" and not (
                    min(p[0] for p in ld["ev"]["pts"]) <= t <= max(p[0] for p in ld["ev"]["pts"]))) else ld["ev"]["type"]
                rr = Result(False, "C48.imposed_%s.%s" % (ld["kind"], what),
                            "t=%r %s=%r, evolution %r gives %r (|diff|=%.3g > tol %.3g)" % (
                                t, name, row[col], ld["ev"], v, e, tol), sample=sample)
                rr.failing_time, rr.nsub = t, (nsub if verbose != "quiet" else None)
                return rr
    kinds = set(ld["kind"] for ld in pb["loads"])
    if len(kinds) == 2:
        classes.append("control.mixed")
    else:
        classes.append("control." + list(kinds)[0])
    for ld in pb["loads"]:
        classes.append("evolution." + ld["ev"]["type"])
        if ld["ev"]["type"] == "lpi":
            ts = [p[0] for p in ld["ev"]["pts"]]
            if min(ts) > times[0] or max(ts) < times[-1]:
                classes.append("evolution.lpi_clamped")
    if nsub > 0:
        classes.append("substepped")
    if nper > len(times) - 1:
        classes.append("periods_split")
    if o.get("dynamic"):
        classes.append("dynamic_time_step")
    if "bdt_fraction" in o:
        classes.append("behaviour_time_step" + ("" if "maxdt_fraction" in o else ".no_maximal_time_step"))
    pcols = [i for i, n in enumerate(res.names) if "Equivalent" in n]
    inelastic = g.KIND[b] != "elastic" and any(abs(rows[-1][i]) > 1e-8 for i in pcols)
    if inelastic:
        classes.append("inelastic")
    nontrivial = bool(inelastic and len(kinds) == 2 and (nsub > 0 or nper > len(times) - 1))
    return Result(True, nontrivial=nontrivial, classes=sorted(set(classes)), errs=errs, sample=sample)


KNOWN_MISSED_END = "C48.end_of_period_missed.short_period_substepped"
KNOWN_DYNAMIC = "C48.end_of_period_missed.dynamic_without_minimal_time_step"


def check_case_keyed(case):
    """a violation observed at the end of a requested period that is short with respect to the absolute time
    ((te - ti) < 0.05 max(|ti|, |te|)) in a run without dynamic time step scaling that rejected at least one step
    belongs to the known class 'end of period missed' (see mtest_gen.py / findings/pending/C48.json); a violation at a
    requested time of a run with @DynamicTimeStepScaling, no @MinimalTimeStep and a rejected step belongs to the
    second known class (GenericSolver.cxx:346: the unset minimal time step, -1, enters `dt > te - t - minimal_time_step`,
    so the last sub-step is not shortened to end at te); every other violation keeps its own key"""
    r = check_case(case)
    if r.ok or r.key.startswith("C48.harness"):
        return r
    times = g.expand_times(case["pb"]["times"])
    tf = getattr(r, "failing_time", None)
    sub = getattr(r, "nsub", None)
    if tf is None or sub == 0:
        return r
    if case["opt"].get("dynamic"):
        # second known class: @DynamicTimeStepScaling without @MinimalTimeStep, after a rejected step
        if not case["opt"].get("mindt") and any(abs(b - tf) <= 1e-14 * max(abs(t) for t in times) for b in times[1:]):
            r.msg = "[%s] %s" % (r.key, r.msg)
            r.key = KNOWN_DYNAMIC
        return r
    for a, b in zip(times, times[1:]):
        if abs(b - tf) <= 1e-14 * max(abs(t) for t in times) and g.is_short_period(a, b):
            r.msg = "[%s] %s" % (r.key, r.msg)
            r.key = KNOWN_MISSED_END
            break
    return r


replay_main({"paths": check_case_keyed})

if __name__ == "__main__":
    try:
        libs()
    except RuntimeError as e:
        print("C48: cannot build the behaviour library: %s" % e)
        sys.exit(2)
    g.run_hypothesis_batched(U, "paths", case_strategy(), check_case_keyed, max_examples=param("cases", 150),
                             batch=param("batch", 6))
    s = U.subs.get("paths", {})
    n = s.get("evaluations", 0)
    inc = sum(v for k, v in s.get("classes", {}).items() if k.startswith("inconclusive."))
    U.extra["inconclusive_fraction"] = inc / n if n else None
    if n and inc > 0.3 * n:
        U.note("more than 30%% of the runs are inconclusive (%d/%d): the generator needs a fix" % (inc, n))
    sys.exit(U.finish())
