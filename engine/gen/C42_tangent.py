#!/usr/bin/env python3-vt
"""C42 - the consistent tangent operator is the derivative of the integration.

Programs: the reference behaviours of engine/gen/behaviour_templates.py that
provide a consistent tangent operator (Hooke in the Default DSL and with the
StandardElasticity brick, Norton and J2 plasticity in the Implicit DSL through
getPartialJacobianInvert or through the brick, IsotropicMisesCreep and
IsotropicPlasticMisesFlow whose operator is written by the code generator)
plus repository behaviours that define @TangentOperator or get it from a
brick (only their @ModellingHypotheses list is narrowed, for compile time).

One case = (program, hypothesis, constants, state, strain increment, dt).
Oracle: the operator returned for K[0]=4 against central finite differences of
the behaviour itself, re-called with K[0]=0 and deto +/- h e_I, for the steps
h and h/2 (Richardson consistency): max|K - FD(h/2)| <= 1e-5 |K| + 50 |FD(h)-FD(h/2)|
(+ 2 N eps young/h for Implicit DSL programs, the noise of calls converged to eps);
cases where the two difference quotients disagree by more than 2e-5 |K| (no
trustworthy derivative) are discarded.  Elastic and inelastic regimes are both
generated, 3 % away from the yield surface.
"""
import math
import random
import sys
import time

import numpy as np
from hypothesis import strategies as st

from verifpy import (Unit, Result, Reject, run_hypothesis, replay_main, SEED, TIER, JOBS, REPO, param, parallel_map)
import gb_iface as gb
import behaviour_templates as bt

H_REL = 1e-6      # strain perturbation
TOL_REL = 1e-5    # relative to max|K|


def amax(v):
    v = np.asarray(v, dtype=np.float64)
    return float(np.max(np.abs(v))) if v.size else 0.0


def finite_difference(lib, call, h):
    n = bt.SSIZE[call["hyp"]]
    deto = np.array(call["deto"], dtype=np.float64)
    fd = np.zeros((n, n))
    for j in range(n):
        e = np.zeros(n)
        e[j] = h
        op = bt.perform(gb, lib, call, 0, deto=deto + e)
        om = bt.perform(gb, lib, call, 0, deto=deto - e)
        if op["rc"] == -1 or om["rc"] == -1:
            return None
        fd[:, j] = (op["sig"] - om["sig"]) / (2 * h)
    return fd


def check_case_(case):
    prog, call = case["prog"], case["call"]
    lib, err = bt.build(gb, prog)
    if lib is None:
        return Result(False, "C42.harness.build", "program does not build: " + err)
    if call is None:
        raise Reject()
    kind = prog["kind"] if prog["kind"] != "repo" else "repo." + prog["name"]
    hyp = call["hyp"]
    classes = ["kind." + kind, "hyp." + hyp] + (["algo." + prog["algo"]] if "algo" in prog else [])
    out = bt.perform(gb, lib, call, 4)
    if out["rc"] == -1:
        return Result(True, classes=classes + ["outcome.integration_failure"])
    K = out["K"]
    if not np.all(np.isfinite(K)):
        return Result(False, "C42.%s.not_finite" % kind, "K = %r" % K.tolist(), classes=classes)
    # the state must not depend on the operator request
    ref = bt.perform(gb, lib, call, 0)
    if ref["rc"] == -1:
        raise Reject()
    p1 = bt.get_p(ref)
    dp = (p1 - call["p0"]) if p1 is not None else 0.0
    if dp > 0.05 or dp < -1e-9:
        raise Reject()
    fam = prog.get("family", {"implicit_norton": "creep", "iso_creep": "creep", "implicit_plasticity": "plastic",
                              "iso_plasticity": "plastic"}.get(prog["kind"], "elastic"))
    inelastic = dp > 1e-8
    regime = "regime.inelastic" if inelastic else "regime.elastic"
    classes += [regime, "family." + fam]
    if fam == "plastic" and call.get("plastic") != inelastic:
        classes.append("regime.unexpected")
    if fam != "elastic":
        # the flow direction is singular at seq = 0 and a perturbation h moves the stress by 2 mu h ~ 1e-6 young:
        # the response is only differentiable (and the generated guards inactive) well away from it
        young = call["mat"]["young"]
        lam, mu = bt.lame(young, call["mat"]["nu"])
        e0, de = np.array(call["eel0"]), np.array(call["deto"])
        seqs = [bt.seq_of(ref["sig"]), bt.seq_of(bt.hooke(lam, mu, e0 + prog.get("theta", 1.0) * de))]
        if min(seqs) < 5e-5 * young:
            raise Reject()
    scale = max(amax(call["deto"]), amax(call["eel0"]), 1e-4)
    h = H_REL * (1 + scale / 1e-3)
    fd1 = finite_difference(lib, call, h)
    fd2 = finite_difference(lib, call, h / 2)
    if fd1 is None or fd2 is None:
        raise Reject()
    kn = max(amax(K), amax(fd2), 1.0)
    delta = amax(fd1 - fd2)
    if delta > 2e-5 * kn:
        # no trustworthy derivative (kink between the two perturbations, or solver noise): not judged
        raise Reject()
    err = amax(K - fd2)
    tol = TOL_REL * kn + 50 * delta
    if prog["kind"] in ("implicit_norton", "implicit_plasticity", "hooke_brick") or prog.get("implicit"):
        # Implicit DSL: each call is converged to ||F||_2/N < eps only, i.e. strains to N*eps and stresses to
        # N*eps*young: noise of the difference quotient (matters for repository behaviours with a loose @Epsilon)
        tol += 2 * (bt.SSIZE[hyp] + 2) * prog["eps"] * call["mat"]["young"] / h
    if not err <= tol and prog["kind"] == "hooke_default" and hyp == "AxisymmetricalGeneralisedPlaneStress":
        # known class (same root cause as C41.hooke_default.hooke.agps_altered_stiffness): the `altered' stiffness of
        # this hypothesis is condensed on component 2 instead of the axial component 1
        n = bt.SSIZE[hyp]
        wrong = bt.plane_stress_stiffness(call["mat"]["young"], call["mat"]["nu"], n, 2)
        if amax(K - wrong) <= 1e-12 * kn:
            return Result(False, "C42.hooke_default.elastic.agps_altered_stiffness",
                          "AxisymmetricalGeneralisedPlaneStress: K=%r is the stiffness condensed on the hoop component; "
                          "derivative of the returned stress (axial stress imposed): %r" % (K.tolist(), fd2.tolist()), classes=classes)
    errs = {"%s.%s/tol" % (kind.split(".")[0], "inelastic" if inelastic else "elastic"): err / tol,
            "richardson.delta/|K|": delta / kn}
    if not err <= tol:
        i, j = np.unravel_index(int(np.argmax(np.abs(K - fd2))), K.shape)
        return Result(False, "C42.%s.%s.%s" % (kind, "inelastic" if inelastic else "elastic", "theta<1" if prog.get("theta", 1.0) < 1 else "theta=1"),
                      "K[%d][%d] = %.9g but d sig_%d/d eto_%d = %.9g (FD h/2; h: %.9g); max|K-FD| = %.3g > tol %.3g (|K| = %.3g, dp = %.3g)\nK=%r\nFD=%r" % (
                          i, j, K[i, j], i, j, fd2[i, j], fd1[i, j], err, tol, kn, dp, K.tolist(), fd2.tolist()), classes=classes)
    return Result(True, nontrivial=inelastic or fam == "elastic", classes=classes, errs=errs)


def check_case(case):
    """a bug of the harness must be loud, not a silently discarded case"""
    try:
        return check_case_(case)
    except Reject:
        raise
    except Exception as e:  # noqa
        import traceback
        return Result(False, "C42.harness.exception", traceback.format_exc()[-1500:])


# quick tier composition: (kind, number of programs, share of the case budget)
PLAN = [("hooke_default", 1, 0.06), ("hooke_brick", 1, 0.06), ("implicit_norton", 2, 0.18), ("iso_creep", 1, 0.08),
        ("implicit_plasticity", 2, 0.20), ("iso_plasticity", 2, 0.20), ("repo", 3, 0.22)]


def tangent_description(rng, kind, idx, slot=0):
    # every run holds, per Implicit inelastic kind, one program whose jacobian is computed numerically (second slot):
    # its consistent tangent operator comes from the jacobian re-evaluated after convergence (updateOrCheckJacobian),
    # a code path of the generated integrate method that analytical jacobians do not take
    force = "NewtonRaphson_NumericalJacobian" if (slot == 1 and kind in ("implicit_norton", "implicit_plasticity")) else None
    p = bt.random_description(rng, kind, idx, tangent_only=True, force_algo=force)
    # finite differences need a tightly converged integration
    if "eps" in p:
        p["eps"] = rng.choice([1e-14, 1e-13]) if kind not in ("iso_creep", "iso_plasticity") else rng.choice([1e-12, 1e-14])
    return p


def main():
    subs = list(bt.KINDS) + ["repo"]
    replay_main({k: check_case for k in subs})
    u = Unit("C42_tangent")
    cases = param("cases", 1200)
    nprog = param("programs", 12)
    rng = random.Random(SEED)
    scale = nprog / 12.0
    progs = []
    for kind, k, share in PLAN:
        k = max(1, int(round(k * scale)))
        for i in range(k):
            if kind == "repo":
                entry = bt.REPO_BEHAVIOURS[(SEED * 3 + i) % len(bt.REPO_BEHAVIOURS)]
                hyps = entry["hyps"]
                first = hyps[(SEED + i) % len(hyps)]
                # hypothesis specific declarations of the file must keep their hypothesis
                sel = sorted({first, rng.choice(hyps)} | set(entry.get("needs", [])), key=hyps.index)
                p = bt.repo_program(REPO, entry, sel)
            else:
                p = tangent_description(rng, kind, SEED * 3 + i, slot=i)
                p["name"] = "%sT%d" % (p["name"], SEED % 100000)
                p = bt.make_program(p)
            progs.append((p, max(5, int(cases * share / k))))
    built = parallel_map(lambda pc: bt.build(gb, pc[0]), progs, jobs=min(JOBS, 16))
    for (p, ncases), (lib, err) in zip(progs, built):
        if lib is None:
            u.fail(p["kind"], "C42.harness.build", "program rejected by mfront/g++: " + err, {"prog": p, "call": None})
            continue
        strat = bt.call_strategy(p).map(lambda c, p=p: {"prog": p, "call": c})
        t0 = time.time()
        run_hypothesis(u, p["kind"], strat, check_case, max_examples=ncases, seed_offset=sum(map(ord, p["name"])))
        print("[C42] %s %s %s: %d cases in %.1f s" % (p["name"], p.get("algo", ""), "+".join(p["hyps"]), ncases, time.time() - t0), flush=True)
    u.extra["programs"] = [{k: v for k, v in p.items() if k != "src"} for p, _ in progs]
    sys.exit(u.finish())


if __name__ == "__main__":
    main()
