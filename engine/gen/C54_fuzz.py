#!/usr/bin/env python3-vt
"""C54 - mtest never crashes on a .mtest / .ptest input file.

Corpus: the repository's .mtest / .ptest files whose `@Behaviour` line can be
rewritten to one of the behaviours built once by this unit (mfront --interface=
generic on mfront/tests/behaviours/{Elasticity,Norton,Plasticity,...}.mfront,
g++, cached) so that parsing proceeds into behaviour loading and execution,
plus generated files (templates below).  Dictionary: `mtest
--help-keywords-list` and `mtest --scheme=ptest --help-keywords-list` of the tree
under test.

 sub "fuzz"    engine A: libFuzzer (engine/fuzz/C54_mtest_fuzz.cxx, grammar aware
               mutator) against the ASan+UBSan libTFELMTest; artifacts are
               confirmed 3/3 on the real ASan `mtest` executable.
 sub "mutants" engine B: Hypothesis mutants (operators of C35_mutlib.py) run
               through `mtest --verbose=quiet f.mtest|f.ptest` (real ASan
               executable, scratch directory, 30 s).

Outcome classes: ok / reported error (exit status > 0, or SIGABRT with
"terminate called after throwing an instance of '...'" + "what():": mtest's
main lets exceptions reach std::terminate under libstdc++, by design) /
violation (sanitizer report, SIGSEGV/SIGFPE/SIGBUS/SIGILL, SIGABRT without
exception message, hang of the parser reproduced 3/3).  A timeout of the full
run whose parse-only run (the libFuzzer target with VERIF_FUZZ_PARSE_ONLY=1)
terminates is a long computation asked by the input, not a hang.

Non-trivial: the file reaches behaviour loading (in process: the behaviour is
loaded; out of process: the run succeeds, or the error is reported for a line
located after a `@Behaviour` statement naming one of the built libraries).
"""
import os
import random
import re
import shutil
import sys
import threading
import time

from verifpy import (Unit, Result, Reject, run_hypothesis, SEED, TIER, WORK, REPO, VERIF, JOBS, REPLAY_DIR, KNOWN,
                     param, tool, run, parallel_map, replay_requested, load_replay, mfront_generate, compile_generated)
import fuzzpy
import C35_mutlib as ml
from C35_fuzz import LockedUnit, build_cached

UNIT = "C54_fuzz"
FUZZ_SRC = os.path.join(VERIF, "engine", "fuzz", "C54_mtest_fuzz.cxx")
MAX_LEN = 6144
LIBDIR = os.path.join(VERIF, "build", "cache", "C54lib")
BEHAVIOURS = ["Elasticity", "Norton", "Plasticity", "OrthotropicElastic", "SaintVenantKirchhoffElasticity",
              "LogarithmicStrainElasticity", "ImplicitNorton", "FiniteRotationSmallStrainElasticity"]
PTEST_KEYS = ("@InnerRadius", "@OuterRadius", "@NumberOfElements", "@RadialLoading", "@AxialLoading")

LIBS = ["TFELMTest", "TFELMFront", "MFrontLogStream", "TFELMaterial", "TFELMathParser", "TFELMath", "TFELGlossary",
        "TFELSystem", "TFELUtilities", "TFELUnicodeSupport", "TFELException", "TFELConfig", "TFELTests"]


def libpath(name):
    return os.path.join(LIBDIR, "libC54_%s.so" % name)


ALLOWED = os.path.join(LIBDIR, "libC54_")
_ALLOWED_RX = re.compile(re.escape(ALLOWED) + r"[A-Za-z0-9_]*\.so")


def outside_domain(text):
    return ml.outside_domain(_ALLOWED_RX.sub("LIB", text))


def is_ptest(text):
    return any(k in text for k in PTEST_KEYS)


# ------------------------------------------------------------------ known findings (mirror of c54::knownClass)
_TRAILING_KEYWORD = re.compile(r"(?:^|[^A-Za-z0-9_])@[A-Za-z0-9_]+$")


def strip_comments(text):
    out = []
    i, n = 0, len(text)
    while i < n:
        c = text[i]
        if c == '/' and i + 1 < n and text[i + 1] in "/*":
            i = ml._skip_opaque(text, i)
            out.append(" ")
            continue
        if c in "\"'":
            j = ml._skip_opaque(text, i)
            out.append(text[i:j])
            i = j
            continue
        out.append(c)
        i += 1
    return "".join(out)


def unterminated_description(text):
    """a `@Description {` block still opened at the end of the input (plain brace counting, as c54::unterminatedDescription)"""
    n = len(text)
    p = text.find("@Description")
    while p >= 0:
        q = p + 12
        while q < n and text[q].isspace():
            q += 1
        if q < n and text[q] == '{':
            depth = 0
            i = q
            while i < n:
                j = ml._skip_opaque(text, i)
                if j != i:
                    i = j
                    continue
                if text[i] == '{':
                    depth += 1
                elif text[i] == '}':
                    depth -= 1
                    if depth == 0:
                        break
                i += 1
            if depth > 0:
                return True
        p = text.find("@Description", p + 1)
    return False


_WRAPPER_AT_EOF = re.compile(r"@(?:Behaviour|Model)<[A-Za-z0-9_]+,$")


def wrapper_at_end_of_file(text):
    """`@Behaviour<interface,` / `@Model<interface,` as the last tokens (as c54::wrapperAtEndOfFile)"""
    out = []
    i, n = 0, len(text)
    while i < n:
        c = text[i]
        if c == '/' and i + 1 < n and text[i + 1] in "/*":
            i = ml._skip_opaque(text, i)
            continue
        if not c.isspace():
            out.append(c)
        i += 1
    return bool(_WRAPPER_AT_EOF.search("".join(out)))


def known_class(text):
    """key of the recorded finding the input belongs to (None otherwise)"""
    if unterminated_description(text):
        return "C54.read_past_end.handleDescription_unterminated"
    if wrapper_at_end_of_file(text):
        return "C54.read_past_end.handleBehaviour_wrapper_at_end_of_file"
    t = strip_comments(text).rstrip()
    if _TRAILING_KEYWORD.search(t):
        return "C54.heap-buffer-overflow.treatKeyword_at_end_of_file"
    z = "".join(t.split())
    if z == ";" or z.endswith(";;"):  # `;` is a keyword too (handleLonelySeparator)
        return "C54.heap-buffer-overflow.handleLonelySeparator_at_end_of_file"
    return None


def canonical_key(key):
    """sanitizer derived key -> key of the recorded finding with the same root cause"""
    if key.split(".")[0] in ("heap-buffer-overflow", "SEGV") and key.endswith("::treatKeyword"):
        return "heap-buffer-overflow.treatKeyword_at_end_of_file"
    if key.split(".")[0] in ("heap-buffer-overflow", "SEGV") and key.endswith("::handleLonelySeparator"):
        return "heap-buffer-overflow.handleLonelySeparator_at_end_of_file"
    if key.endswith("SingleStructureSchemeParser::handleBehaviour") and key.split(".")[0] in ("SEGV", "heap-buffer-overflow"):
        return "read_past_end.handleBehaviour_wrapper_at_end_of_file"
    if key.endswith("SchemeParserBase::handleDescription") and key.split(".")[0] in ("SEGV", "heap-buffer-overflow"):
        return "read_past_end.handleDescription_unterminated"
    return key


# ------------------------------------------------------------------ behaviours
def build_behaviours():
    """one shared library per behaviour (parallel, content-hash cached by verifpy.compile_generated)"""
    os.makedirs(LIBDIR, exist_ok=True)

    def one(name):
        wd = os.path.join(WORK, "lib", name)
        shutil.rmtree(wd, ignore_errors=True)
        src = os.path.join(REPO, "mfront", "tests", "behaviours", name + ".mfront")
        rc, so, se = mfront_generate(src, wd, interface="generic")
        if rc != 0:
            return name, None, "mfront failed: " + se[-500:]
        lib, err = compile_generated(wd, "C54_" + name, timeout=1800)
        if lib is None:
            return name, None, err
        dst = libpath(name)
        tmp = dst + ".tmp%d" % os.getpid()
        shutil.copyfile(lib, tmp)
        os.replace(tmp, dst)
        return name, dst, ""
    res = parallel_map(one, BEHAVIOURS, jobs=min(8, JOBS))
    ok = [n for n, p, e in res if p]
    bad = [(n, e) for n, p, e in res if not p]
    return ok, bad


# ------------------------------------------------------------------ corpus
_BEHAVIOUR_RX = re.compile(r"@Behaviour\s*<[^>]*>\s*(?:@library@|'[^']*'|\"[^\"]*\")\s*['\"]([A-Za-z0-9_]+)['\"]")


def rewrite(text, names):
    """rewrite the @Behaviour line to one of the built behaviours; None when it cannot be"""
    m = _BEHAVIOUR_RX.search(text)
    if not m:
        return None
    fn = m.group(1).lower()
    cand = [n for n in names if fn == n.lower() or (fn.endswith(n.lower()) and len(fn) - len(n) <= 8)]
    if not cand:
        return None
    name = max(cand, key=len)
    keep_hyp = ""
    opts = re.search(r"<([^>]*)>", m.group(0)).group(1)
    if "LogarithmicStrain1D" in opts:
        keep_hyp = ",LogarithmicStrain1D"
    t = text[:m.start()] + "@Behaviour<generic%s> '%s' '%s'" % (keep_hyp, libpath(name), name) + text[m.end():]
    t = t.replace("@library@", "'%s'" % libpath(name)).replace("@xml_output@", "'out.xml'").replace("@interface@", "generic")
    if re.search(r"@[A-Za-z_]+@", t):
        return None
    return t


TEMPLATES = [
    ("gen_elasticity.mtest", "Elasticity", """@Author verif;
@MaximumNumberOfSubSteps 1;
@ModellingHypothesis '%(hyp)s';
@Behaviour<generic> '%(lib)s' 'Elasticity';
@MaterialProperty<constant> 'YoungModulus' 150.e9;
@MaterialProperty<constant> 'PoissonRatio' 0.3;
@ExternalStateVariable 'Temperature' {0:293.15,3600.:800};
@Real 'e0' 1.e-3;
@ImposedStrain<function> 'EXX' 'e0*sin(t/900.)';
@Times {0.,3600 in 4};
@Test<function> 'SXX' 'YoungModulus*EXX' 1.e-3;
"""),
    ("gen_norton.mtest", "Norton", """@Author verif;
@Behaviour<generic> '%(lib)s' 'Norton';
@MaterialProperty<constant> 'YoungModulus' 150e9;
@MaterialProperty<constant> 'PoissonRatio' 0.3;
@MaterialProperty<constant> 'NortonCoefficient' 8.e-67;
@MaterialProperty<constant> 'NortonExponent' 8.2;
@ExternalStateVariable 'Temperature' 293.15;
@ImposedStress 'SXX' {0.:0.,1.:50.e6,30:50.e6};
@Times {0.,1. in 2, 30 in 5};
@OutputFilePrecision 12;
"""),
    ("gen_plasticity.mtest", "Plasticity", """@Author verif;
@AccelerationAlgorithm 'Cast3M';
@Behaviour<generic> '%(lib)s' 'Plasticity';
@MaterialProperty<constant> 'YoungModulus' 150.e9;
@MaterialProperty<constant> 'PoissonRatio' 0.3;
@MaterialProperty<constant> 'H' 100.e9;
@MaterialProperty<constant> 's0' 100.e6;
@ExternalStateVariable 'Temperature' 293.15;
@ImposedStrain 'EXX' {0.:0.,1.:5e-3};
@Times {0.,1. in 6};
"""),
    ("gen_pipe.ptest", "Elasticity", """@Author verif;
@InnerRadius 4.2e-3;
@OuterRadius 4.7e-3;
@NumberOfElements 2;
@ElementType 'Linear';
@RadialLoading 'TightPipe';
@FillingPressure 1.e5;
@FillingTemperature 293.15;
@Behaviour<generic,LogarithmicStrain1D> '%(lib)s' 'Elasticity';
@MaterialProperty<constant> 'YoungModulus' 150e9;
@MaterialProperty<constant> 'PoissonRatio' 0.3;
@ExternalStateVariable 'Temperature' {0 : 293.15, 1 : 693.15};
@Times{0, 1 in 2};
@AdditionalOutputs{'integral_value_initial_configuration' : 'SRR'};
"""),
    ("gen_pipe2.ptest", "Elasticity", """@InnerRadius 4.2e-3;
@OuterRadius 4.7e-3;
@NumberOfElements 3;
@ElementType 'Quadratic';
@PerformSmallStrainAnalysis true;
@AxialLoading 'ImposedAxialForce';
@InnerPressureEvolution {0 : 0, 1 : 1.e6};
@AxialForceEvolution 0.;
@Behaviour<generic> '%(lib)s' 'Elasticity';
@MaterialProperty<constant> 'YoungModulus' 150e9;
@MaterialProperty<constant> 'PoissonRatio' 0.3;
@ExternalStateVariable 'Temperature' 293.15;
@Times{0, 1 in 3};
@Profile 'pipe.txt' {'SRR', 'EZZ'};
"""),
]
HYPS = ["Tridimensional", "PlaneStrain", "Axisymmetrical", "PlaneStress", "AxisymmetricalGeneralisedPlaneStrain"]


def corpus(names, workdir):
    """{group: [file paths]}: rewritten repository files + generated ones, written under workdir/seeds.
    The ones the tree's own (non ASan) mtest runs successfully come first in each group."""
    sd = os.path.join(workdir, "seeds")
    shutil.rmtree(sd, ignore_errors=True)
    os.makedirs(sd)
    cands = []
    for dp, dn, fn in os.walk(REPO):
        dn[:] = sorted(d for d in dn if d not in (".git", "_build", "build"))
        for f in sorted(fn):
            if not f.endswith((".mtest", ".ptest")):
                continue
            p = os.path.join(dp, f)
            try:
                if os.path.getsize(p) > MAX_LEN:
                    continue
                t = rewrite(ml.read_text(p), names)
            except OSError:
                continue
            if t is None or outside_domain(t):
                continue
            cands.append((os.path.relpath(p, REPO), t))
    for fname, b, tpl in TEMPLATES:
        if b in names:
            for h in (HYPS if "%(hyp)s" in tpl else [""]):
                cands.append(("generated/" + (h + "_" if h else "") + fname, tpl % {"lib": libpath(b), "hyp": h}))
    # at most 10 candidates per (directory, behaviour) class, then the tree's mtest decides which ones run
    rnd = random.Random(20240)
    rnd.shuffle(cands)
    per = {}
    sel = []
    for rel, t in cands:
        g = ("ptest" if rel.endswith(".ptest") else os.path.basename(os.path.dirname(rel))) + ":" + _BEHAVIOUR_RX.search(t).group(1)
        if per.get(g, 0) < 10:
            per[g] = per.get(g, 0) + 1
            sel.append((g, rel, t))

    def probe(x):
        g, rel, t = x
        d = ml.new_scratch("probe")
        fn = "f.ptest" if rel.endswith(".ptest") else "f.mtest"
        ml.write_text(os.path.join(d, fn), t)
        rc, so, se = run([tool("mtest"), "--verbose=quiet", fn], cwd=d, timeout=60)
        shutil.rmtree(d, ignore_errors=True)
        return g, rel, t, rc == 0
    groups = {}
    n_ok = 0
    for g, rel, t, ok in parallel_map(probe, sel, jobs=min(8, JOBS)):
        p = os.path.join(sd, rel.replace("/", "__"))
        ml.write_text(p, t)
        groups.setdefault(g, []).append((not ok, p))
        n_ok += ok
    return {g: [p for _, p in sorted(v)] for g, v in groups.items()}, n_ok, len(sel)


def build_dictionary(workdir):
    kws = set()
    for a in ([], ["--scheme=ptest"]):
        rc, so, se = run([tool("mtest")] + a + ["--help-keywords-list"], timeout=120)
        kws.update(re.findall(r"@[A-Za-z0-9_]+", so))
    keywords = sorted(kws)
    if not keywords:
        raise SystemExit("C54: `mtest --help-keywords-list` returned nothing")
    kwf = os.path.join(workdir, "keywords.txt")
    with open(kwf, "w") as f:
        f.write("\n".join(keywords) + "\n")
    dictf = os.path.join(workdir, "mtest.dict")
    extra = ["generic", "constant", "function", "castem", "evolution", "file", "data", "Tridimensional", "PlaneStress", "Axisymmetrical",
             "EXX", "SXX", "EYY", "SZZ", "FXX", "Temperature", "YoungModulus", "PoissonRatio", "in", "using", "true", "false",
             "'", "{", "}", ";", ":", ",", "<", ">", "LogarithmicStrain1D", "Linear", "Quadratic", "TightPipe", "cos(t)", "1/0"]
    with open(dictf, "w") as f:
        for w in keywords + extra + BEHAVIOURS:
            f.write(ml.dict_entry(w))
    return keywords, kwf, dictf


# ------------------------------------------------------------------ engine B
class State:
    keywords = []
    exe = None
    names = []
    unit = None


def mtest_cmd():
    return [fuzzpy.asan_tool("mtest"), "--verbose=quiet"]


def run_mtest(text, timeout=30):
    return ml.run_tool(mtest_cmd(), text, "f.ptest" if is_ptest(text) else "f.mtest", allow_terminate=True, timeout=timeout)


FUZZ_ASAN = ("detect_leaks=0:abort_on_error=0:symbolize=1:detect_odr_violation=0:handle_abort=1:quarantine_size_mb=16:"
             "malloc_context_size=6:allocator_may_return_null=1:max_malloc_fill_size=268435456:malloc_fill_byte=190")


def parse_only_terminates(text):
    """True when the parser (in-process target, no execution) terminates on the input"""
    if State.exe is None:
        return None
    d = ml.new_scratch("po")
    try:
        p = os.path.join(d, "input")
        ml.write_text(p, text)
        env = fuzzpy.asan_env({"ASAN_OPTIONS": FUZZ_ASAN, "VERIF_FUZZ_PARSE_ONLY": "1", "VERIF_FUZZ_LIBDIR": LIBDIR,
                               "VERIF_WORK": d})
        rc, so, se, cpued, walled = ml._run_limited([State.exe, p, "-timeout=600", "-detect_leaks=0"], d, env, 60, 600)
        if walled:
            return None
        return not cpued
    finally:
        shutil.rmtree(d, ignore_errors=True)


_NEGATIVE_COUNT = re.compile(r"\bin\s+-")  # read as an unsigned int: `in -1` means 4294967295 intervals


def judge_timeout(text):
    """(is violation, class)"""
    if ml.has_large_number(text) or _NEGATIVE_COUNT.search(text):
        return False, "timeout_large_number_in_input"  # work proportional to a number of the input is not a hang
    po = parse_only_terminates(text)
    if po:
        return False, "timeout_long_computation"
    for _ in range(3):
        if run_mtest(text, timeout=90).cls != "timeout":
            return False, "timeout_not_reproduced"
    if po is None:
        return False, "timeout_undecided"
    return True, "timeout_parser"


def nontrivial(text, out):
    m = _ALLOWED_RX.search(text)
    if not m:
        return False
    if out.cls == "ok":
        return True
    if out.cls == "error":
        bl = text.count("\n", 0, m.start()) + 1
        l = ml.error_line(out.stderr)
        if l > bl:
            return True
        return l == 0 and "error while parsing" not in out.stderr  # execution stage
    return False


def check_mutant(case):
    if case.get("seed"):
        try:
            text = ml.read_text(case["seed"]) if os.path.isabs(case["seed"]) else case["seed_text"]
            donor = case.get("donor_text", "")
        except (OSError, KeyError):
            raise Reject()
        if "cut" in case:
            text = ml.cut_at_token(text, case["cut"])
        text = ml.apply_ops(text, case["ops"], State.keywords, donor, MAX_LEN * 2)
    elif "text" in case:
        text = case["text"]
    else:
        text = ml.random_bytes_text(case["mode"], case["mode"] // 7)
        text = ml.apply_ops(text, case["ops"], State.keywords, "", MAX_LEN * 2)
    if outside_domain(text):
        raise Reject()
    k = known_class(text)
    if k is not None and k in KNOWN:
        return Result(False, key=k, msg="input of the recorded class " + k)
    out = run_mtest(text)
    classes = ["scheme." + ("ptest" if is_ptest(text) else "mtest"), "outcome." + out.cls]
    if out.cls == "starved":
        return Result(True, classes=classes)
    if out.cls == "timeout":
        bad, cls = judge_timeout(text)
        if bad:
            key, msg = "C54.timeout.parser", "mtest does not terminate within 90 s of CPU time (3/3) and neither does the parser alone"
            if State.unit is None:
                return Result(False, key=key, msg=msg)
            State.unit.fail("mutants", key, msg, {"text": text})
        return Result(True, classes=classes + [cls])
    if out.cls == "violation":
        return Result(False, key="C54." + canonical_key(out.key), msg="mtest --verbose=quiet: %s\n%s\n%s" % (out.detail, out.report[:2500], out.stderr[-600:]))
    return Result(True, nontrivial=nontrivial(text, out), classes=classes, sample=text[:300])


def mutant_strategy(groups):
    """cases carry the seed text itself: the seeds are rewritten files which only exist in the work directory"""
    from hypothesis import strategies as st
    texts = {g: [ml.read_text(p) for p in v[:12]] for g, v in sorted(groups.items())}
    allt = [t for v in texts.values() for t in v]
    by_group = [v for v in texts.values() if v]
    seed = st.one_of(st.sampled_from(allt), st.sampled_from(by_group).flatmap(st.sampled_from))
    mutated = st.fixed_dictionaries({"seed": st.just("inline"), "seed_text": seed, "donor_text": st.sampled_from(allt),
                                     "ops": ml.ops_strategy(), "mode": st.integers(0, 10 ** 6)})
    noise = st.fixed_dictionaries({"ops": ml.ops_strategy(), "mode": st.integers(0, 10 ** 6)})
    # an unmodified corpus file cut after its k-th token (k uniform over the whole file)
    prefix = st.fixed_dictionaries({"seed": st.just("inline"), "seed_text": seed, "cut": st.integers(0, 4000), "ops": st.just([]),
                                    "mode": st.integers(0, 10 ** 6)})
    return st.one_of(*([mutated] * 6 + [prefix] * 3 + [noise]))


# ------------------------------------------------------------------ engine A
def build():
    fz = os.path.join(VERIF, "engine", "fuzz")
    return build_cached(FUZZ_SRC, UNIT + "_target", LIBS, [fz], [],
                        [os.path.join(fz, "C35_grammar_mutator.hxx"), os.path.join(fz, "C35_known.hxx"),
                         os.path.join(VERIF, "engine", "common", "fuzzstats.hxx")])


def run_campaigns(exe, seeds_per_job, runs, kwf, dictf, results):
    def one(j):
        results[j] = fuzzpy.campaign(exe, seeds_per_job[j], runs, jobs=1, seed=SEED * 64 + j, max_len=MAX_LEN,
                                     timeout=param("unit_timeout", 25), rss_mb=3072, dict_path=dictf,
                                     extra_args=["-detect_leaks=0", "-close_fd_mask=1"], tag="a%d" % j,
                                     wall_timeout=param("wall_timeout", 3600),
                                     env={"VERIF_FUZZ_KEYWORDS": kwf, "ASAN_OPTIONS": FUZZ_ASAN, "VERIF_FUZZ_LIBDIR": LIBDIR,
                                          "VERIF_FUZZ_KNOWN": ",".join(sorted(KNOWN)),
                                          "VERIF_WORK": os.path.join(WORK, "scratch")})
    os.makedirs(os.path.join(WORK, "scratch"), exist_ok=True)
    th = [threading.Thread(target=one, args=(j,)) for j in range(len(seeds_per_job))]
    for t in th:
        t.start()
    for t in th:
        t.join()


def confirm_artifact(u, art):
    kind = fuzzpy.artifact_kind(art)
    text = open(art, "rb").read().decode("latin-1")
    s = u._sub("fuzz")

    def count(c):
        s["classes"][c] = s["classes"].get(c, 0) + 1
    if kind in ("oom", "slow-unit", "other"):
        count("artifact.noise." + kind)
        return False
    o = run_mtest(text)
    if o.cls == "violation":
        ok, last = ml.confirm(lambda: run_mtest(text))
        if ok:
            fuzzpy.save_artifact(u, art, REPLAY_DIR)
            u.fail("fuzz", "C54." + canonical_key(last.key), "mtest --verbose=quiet: %s\n%s\n%s" % (last.detail, last.report[:2500], last.stderr[-600:]),
                   {"text": text}, ext=".json")
            return True
    elif o.cls == "timeout":
        bad, cls = judge_timeout(text)
        if bad:
            fuzzpy.save_artifact(u, art, REPLAY_DIR)
            u.fail("fuzz", "C54.timeout.parser", "mtest does not terminate within 90 s of CPU time (3/3)", {"text": text}, ext=".json")
            return True
        count("artifact." + cls)
        return False
    count("artifact.not_confirmed." + kind)
    return False


def sample_seeds(groups, per_group, rnd):
    out = []
    for g in sorted(groups):
        v = groups[g]
        head = v[:max(per_group * 3, 3)]
        rnd.shuffle(head)
        out += head[:per_group]
    return out


# ------------------------------------------------------------------ replay
def replay(path):
    workdir = os.path.join(WORK, "setup")
    os.makedirs(workdir, exist_ok=True)
    State.names, bad = build_behaviours()
    State.keywords, kwf, dictf = build_dictionary(workdir)
    State.exe, err = build()
    case = None
    try:
        case = load_replay(path)["case"]
    except (ValueError, KeyError, UnicodeDecodeError):
        pass
    if case is None:
        # raw input file: its @Behaviour library may be written as @library@ / any path: point it to the built ones
        text = ml.read_text(path)
        t = rewrite(text, State.names)
        case = {"text": t if t is not None else text}
    try:
        r = check_mutant(dict(case, **{"replay": True}))
    except Reject:
        print("REPLAY-DISCARDED")
        return 0
    if r.ok:
        print("REPLAY-PASSES")
        return 0
    if r.key in KNOWN and "input of the recorded class" in str(r.msg):
        # the exclusion predicate is not the oracle: run it
        o = run_mtest(case["text"]) if "text" in case else None
        if o is not None and o.cls != "violation":
            print("REPLAY-PASSES")
            return 0
        if o is not None:
            r = Result(False, key="C54." + canonical_key(o.key), msg=o.report[:3000])
    print("REPLAY-FAILS key=%s msg=%s" % (r.key, str(r.msg)[:3000]))
    return 1


# ------------------------------------------------------------------ main
def main():
    rp = replay_requested()
    if rp:
        sys.exit(replay(rp))
    u = LockedUnit(UNIT)
    State.unit = u
    t0 = time.time()
    workdir = os.path.join(WORK, "setup")
    os.makedirs(workdir, exist_ok=True)
    only = os.environ.get("VERIF_ONLY", "")
    jobs = max(1, int(param("jobs", JOBS)))
    a_jobs = max(1, min(int(param("fuzz_jobs", 8)), jobs))
    b_jobs = max(1, min(int(param("b_jobs", 8)), jobs))
    res = {}
    tb = threading.Thread(target=lambda: res.update(target=build()))
    tb.start()
    State.names, bad = build_behaviours()
    for n, e in bad:
        u.note("behaviour %s not built: %s" % (n, e[:300]))
    if len(State.names) < 3:
        print("C54: the behaviour libraries cannot be built: %s" % bad[:2])
        sys.exit(2)
    State.keywords, kwf, dictf = build_dictionary(workdir)
    groups, n_ok, n_sel = corpus(State.names, workdir)
    tb.join()
    State.exe, err = res["target"]
    if State.exe is None:
        print("C54: the libFuzzer target does not compile:\n" + err)
        sys.exit(2)
    u.extra["build_s"] = round(time.time() - t0, 1)
    u.extra["dictionary_keywords"] = len(State.keywords)
    u.extra["behaviours"] = State.names
    u.extra["corpus"] = {"groups": len(groups), "files": sum(len(v) for v in groups.values()), "probed": n_sel, "run_successfully": n_ok}

    results = {}
    ta = None
    if only in ("", "fuzz"):
        per_job = [sample_seeds(groups, int(param("seeds_per_group", 1)), random.Random(SEED * 977 + j)) for j in range(a_jobs)]
        ta = threading.Thread(target=run_campaigns, args=(State.exe, per_job, int(param("runs", 1500)), kwf, dictf, results))
        ta.start()
    if only in ("", "mutants"):
        n = int(param("cases", 240))
        strat = mutant_strategy(groups)
        th = []
        for k in range(b_jobs):
            share = n // b_jobs + (1 if k < n % b_jobs else 0)
            if share:
                t = threading.Thread(target=run_hypothesis, args=(u, "mutants", strat, check_mutant, share), kwargs={"seed_offset": 7919 * k})
                t.start()
                th.append(t)
        for t in th:
            t.join()
    u.extra["mutants_s"] = round(time.time() - t0, 1)
    if ta:
        ta.join()
        tf = time.time()
        execs = 0
        for j, r in sorted(results.items()):
            fuzzpy.merge_stats(u, "fuzz", r["stats"], r["executions"])
            execs += r["executions"]
            for art in r["artifacts"]:
                confirm_artifact(u, art)
        s = u._sub("fuzz")
        s["excluded_known"] += sum(v for k, v in s["classes"].items() if k.startswith("excluded_known."))
        s["discarded"] += s["classes"].get("excluded_domain.path", 0) + s["classes"].get("excluded_domain.huge_subdivision", 0)
        u.extra["fuzz_executions"] = execs
        u.extra["fuzz_wall_s"] = round(tf - t0 - u.extra["build_s"], 1)
        u.extra["confirm_s"] = round(time.time() - tf, 1)
        shutil.rmtree(os.path.join(WORK, "scratch"), ignore_errors=True)
    sys.exit(u.finish())


if __name__ == "__main__":
    main()
