#!/usr/bin/env python3-vt
"""C55 - @StrainMeasure GreenLagrange / Hencky behaviours are hyperelastically
consistent through the generic interface.

Generated programs: small-strain linear elastic behaviours (Default DSL with
Lame coefficients, Implicit DSL + StandardElasticity brick, Default DSL with a
generated fully anisotropic SPD stiffness for Green-Lagrange) declared with
`@StrainMeasure GreenLagrange` or `Hencky`, two modelling hypotheses each.

One case = (program, hypothesis, F0, F1, E, nu, K[0], K[1], K[2]).
Oracle (numpy, float64, written from the definitions, no TFEL code):
  * GreenLagrange: S = D : (F^T F - 1)/2 (Saint-Venant Kirchhoff);
    Hencky (isotropic): T = D : 1/2 log(F^T F), tau = R T R^T (T and U coaxial);
    sigma = F S F^T / J = tau / J, P = F S = tau F^-T: the returned
    s1.thermodynamic_forces must be the measure selected by K[1]
    (0 Cauchy, 1 PK2, 2 PK1; storage: docs/web/tensors.md);
  * the operator returned for K[2] (0: dsigma/dF, 1: dS/dE_GL, 2: dPK1/dF,
    3: dtau/d(DeltaF) with DeltaF = F1 F0^-1, release notes 4.1) must be the
    derivative of the stress *returned by the behaviour* in the matching
    measure: central finite differences obtained by re-calling the behaviour
    with perturbed F1 (K[2]=1 and 3 through the chain rule
    K . dE/dF = dS/dF,  K . dDeltaF/dF = dtau/dF);
  * K[1] >= 2.5 or (operator requested and K[2] >= 3.5) => -1.
"""
import math
import random
import sys

import numpy as np
from hypothesis import strategies as st

from verifpy import (Unit, Result, Reject, run_hypothesis, replay_main, SEED, JOBS, param, parallel_map)
import gb_iface as gb

HYPS = ["Tridimensional", "PlaneStrain", "Axisymmetrical", "GeneralisedPlaneStrain",
        "AxisymmetricalGeneralisedPlaneStrain"]
S2 = math.sqrt(2.0)
TPOS = [(0, 0), (1, 1), (2, 2), (0, 1), (1, 0), (0, 2), (2, 0), (1, 2), (2, 1)]   # tensor storage
SPOS = [(0, 0), (1, 1), (2, 2), (0, 1), (0, 2), (1, 2)]                            # stensor storage (x sqrt2 off-diagonal)


def tmat(v, ts):
    M = np.zeros((3, 3))
    for k in range(ts):
        M[TPOS[k]] = v[k]
    return M


def tvec(M, ts):
    return np.array([M[TPOS[k]] for k in range(ts)])


def smat(v, ss):
    M = np.zeros((3, 3))
    for k in range(ss):
        i, j = SPOS[k]
        if i == j:
            M[i, i] = v[k]
        else:
            M[i, j] = M[j, i] = v[k] / S2
    return M


def svec(M, ss):
    return np.array([M[SPOS[k]] if SPOS[k][0] == SPOS[k][1] else S2 * 0.5 * (M[SPOS[k]] + M[SPOS[k][::-1]])
                     for k in range(ss)])


# ------------------------------------------------------------------ programs
def render(p):
    L = []
    dsl = "Implicit" if p["kind"] == "brick" else "Default"
    L.append("@DSL %s;\n@Behaviour %s;\n@ModellingHypotheses {%s};" % (dsl, p["name"], ", ".join(p["hyps"])))
    L.append("@StrainMeasure %s;" % p["sm"])
    if p["kind"] == "brick":
        L.append("@Epsilon 1.e-14;\n@Theta 1;\n@Brick StandardElasticity;")
        L.append('@MaterialProperty stress young;\nyoung.setGlossaryName("YoungModulus");')
        L.append('@MaterialProperty real nu;\nnu.setGlossaryName("PoissonRatio");')
    elif p["kind"] == "iso":
        L.append("@MaterialProperty stress young;\n@MaterialProperty real nu;")
        L.append("@LocalVariable stress lambda;\n@LocalVariable stress mu;")
        L.append("@InitLocalVariables{\n  lambda = computeLambda(young,nu);\n  mu = computeMu(young,nu);\n}")
        D = "lambda*Stensor4::IxI()+2*mu*Stensor4::Id()"
        if p["style"] == 0:
            L.append("@ProvidesSymmetricTangentOperator;")
        elif p["style"] == 1:
            L.append("@ProvidesTangentOperator;")
        L.append("@PredictionOperator{\n  static_cast<void>(smt);\n  Dt = %s;\n}" % D)
        if p["style"] == 2:
            L.append("@Integrator{\n  const auto e = eto+deto;\n  sig = lambda*trace(e)*Stensor::Id()+2*mu*e;\n}")
            L.append("@TangentOperator{\n  static_cast<void>(smt);\n  Dt = %s;\n}" % D)
        else:
            L.append("@Integrator{\n  sig = lambda*trace(eto+deto)*Stensor::Id()+2*mu*(eto+deto);\n"
                     "  if(computeTangentOperator_){\n    Dt = %s;\n  }\n}" % D)
    else:  # aniso: generated SPD stiffness in the storage basis of the (single) hypothesis, scaled by `young`
        L.append("@MaterialProperty stress young;\n@MaterialProperty real nu;")
        L.append("@ProvidesSymmetricTangentOperator;\n@LocalVariable Stensor4 Ca;")
        n = len(p["C"])
        body = "".join("  Ca(%d,%d) = young*%r;\n" % (i, j, p["C"][i][j]) for i in range(n) for j in range(n))
        L.append("@InitLocalVariables{\n  static_cast<void>(nu);\n" + body + "}")
        L.append("@PredictionOperator{\n  static_cast<void>(smt);\n  Dt = Ca;\n}")
        L.append("@Integrator{\n  sig = Ca*(eto+deto);\n  if(computeTangentOperator_){\n    Dt = Ca;\n  }\n}")
    return "\n".join(L) + "\n"


def gen_program(seed, idx):
    r = random.Random(seed * 15485863 + idx)
    kind = ["iso", "iso", "brick", "aniso", "iso", "brick"][idx % 6]
    sm = "GreenLagrange" if kind == "aniso" else ["GreenLagrange", "Hencky"][(idx + idx // 6) % 2]
    h1 = HYPS[(idx + seed) % len(HYPS)]
    h2 = r.choice([h for h in HYPS if h != h1])
    hyps = [h1] if kind == "aniso" else [h1, h2]
    p = {"name": "C55s%dp%d" % (seed % 100000, idx), "kind": kind, "sm": sm, "hyps": hyps, "style": r.randint(0, 2)}
    if kind == "aniso":
        n = gb.HYP[h1][1]
        A = np.array([[r.uniform(-1, 1) for _ in range(n)] for _ in range(n)])
        Cm = A @ A.T / n + 0.5 * np.eye(n)
        Cm = 0.5 * (Cm + Cm.T)
        p["C"] = [[float(x) for x in row] for row in Cm]
    p["src"] = render(p)
    return p


# ------------------------------------------------------------------ reference
def ref_dual_stress(p, F, E, nu, ss):
    """second Piola-Kirchhoff stress (3x3) of the reference model"""
    C = F.T @ F
    if p["sm"] == "GreenLagrange":
        Egl = 0.5 * (C - np.eye(3))
        if p["kind"] == "aniso":
            return smat(E * (np.array(p["C"]) @ svec(Egl, ss)), ss)
        lam, mu = E * nu / ((1 + nu) * (1 - 2 * nu)), E / (2 * (1 + nu))
        return lam * np.trace(Egl) * np.eye(3) + 2 * mu * Egl
    lam, mu = E * nu / ((1 + nu) * (1 - 2 * nu)), E / (2 * (1 + nu))
    w, N = np.linalg.eigh(C)
    le = 0.5 * np.log(w)
    t = lam * np.sum(le) + 2 * mu * le
    # T coaxial with C: S = sum t_i / lambda_i^2 N_i x N_i
    return (N * (t / w)) @ N.T


def ref_stress(p, F, E, nu, ss, measure):
    S = ref_dual_stress(p, F, E, nu, ss)
    if measure == 1:
        return S
    if measure == 2:
        return F @ S
    return F @ S @ F.T / np.linalg.det(F)


def stress_vec(M, measure, ss, ts):
    return tvec(M, ts) if measure == 2 else svec(M, ss)


class Caller:
    def __init__(self, lib, h, case):
        self.lib, self.h, self.c = lib, h, case
        self.n, self.ss, self.ts = gb.HYP[h]
        self.b = gb.Buffers(lib, h)
        m = lib.meta[h]
        names = m["MaterialProperties"]["names"]
        vals = {"young": case["E"], "YoungModulus": case["E"], "nu": case["nu"], "PoissonRatio": case["nu"]}
        self.b.mp[:] = [vals[x] for x in names]
        self.b.ev0[:], self.b.ev1[:] = 293.15, 293.15
        self.b.rho0[0] = self.b.rho1[0] = 1.0
        self.ioff = lib.offsets(h, "InternalStateVariables")
        C0 = tmat(case["F0"], self.ts)
        C0 = C0.T @ C0
        if case["prog"]["sm"] == "GreenLagrange":
            self.e0 = svec(0.5 * (C0 - np.eye(3)), self.ss)
        else:
            w, N = np.linalg.eigh(C0)
            self.e0 = svec((N * (0.5 * np.log(w))) @ N.T, self.ss)

    def call(self, F1v, k0, k1, k2, s0=None):
        b, ss, ts = self.b, self.ss, self.ts
        b.g0[:ts], b.g1[:ts] = self.c["F0"][:ts], F1v
        b.tf0[:] = 0.0
        if s0 is not None:
            b.tf0[:len(s0)] = s0
        b.iv0[:] = 0.0
        b.iv1[:] = 0.0
        if "ElasticStrain" in self.ioff:  # elastic strain at the beginning of the step consistent with F0
            o = self.ioff["ElasticStrain"][0]
            b.iv0[o:o + ss] = self.e0
        b.tf1[:] = -7.7e77
        b.K[:] = -7.7e77
        b.K[0], b.K[1], b.K[2] = k0, k1, k2
        b.rdt[0] = 1.0
        r = gb.call(self.lib, self.h, b, dt=1.0, policy="None")
        return r


def check_case(case):
    p = case["prog"]
    lib, err = gb.build(p)
    if lib is None:
        return Result(False, "C55.harness.build", "program does not build: " + err)
    h = case["hyp"]
    n, ss, ts = gb.HYP[h]
    E, nu = case["E"], case["nu"]
    k0, c1, c2 = case["k0"], case["k1"], case["k2"]
    k1, k2 = c1 + case["j1"], c2 + case["j2"]
    F0, F1 = tmat(case["F0"], ts), tmat(case["F1"], ts)
    J1 = float(np.linalg.det(F1))
    if not (J1 > 1e-3 and np.linalg.det(F0) > 1e-3):
        raise Reject()
    sm = "gl" if p["sm"] == "GreenLagrange" else "hencky"
    cl = Caller(lib, h, case)
    F1v = np.array(case["F1"][:ts])
    classes = ["sm." + sm, "kind." + p["kind"], "hyp." + h, "K1.%d" % c1, "K2.%d" % c2, "K0.%d" % k0]
    ctx = "%s(%s,%s) %s K=[%r,%r,%r] E=%r nu=%r" % (p["name"], p["kind"], p["sm"], h, k0, k1, k2, E, nu)
    # the stress at the beginning of the step, consistent with F0, in the requested measure
    s0 = stress_vec(ref_stress(p, F0, E, nu, ss, min(c1, 2)), min(c1, 2), ss, ts) if c1 <= 2 else None
    r = cl.call(F1v, float(k0), k1, k2, s0)
    # ---- invalid codes
    if c1 > 2 or (c2 > 3 and k0 != 0):
        if r != -1:
            return Result(False, "C55.invalid_code.return", "invalid K[1]/K[2] accepted (ret=%d): %s" % (r, ctx))
        return Result(True, nontrivial=True, classes=classes + ["invalid_code"])
    if r == -1 and p["kind"] == "brick" and k0 == 3:
        # the StandardElasticity brick provides the elastic, secant and consistent operators only
        return Result(True, classes=classes + ["brick.tangent_operator_not_provided"])
    if r == -1:
        return Result(False, "C55.return.failure", "valid request fails: %s msg=%r" % (ctx, cl.b.message()[:200]))
    if c2 > 3:
        c2 = 0  # K[2] is not decoded without operator request
    errs = {}
    # ---- returned stress against the reference
    nst = ts if c1 == 2 else ss
    ref = stress_vec(ref_stress(p, F1, E, nu, ss, c1), c1, ss, ts)
    got = cl.b.tf1[:nst].copy()
    scale = max(float(np.linalg.norm(ref)), 1e-3 * E)
    w = np.linalg.eigvalsh(F1.T @ F1)
    gap = float(min(abs(w[i] - w[j]) for i in range(3) for j in range(i))) / float(np.max(w))
    # GreenLagrange: 5e-9, a few thousand ulps of |D| |E| |F|^2 / J.  Hencky: the handler converts the dual stress with
    # divided differences (log a - log b)/(a - b) of the eigenvalues of C as soon as they differ by more than
    # 1e-14 (absolute): relative loss u/gap (measured 0.07 u/gap: 8e-4 at gap 2e-14): not judged below 20 u/gap
    # (DESIGN: "relaxed by 1/gap for nearly equal stretches").
    # (GreenLagrange worst observed over 8 runs: 2.3e-11, cancellation lambda tr(E) 1 + 2 mu E for nu -> 0.45
    # followed by the push-forward |F|^2/J <= 32)
    tol = 5e-9 if sm == "gl" else 1e-8 + 20 * 2.2e-16 / max(gap, 1e-16)
    e = float(np.linalg.norm(got - ref)) / scale if np.all(np.isfinite(got)) else float("inf")
    mname = ["cauchy", "pk2", "pk1"][c1]
    errs["stress.%s.%s" % (sm, mname)] = e / tol
    if not e <= tol:
        return Result(False, "C55.stress.%s.%s" % (sm, mname), "relative error %.3g > %g (eigenvalue gap %.2g): got %r expected %r: %s F1=%r" % (
            e, tol, gap, got.tolist(), ref.tolist(), ctx, case["F1"][:ts]))
    # ---- returned operator against finite differences of the returned stress
    if k0 >= 1:
        Kret = cl.b.K.copy()
        meas = {0: 0, 1: 1, 2: 2, 3: 0}[c2]
        nrow = ts if c2 == 2 else ss
        ncol = ss if c2 == 1 else ts
        Kmat = Kret[:nrow * ncol].reshape(nrow, ncol)
        if not np.all(np.isfinite(Kmat)):
            return Result(False, "C55.tangent.%s.%s" % (sm, ["dsig_dF", "dS_dEGL", "dPK1_dF", "dtau_dDF"][c2]), "non finite operator: " + ctx)
        hstep = 1e-6
        D = np.zeros((nrow, ts))
        for j in range(ts):
            out = []
            for sgn in (1.0, -1.0):
                Fp = F1v.copy()
                Fp[j] += sgn * hstep
                rr = cl.call(Fp, 0.0, float(meas), 0.0, s0 if c1 == meas else
                             stress_vec(ref_stress(p, F0, E, nu, ss, meas), meas, ss, ts))
                if rr == -1:
                    return Result(False, "C55.return.failure", "perturbed call fails: %s msg=%r" % (ctx, cl.b.message()[:200]))
                v = cl.b.tf1[:nrow].copy()
                if c2 == 3:
                    v = v * float(np.linalg.det(tmat(Fp, ts)))
                out.append(v)
            D[:, j] = (out[0] - out[1]) / (2 * hstep)
        if c2 == 1:      # K . dE/dF, dE = sym(F^T dF)
            M = np.zeros((ss, ts))
            for j in range(ts):
                dF = np.zeros((3, 3))
                dF[TPOS[j]] = 1.0
                M[:, j] = svec(0.5 * (F1.T @ dF + dF.T @ F1), ss)
            pred = Kmat @ M
        elif c2 == 3:    # K . dDeltaF/dF, dDeltaF = dF F0^-1
            F0i = np.linalg.inv(F0)
            M = np.zeros((ts, ts))
            for j in range(ts):
                dF = np.zeros((3, 3))
                dF[TPOS[j]] = 1.0
                M[:, j] = tvec(dF @ F0i, ts)
            pred = Kmat @ M
        else:
            pred = Kmat
        tscale = max(float(np.linalg.norm(D)), 1e-3 * E)
        et = float(np.linalg.norm(pred - D)) / tscale
        fname = ["dsig_dF", "dS_dEGL", "dPK1_dF", "dtau_dDF"][c2]
        # 2e-6: truncation + round-off of the central differences (h=1e-6: h^2 + u/h ~ 1e-10) with margin.
        # Hencky: the implementation evaluates divided differences (log a - log b)/(a - b) of the eigenvalues
        # of C, which loses u/gap (measured 2.5e-17/gap on [1e-14,1e-8]): not judged below 20 u/gap.
        ttol = 2e-6 + (20 * 2.2e-16 / max(gap, 1e-16) if sm == "hencky" else 0.0)
        errs["tangent.%s.%s" % (sm, fname)] = et / ttol
        if not et <= ttol:
            return Result(False, "C55.tangent.%s.%s" % (sm, fname), "relative error %.3g > %g (eigenvalue gap %.2g) between the returned operator and finite differences of the returned stress: %s F0=%r F1=%r" % (
                et, ttol, gap, ctx, case["F0"][:ts], case["F1"][:ts]))
    # ---- classes
    U2 = F1.T @ F1
    lam = np.sqrt(np.linalg.eigvalsh(U2))
    Rm = F1 @ np.linalg.inv(_sqrtm_spd(U2))
    ang = math.acos(max(-1.0, min(1.0, 0.5 * (np.trace(Rm) - 1.0))))
    big = ang > 0.2 and lam[-1] / lam[0] > 1.2
    if gap < 1e-6:
        classes.append("near_equal_stretches")
    if big:
        classes.append("large_rotation_and_stretch")
    return Result(True, nontrivial=bool(big and (c1, c2) != (0, 0)), classes=classes, errs=errs)


def _sqrtm_spd(A):
    w, V = np.linalg.eigh(A)
    return (V * np.sqrt(w)) @ V.T


# ------------------------------------------------------------------ strategy
def fl(lo, hi):
    return st.floats(min_value=lo, max_value=hi, allow_nan=False, allow_infinity=False, width=64)


def rot3(ax, ang):
    a = np.array(ax, dtype=float)
    nrm = np.linalg.norm(a)
    a = np.array([0.0, 0.0, 1.0]) if nrm < 1e-8 else a / nrm
    Kx = np.array([[0, -a[2], a[1]], [a[2], 0, -a[0]], [-a[1], a[0], 0]])
    return np.eye(3) + math.sin(ang) * Kx + (1 - math.cos(ang)) * (Kx @ Kx)


def make_F(n, q):
    """F = R Q diag(stretches) Q^T with the structure of the space dimension n"""
    lam = np.exp(np.array(q["ll"]))
    if q["eq"] == 1:
        lam[1] = lam[0] * (1.0 + q["eqd"])
    elif q["eq"] == 2:
        lam[1] = lam[0] * (1.0 + q["eqd"])
        lam[2] = lam[0] * (1.0 - 0.5 * q["eqd"])
    if n == 3:
        R, Q = rot3(q["ra"], q["rang"]), rot3(q["qa"], q["qang"])
    elif n == 2:
        R, Q = rot3([0, 0, 1], q["rang"]), rot3([0, 0, 1], q["qang"])
    else:
        R = Q = np.eye(3)
    return R @ Q @ np.diag(lam) @ Q.T


FPAR = st.fixed_dictionaries({
    "ll": st.lists(fl(-0.7, 0.7), min_size=3, max_size=3),
    "eq": st.sampled_from([0, 0, 0, 0, 1, 2]), "eqd": st.sampled_from([0.0, 1e-14, 1e-11, 1e-9, 1e-7, 1e-5, 1e-3]),
    "ra": st.lists(fl(-1, 1), min_size=3, max_size=3), "rang": st.one_of(fl(0.0, 3.1), fl(-3.1, 3.1), st.just(0.0)),
    "qa": st.lists(fl(-1, 1), min_size=3, max_size=3), "qang": fl(-3.1, 3.1)})


def strategy(programs):
    def mk(pi, hi, q0, q1, E, nu, k0, k1, k2, j1, j2, same):
        p = programs[pi]
        h = p["hyps"][hi % len(p["hyps"])]
        n, ss, ts = gb.HYP[h]
        F0, F1 = make_F(n, q0), make_F(n, q1)
        if h == "PlaneStrain":
            F0[2, 2] = F1[2, 2] = 1.0
        if same:
            F0 = np.eye(3)
        pad = lambda v: [float(x) for x in v] + [0.0] * (9 - len(v))
        return {"prog": p, "hyp": h, "F0": pad(tvec(F0, ts)), "F1": pad(tvec(F1, ts)), "E": E, "nu": nu,
                "k0": k0, "k1": k1, "k2": k2, "j1": j1, "j2": j2}
    return st.builds(mk, st.integers(0, len(programs) - 1), st.integers(0, 1), FPAR, FPAR,
                     st.one_of(st.sampled_from([1.0, 210e9, 70e3]), fl(1.0, 1e6)), fl(-0.3, 0.45),
                     st.sampled_from([0, 1, 2, 3, 4, 4, 4]),
                     st.sampled_from([0, 1, 2, 0, 1, 2, 0, 1, 2, 3, 5]), st.sampled_from([0, 1, 2, 3, 0, 1, 2, 3, 0, 1, 2, 3, 4, 7]),
                     st.one_of(st.just(0.0), fl(-0.3, 0.3)), st.one_of(st.just(0.0), fl(-0.3, 0.3)), st.booleans())


def main():
    replay_main({"hyper": check_case})
    u = Unit("C55_strain_measure")
    nprog = int(param("programs", 8))
    programs = [gen_program(SEED, i) for i in range(nprog)]
    built = parallel_map(lambda p: gb.build(p), programs, jobs=min(JOBS, nprog))
    good = []
    for p, (lib, err) in zip(programs, built):
        if lib is None:
            u.fail("hyper", "C55.harness.build", "generated program does not build: " + err, {"prog": p})
        else:
            good.append(p)
    u.extra["programs"] = len(good)
    if good:
        run_hypothesis(u, "hyper", strategy(good), check_case, max_examples=int(param("cases", 1500)))
    sys.exit(u.finish())


if __name__ == "__main__":
    main()
