"""ctypes binding of MFront's `generic` behaviour interface, shared by the py
units C39, C40 and C55.

The C structures mirror /repo/mfront/include/MFront/GenericBehaviour/
{Types.h,State.h,BehaviourData.h}.  Nothing here judges anything: it builds a
generated behaviour (mfront --interface=generic + verifpy.compile_generated),
loads it, reads the metadata symbols the interface exports, and performs one
call `<name>_<Hypothesis>(mfront_gb_BehaviourData*)` on numpy buffers.

A *program* is the JSON-serialisable dict {"name": str, "src": str,
"hyps": [str,...]} so that replay files are self-contained.
"""
import contextlib
import ctypes as C
import hashlib
import os
import struct
import threading

import numpy as np

import verifpy
from verifpy import WORK, mfront_generate, compile_generated

real = C.c_double
preal = C.POINTER(C.c_double)


class State(C.Structure):  # mfront_gb_State
    _fields_ = [("gradients", preal), ("thermodynamic_forces", preal), ("mass_density", preal),
                ("material_properties", preal), ("internal_state_variables", preal),
                ("stored_energy", preal), ("dissipated_energy", preal),
                ("external_state_variables", preal)]


class InitialState(C.Structure):  # mfront_gb_InitialState (same layout, const pointers)
    _fields_ = State._fields_


class BehaviourData(C.Structure):  # mfront_gb_BehaviourData
    _fields_ = [("error_message", C.c_char_p), ("dt", real), ("K", preal), ("rdt", preal),
                ("speed_of_sound", preal), ("s0", InitialState), ("s1", State)]


# hypothesis -> (space dimension, stensor size, tensor size)
HYP = {
    "Tridimensional": (3, 6, 9),
    "PlaneStrain": (2, 4, 5),
    "PlaneStress": (2, 4, 5),
    "Axisymmetrical": (2, 4, 5),
    "GeneralisedPlaneStrain": (2, 4, 5),
    "AxisymmetricalGeneralisedPlaneStrain": (1, 3, 3),
    "AxisymmetricalGeneralisedPlaneStress": (1, 3, 3),
}
KSIZE = 96  # >= 9*9, every call gets a K buffer of this size
POLICY = {"None": 0, "Warning": 1, "Strict": 2}


def type_size(t, hyp):
    n, ss, ts = HYP[hyp]
    return {0: 1, 1: ss, 2: n, 3: ts}[t]


def dptr(a):
    return a.ctypes.data_as(preal)


def bits(a):
    """bit pattern of a float64 array as a tuple of ints (NaN safe comparisons)"""
    return tuple(np.ascontiguousarray(a, dtype=np.float64).view(np.uint64).tolist())


def f2hex(x):
    return float(x).hex()


class Library:
    """a loaded generated behaviour library"""

    def __init__(self, path, name, hyps):
        self.path, self.name, self.hyps = path, name, list(hyps)
        self.lib = C.CDLL(path)
        self.fn = {}
        self.meta = {}
        for h in self.hyps:
            f = getattr(self.lib, "%s_%s" % (name, h))
            f.restype = C.c_int
            f.argtypes = [C.POINTER(BehaviourData)]
            self.fn[h] = f
            self.meta[h] = self._metadata(h)
        self._setp = getattr(self.lib, name + "_setOutOfBoundsPolicy")
        self._setp.restype = None
        self._setp.argtypes = [C.c_int]
        self._setpar = getattr(self.lib, name + "_setParameter", None)
        if self._setpar is not None:
            self._setpar.restype = C.c_int
            self._setpar.argtypes = [C.c_char_p, C.c_double]

    def _sym(self, h, s, ctype):
        for n in ("%s_%s_%s" % (self.name, h, s), "%s_%s" % (self.name, s)):
            try:
                return ctype.in_dll(self.lib, n)
            except ValueError:
                continue
        return None

    def _ushort(self, h, s, default=0):
        v = self._sym(h, s, C.c_ushort)
        return default if v is None else int(v.value)

    def _names_types(self, h, what):
        n = self._ushort(h, "n" + what)
        if n == 0:
            return [], []
        names = self._sym(h, what, C.c_char_p * n)
        types = self._sym(h, what + "Types", C.c_int * n)
        return [x.decode() for x in names], ([int(t) for t in types] if types is not None else [0] * n)

    def _metadata(self, h):
        m = {}
        for what in ("Gradients", "ThermodynamicForces", "InternalStateVariables", "ExternalStateVariables"):
            names, types = self._names_types(h, what)
            if what == "ExternalStateVariables" and self._ushort(h, "TemperatureRemovedFromExternalStateVariables"):
                # the temperature is implicitly the first external state variable (as MGIS does)
                names, types = ["Temperature"] + names, [0] + types
            sizes = [type_size(t, h) for t in types]
            m[what] = {"names": names, "types": types, "sizes": sizes, "size": sum(sizes)}
        n = self._ushort(h, "nMaterialProperties")
        names = self._sym(h, "MaterialProperties", C.c_char_p * n) if n else []
        m["MaterialProperties"] = {"names": [x.decode() for x in names], "size": n}
        m["BehaviourType"] = self._ushort(h, "BehaviourType")
        m["BehaviourKinematic"] = self._ushort(h, "BehaviourKinematic")
        m["ComputesInternalEnergy"] = self._ushort(h, "ComputesInternalEnergy")
        m["ComputesDissipatedEnergy"] = self._ushort(h, "ComputesDissipatedEnergy")
        # a finite strain call may return PK1 (tensor) in the thermodynamic forces buffer
        m["tf_buffer"] = max(m["ThermodynamicForces"]["size"], HYP[h][2]) if m["BehaviourType"] in (1, 2) \
            else m["ThermodynamicForces"]["size"]
        return m

    def offsets(self, h, what):
        m = self.meta[h][what]
        o, out = 0, {}
        for n, s in zip(m["names"], m["sizes"]):
            out[n] = (o, s)
            o += s
        return out

    def set_policy(self, p):
        self._setp(POLICY[p] if isinstance(p, str) else int(p))

    def set_parameter(self, k, v):
        return self._setpar(k.encode(), float(v))


_build_lock = threading.Lock()
_loaded = {}


def build(prog, workroot=None):
    """mfront + g++ for a program; returns (Library or None, error text)"""
    key = hashlib.sha1((prog["name"] + "\0" + prog["src"]).encode()).hexdigest()[:16]
    with _build_lock:
        if key in _loaded:
            return _loaded[key], ""
    wd = os.path.join(workroot or WORK, "prog", prog["name"] + "_" + key)
    os.makedirs(wd, exist_ok=True)
    src = os.path.join(wd, prog["name"] + ".mfront")
    with open(src, "w") as f:
        f.write(prog["src"])
    # relative name: the generated #line directives (hence the compilation cache key) do not depend on the work directory
    rc, so, se = mfront_generate(os.path.basename(src), wd)
    if rc != 0:
        return None, "mfront failed (rc=%s): %s" % (rc, (so + se)[-1500:])
    path, err = compile_generated(wd, prog["name"] + "_" + key)
    if path is None:
        return None, "g++ failed: " + err
    try:
        lib = Library(path, prog["name"], prog["hyps"])
    except (OSError, AttributeError) as e:
        return None, "load failed: %s" % e
    with _build_lock:
        _loaded[key] = lib
    return lib, ""


@contextlib.contextmanager
def quiet_stderr():
    """the Warning out-of-bounds policy writes to std::cerr: drop it"""
    fd = os.dup(2)
    dn = os.open(os.devnull, os.O_WRONLY)
    try:
        os.dup2(dn, 2)
        yield
    finally:
        os.dup2(fd, 2)
        os.close(fd)
        os.close(dn)


class Buffers:
    """numpy buffers of one call; everything the callee may write is copied out"""

    def __init__(self, lib, h):
        m = lib.meta[h]
        self.m = m
        z = lambda n: np.zeros(max(1, n), dtype=np.float64)
        self.g0, self.g1 = z(m["Gradients"]["size"]), z(m["Gradients"]["size"])
        self.tf0, self.tf1 = z(m["tf_buffer"]), z(m["tf_buffer"])
        self.mp = z(m["MaterialProperties"]["size"])
        self.iv0, self.iv1 = z(m["InternalStateVariables"]["size"]), z(m["InternalStateVariables"]["size"])
        self.ev0, self.ev1 = z(m["ExternalStateVariables"]["size"]), z(m["ExternalStateVariables"]["size"])
        self.rho0, self.rho1 = z(1), z(1)
        self.se0, self.se1, self.de0, self.de1 = z(1), z(1), z(1), z(1)
        self.K = z(KSIZE)
        self.rdt = z(1)
        self.sos = z(1)
        self.msg = C.create_string_buffer(512)
        d = BehaviourData()
        d.error_message = C.cast(self.msg, C.c_char_p)
        d.K, d.rdt, d.speed_of_sound = dptr(self.K), dptr(self.rdt), dptr(self.sos)
        for s, g, tf, rho, iv, se, de, ev in ((d.s0, self.g0, self.tf0, self.rho0, self.iv0, self.se0, self.de0, self.ev0),
                                              (d.s1, self.g1, self.tf1, self.rho1, self.iv1, self.se1, self.de1, self.ev1)):
            s.gradients, s.thermodynamic_forces, s.mass_density = dptr(g), dptr(tf), dptr(rho)
            s.material_properties, s.internal_state_variables = dptr(self.mp), dptr(iv)
            s.stored_energy, s.dissipated_energy, s.external_state_variables = dptr(se), dptr(de), dptr(ev)
        self.d = d

    def message(self):
        return self.msg.value.decode(errors="replace")


def call(lib, h, b, dt=1.0, policy=None):
    """one call on prepared buffers; returns the integer result"""
    b.d.dt = dt
    b.msg.value = b""
    if policy is not None:
        lib.set_policy(policy)
    if policy == "Warning":
        with quiet_stderr():
            return int(lib.fn[h](C.byref(b.d)))
    return int(lib.fn[h](C.byref(b.d)))


def sentinel(rng_ints, n, lo=1.0e3):
    """n finite doubles with recognisable, all distinct bit patterns built from integers"""
    out = np.empty(n, dtype=np.float64)
    for i in range(n):
        out[i] = struct.unpack("<d", struct.pack("<Q", 0x40F0000000000000 | (int(rng_ints[i % len(rng_ints)]) & 0xFFFFFFFFFFFF)))[0] + i
    return out
