"""Shared helpers of the C35 (mfront / mfront-query) and C54 (mtest) fuzz units.

* python port of the grammar-aware mutation operators of
  engine/fuzz/C35_grammar_mutator.hxx (statement / block / keyword / number /
  identifier / truncation edits) driven by integers drawn by Hypothesis;
* the domain filter and the outcome classifier of the out-of-process engine
  (engine B): a command is run on the *real* ASan+UBSan executable of
  /verif/build/asan with the sanitizer reports redirected to files
  (`log_path`), so that a report cannot be confused with the tool echoing its
  input on stderr.

Outcome classes
  ok         exit status 0, no sanitizer report
  error      exit status > 0 (or, where the tool's main lets exceptions reach
             std::terminate under libstdc++ -- mtest and mfront-query --
             SIGABRT whose stderr holds "terminate called after throwing an
             instance of '...'" and a "what():" line), no sanitizer report
  violation  sanitizer report, any other signal, SIGABRT without exception
             message
  timeout    no termination within the time limit (decided separately)
"""
import glob
import os
import random
import re
import shutil
import signal
import subprocess
import tempfile
import threading

from verifpy import REPO, VERIF, WORK, run
import fuzzpy

# ------------------------------------------------------------------ scanning


def _skip_opaque(s, i):
    n = len(s)
    c = s[i]
    if c == '/' and i + 1 < n and s[i + 1] == '/':
        j = s.find('\n', i + 2)
        return n if j < 0 else j
    if c == '/' and i + 1 < n and s[i + 1] == '*':
        j = s.find('*/', i + 2)
        return n if j < 0 else j + 2
    if c == '"' or c == "'":
        j = i + 1
        while j < n and s[j] != c and s[j] != '\n':
            if s[j] == '\\':
                j += 1
            j += 1
        return j + 1 if j < n else n
    return i


def statements(s):
    """top level statements `... ;` / `... {...}` as (begin, end) spans"""
    r = []
    n = len(s)
    b = i = 0
    depth = 0
    while i < n:
        j = _skip_opaque(s, i)
        if j != i:
            i = j
            continue
        c = s[i]
        if c == '{':
            depth += 1
        elif c == '}':
            if depth > 0:
                depth -= 1
            if depth == 0:
                k = i + 1
                while k < n and s[k].isspace():
                    k += 1
                if k < n and s[k] == ';':
                    i = k
                r.append((b, i + 1))
                b = i + 1
        elif c == ';' and depth == 0:
            r.append((b, i + 1))
            b = i + 1
        i += 1
    if b < n:
        r.append((b, n))
    return r


def blocks(s):
    r = []
    st = []
    n = len(s)
    i = 0
    while i < n:
        j = _skip_opaque(s, i)
        if j != i:
            i = j
            continue
        if s[i] == '{':
            st.append(i)
        elif s[i] == '}' and st:
            r.append((st.pop(), i + 1))
        i += 1
    return r


_KW = re.compile(r"@[A-Za-z0-9_]+")
_NUM = re.compile(r"(?<![A-Za-z0-9_])[0-9][0-9.]*(?:[eE][+-]?[0-9]+)?")
_ID = re.compile(r"(?<![A-Za-z0-9_@])[A-Za-z_][A-Za-z0-9_]*")
_TOK = re.compile(r"[A-Za-z0-9_]+|[^\sA-Za-z0-9_]")


def spans(rx, s):
    return [m.span() for m in rx.finditer(s)]


NUMBER_POOL = ["0", "-1", "1", "2", "1e308", "-1e308", "1e-320", "nan", "inf", "-0.", "4294967296", "2147483648",
               "-2147483649", "18446744073709551616", "65536", "1e", "0x10", "1000000", "0.5", "1.e-30",
               "99999999999999999999999999", "-"]

N_OPS = 14  # 12 and 13: the "cut a statement after its k-th token" variant of op 4


def mutate_once(s, op, a, b, c, keywords, donor):
    """one edit; returns the new text (or the same text when the edit is not applicable)"""
    op %= N_OPS
    if op >= 12:
        op, c = 4, 1
    if op <= 2:
        st = statements(s)
        if len(st) < 2:
            return s
        x = st[a % len(st)]
        if op == 0:
            return s[:x[0]] + s[x[1]:]
        if op == 1:
            at = st[b % len(st)][1]
            return s[:at] + s[x[0]:x[1]] + s[at:]
        y = st[b % len(st)]
        if x[0] == y[0]:
            return s
        lo, hi = (x, y) if x[0] < y[0] else (y, x)
        return s[:lo[0]] + s[hi[0]:hi[1]] + s[lo[1]:hi[0]] + s[lo[0]:lo[1]] + s[hi[1]:]
    if op == 3:
        ks = spans(_KW, s)
        if not ks or not keywords:
            return s
        k = ks[a % len(ks)]
        return s[:k[0]] + keywords[b % len(keywords)] + s[k[1]:]
    if op == 4:
        if c % 2:
            # inside a statement, after its k-th token (k small): aims at the end-of-file checks of the token readers
            st = statements(s)
            if not st:
                return s
            x = st[(a // 3) % min(len(st), 3)] if a % 3 == 0 else st[a % len(st)]  # 1/3: one of the header statements
            tb = [m.end() for m in _TOK.finditer(s, x[0], x[1])]
            if not tb:
                return s
            return s[:tb[b % min(len(tb), 12)]]
        tb = [m.end() for m in _TOK.finditer(s)]
        if not tb:
            return s
        i = a % len(tb)
        if b % 2:
            i = len(tb) - 1 - (a % min(len(tb), 40))
        return s[:tb[i]]
    if op in (5, 6):
        ns = spans(_NUM, s)
        if not ns:
            return s
        k = ns[a % len(ns)]
        cur = s[k[0]:k[1]]
        ch = b % (len(NUMBER_POOL) + 3)
        if ch < len(NUMBER_POOL):
            v = NUMBER_POOL[ch]
        elif ch == len(NUMBER_POOL):
            v = "-" + cur
        elif ch == len(NUMBER_POOL) + 1:
            v = cur + "0000000000"
        else:
            v = cur + "e400"
        return s[:k[0]] + v + s[k[1]:]
    if op == 7:
        bs = blocks(s)
        if not bs:
            return s
        k = bs[a % len(bs)]
        w = b % 3
        if w == 0:
            return s[:k[0]] + s[k[1]:]
        if w == 1:
            return s[:k[1]] + s[k[0]:k[1]] + s[k[1]:]
        return s[:k[0]] + "{}" + s[k[1]:]
    if op == 8:
        ids = spans(_ID, s)
        if len(ids) < 2:
            return s
        x = ids[a % len(ids)]
        y = ids[b % len(ids)]
        return s[:x[0]] + s[y[0]:y[1]] + s[x[1]:]
    if op == 9:
        st = statements(s)
        at = st[a % len(st)][1] if st else len(s)
        if not keywords:
            return s
        t = "\n" + keywords[b % len(keywords)] + [" x;", " 1;", "{}", ";"][c % 4]
        return s[:at] + t + s[at:]
    if op == 10:  # splice a statement of another corpus file
        sd = statements(donor)
        if not sd:
            return s
        x = sd[a % len(sd)]
        t = donor[x[0]:x[1]]
        st = statements(s)
        if not st:
            return s + t
        y = st[b % len(st)]
        if c % 4 == 0:
            return s[:y[0]] + t + s[y[1]:]
        return s[:y[1]] + t + s[y[1]:]
    # op == 11: byte noise
    rnd = random.Random(a * 1000003 + b)
    n = 1 + c % 8
    noise = "".join(chr(rnd.randrange(256)) for _ in range(n))
    at = rnd.randrange(len(s) + 1)
    if b % 2:
        return s[:at] + noise + s[at + n:]
    return s[:at] + noise + s[at:]


def apply_ops(text, ops, keywords, donor, max_len=16384):
    for o in ops:
        text = mutate_once(text, o[0], o[1], o[2], o[3], keywords, donor)
        if len(text) > max_len:
            text = text[:max_len]
    return text


def cut_at_token(text, k):
    """prefix of `text` ending after its (k mod n)-th token: the systematic version of the truncation operator,
    applied to unmodified corpus files (every end-of-input check of the readers is one position away)"""
    tb = [m.end() for m in _TOK.finditer(text)]
    if not tb:
        return text
    return text[:tb[k % len(tb)]]


def random_bytes_text(a, n):
    rnd = random.Random(a)
    return "".join(chr(rnd.randrange(256)) for _ in range(n % 512))


def ops_strategy():
    from hypothesis import strategies as st
    big = st.integers(0, 10 ** 6)
    return st.lists(st.tuples(st.integers(0, N_OPS - 1), big, big, big), min_size=1, max_size=4)


def dict_entry(w):
    """one line of a libFuzzer dictionary"""
    e = ""
    for ch in w:
        o = ord(ch)
        if ch in ('\\', '"'):
            e += "\\" + ch
        elif 0x20 <= o < 0x7f:
            e += ch
        else:
            e += "\\x%02x" % (o & 0xff)
    return '"%s"\n' % e


def read_text(path):
    with open(path, "rb") as f:
        return f.read().decode("latin-1")


def write_text(path, text):
    with open(path, "wb") as f:
        f.write(text.encode("latin-1", errors="replace"))


# ------------------------------------------------------------------ domain
_SO = re.compile(r"\.so(?![A-Za-z0-9_])")
_QUOTE_PATH = re.compile(r"[\"'][ \t]*[/~]")


def outside_domain(text, allowed=""):
    """same predicate as c35::outsideDomain (engine/fuzz/C35_known.hxx)"""
    u = text.replace(allowed, "LIB") if allowed else text
    for p in ("../", "/dev", "/proc", "/sys"):
        if p in u:
            return True
    return bool(_SO.search(u) or _QUOTE_PATH.search(u))


_LARGE = re.compile(r"(?<![0-9.])[0-9]{6,}(?![0-9.eE])")


def has_large_number(text):
    """an integer literal of 6 digits or more: the work requested by the input (numbers of steps,
    elements, iterations, array sizes...) may legitimately be huge"""
    return bool(_LARGE.search(text))


def fnv64(data):
    h = 1469598103934665603
    for ch in data:
        h ^= ch
        h = (h * 1099511628211) & 0xFFFFFFFFFFFFFFFF
    return h


def keywords_before(text, line):
    """number of `@Keyword` beginning a statement located on a line < `line` (all when line < 0)"""
    n = 0
    for b, e in statements(text):
        i = b
        while i < e and text[i].isspace():
            i += 1
        if i < e and text[i] == '@':
            if line < 0 or text.count("\n", 0, i) + 1 < line:
                n += 1
    return n


_ERRLINE = re.compile(r"at line '(\d+)'")


def error_line(msg):
    m = _ERRLINE.search(msg)
    return int(m.group(1)) if m else 0


# ------------------------------------------------------------------ engine B
SAN_ASAN = "detect_leaks=1:abort_on_error=0:symbolize=1:detect_odr_violation=0:handle_abort=0:allocator_may_return_null=1:malloc_context_size=12:max_malloc_fill_size=268435456:malloc_fill_byte=190"
SAN_UBSAN = "print_stacktrace=1:halt_on_error=1"

_TERMINATE = re.compile(r"terminate called after throwing an instance of '([^']+)'")

_scratch_lock = threading.Lock()
_scratch_n = [0]


def new_scratch(prefix):
    with _scratch_lock:
        _scratch_n[0] += 1
        n = _scratch_n[0]
    d = os.path.join(WORK, "%s-%d-%d" % (prefix, os.getpid(), n))
    shutil.rmtree(d, ignore_errors=True)
    os.makedirs(d)
    return d


class Outcome:
    def __init__(self, cls, detail="", key="", rc=0, stderr="", report=""):
        self.cls, self.detail, self.key, self.rc, self.stderr, self.report = cls, detail, key, rc, stderr, report

    def __repr__(self):
        return "Outcome(%s, %s, rc=%s)" % (self.cls, self.key or self.detail, self.rc)


_FRAME = re.compile(r"#\d+ 0x[0-9a-f]+ in (.+?) (?:/|\(|<)")
_SKIP_FRAME = re.compile(r"^(__|_start|operator new|operator delete|malloc|free|calloc|realloc|std::|__interceptor|__asan|__ubsan|__sanitizer|"
                         r"__lsan|void std::|bool std::|decltype|__gnu_cxx|main$|abort|raise|__GI_|memcpy|memmove|strlen|__cxa)")


def report_key(report):
    """(kind, function) extracted from a sanitizer report: kind = error class,
    function = first frame which is not runtime / libstdc++"""
    kind = "report"
    m = re.search(r"ERROR: AddressSanitizer: ([A-Za-z0-9_-]+)", report)
    if m:
        kind = m.group(1)
    elif "ERROR: LeakSanitizer" in report:
        kind = "leak"
    else:
        m = re.search(r"runtime error: ([^\n]{0,80})", report)
        if m:
            w = m.group(1)
            kind = "ubsan." + re.sub(r"[^a-z]+", "_", w.lower().split(" for ")[0].split(" of ")[0])[:40].strip("_")
    fn = ""
    frames = [m.group(1).strip() for m in _FRAME.finditer(report)]
    # the first frame of the code under test; else the first one which is not runtime / libstdc++
    for f in frames[:40]:
        if re.search(r"\b(mfront|mtest|tfel)::", f.split("(")[0]):
            fn = f
            break
    if not fn:
        for f in frames:
            if not _SKIP_FRAME.match(f):
                fn = f
                break
    fn = re.sub(r"\(.*$", "", fn)           # drop the argument list
    fn = re.sub(r"<[^<>]*>", "", fn)         # drop simple template arguments
    fn = re.sub(r"[^A-Za-z0-9_:~]+", "_", fn).strip("_")
    return kind, fn[:120]


def _run_limited(cmd, cwd, env, cpu, wall):
    """run cmd with a CPU time limit (RLIMIT_CPU: SIGXCPU, then SIGKILL) and a (large) wall clock limit.
    Returns (rc, stdout, stderr, cpu exhausted, wall exhausted).  The CPU limit makes the verdict independent
    of the load of the machine: a starved process is not a hanging process."""
    full = ["prlimit", "--cpu=%d:%d" % (cpu, cpu + 5)] + list(cmd)
    p = subprocess.Popen(full, cwd=cwd, env=env, stdout=subprocess.PIPE, stderr=subprocess.PIPE, stdin=subprocess.DEVNULL)
    try:
        so, se = p.communicate(timeout=wall)
        walled = False
    except subprocess.TimeoutExpired:
        p.kill()
        so, se = p.communicate()
        walled = True
    rc = p.returncode
    cpued = (not walled) and rc == -signal.SIGXCPU
    return rc, so.decode(errors="replace"), se.decode(errors="replace"), cpued, walled


def run_tool(cmd, text, fname, allow_terminate, timeout=30, keep=False, extra_files=None, wall=600):
    """run `cmd` (list, the input file name is appended) in a fresh scratch
    directory holding `text` as `fname`; returns an Outcome.  `timeout` is a CPU time limit."""
    d = new_scratch("b")
    try:
        write_text(os.path.join(d, fname), text)
        for n, content in (extra_files or {}).items():
            write_text(os.path.join(d, n), content)
        env = fuzzpy.asan_env({"ASAN_OPTIONS": SAN_ASAN + ":log_path=" + os.path.join(d, "san"),
                               "UBSAN_OPTIONS": SAN_UBSAN + ":log_path=" + os.path.join(d, "san")})
        rc, so, se, cpued, walled = _run_limited(list(cmd) + [fname], d, env, timeout, wall)
        if walled:
            return Outcome("starved", "no termination within %d s of wall clock, CPU limit not reached" % wall, "", rc, se[-1500:])
        if cpued:
            rc = -999
        elif rc == -signal.SIGKILL:
            return Outcome("starved", "killed (out of memory killer?)", "", rc, se[-1500:])
        reports = sorted(glob.glob(os.path.join(d, "san.*")))
        rep = ""
        for r in reports:
            try:
                rep += open(r, errors="replace").read()
            except OSError:
                pass
        if rep.strip():
            kind, fn = report_key(rep)
            if kind in ("allocation-size-too-big", "out-of-memory"):
                # the sanitizer's rendering of std::bad_alloc (the plain tool throws and reports)
                return Outcome("error", "asan allocation limit", "", rc, se[-1500:], rep[:1500])
            return Outcome("violation", "sanitizer report", "%s.%s" % (kind, fn), rc, se[-1500:], rep[:6000])
        if rc == -999:
            return Outcome("timeout", "no termination within %d s of CPU time" % timeout, "timeout", rc, se[-1500:])
        if rc == 0:
            return Outcome("ok", "", "", rc, se[-1500:])
        if rc > 0:
            return Outcome("error", "exit %d" % rc, "", rc, se[-3000:])
        sig = -rc
        if sig == signal.SIGABRT and allow_terminate:
            m = _TERMINATE.search(se)
            if m and "what():" in se:
                return Outcome("error", "terminate: " + m.group(1), "", rc, se[-3000:])
        try:
            sname = signal.Signals(sig).name
        except ValueError:
            sname = "SIG%d" % sig
        why = ""
        if sig == signal.SIGABRT:
            if "Assertion" in se:
                why = ".assert"
            elif "without an active exception" in se:
                why = ".no_active_exception"
            elif "recursively" in se:
                why = ".recursive_terminate"
        return Outcome("violation", "killed by " + sname, sname + why, rc, se[-3000:])
    finally:
        if not keep:
            shutil.rmtree(d, ignore_errors=True)


def confirm(fn, times=3):
    """fn() -> Outcome; True when the outcome is a violation `times` times with the same key"""
    keys = []
    last = None
    for _ in range(times):
        last = fn()
        if last.cls != "violation":
            return False, last
        keys.append(last.key)
    return len(set(keys)) == 1, last
