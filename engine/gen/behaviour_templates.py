"""Reference behaviours written by the generator (shared by C41 and C42).

A *program description* is a small JSON dict (kind + options); `render(p)`
turns it into the `.mfront` text and `make_program(p)` into the program
`{"name","src","hyps",...}` understood by gb_iface.build (the text travels in
the replay files, so they are self-contained).

Every template declares its elastic constants under the glossary names
YoungModulus / PoissonRatio and the flow constants under the entry names
NortonCoefficient / NortonExponent / HardeningSlope / InitialYieldStress, as
material properties ("mp": chosen per call) or baked in the source ("baked":
chosen per program).

The numpy helpers below are the harness's own mechanics (TFEL storage
(xx,yy,zz,sqrt2 xy,sqrt2 xz,sqrt2 yz), docs/web/tensors.md): they never call
TFEL.
"""
import math

import numpy as np

HYPS_ALL = ["Tridimensional", "Axisymmetrical", "PlaneStrain", "GeneralisedPlaneStrain", "PlaneStress",
            "AxisymmetricalGeneralisedPlaneStrain", "AxisymmetricalGeneralisedPlaneStress"]
HYPS_NOPS = ["Tridimensional", "Axisymmetrical", "PlaneStrain", "GeneralisedPlaneStrain",
             "AxisymmetricalGeneralisedPlaneStrain"]
SSIZE = {"Tridimensional": 6, "Axisymmetrical": 4, "PlaneStrain": 4, "GeneralisedPlaneStrain": 4, "PlaneStress": 4,
         "AxisymmetricalGeneralisedPlaneStrain": 3, "AxisymmetricalGeneralisedPlaneStress": 3}
# index of the component driven by the plane stress condition
PS_AXIS = {"PlaneStress": 2, "AxisymmetricalGeneralisedPlaneStress": 1}

IMPLICIT_ALGOS = ["NewtonRaphson", "NewtonRaphson_NumericalJacobian", "Broyden", "Broyden2",
                  "PowellDogLeg_NewtonRaphson", "PowellDogLeg_NewtonRaphson_NumericalJacobian",
                  "PowellDogLeg_Broyden", "LevenbergMarquardt", "LevenbergMarquardt_NumericalJacobian"]
# algorithms for which the source must provide the analytical jacobian
ANALYTICAL = {"NewtonRaphson", "PowellDogLeg_NewtonRaphson", "LevenbergMarquardt"}
# algorithms that start from a jacobian estimate given by @InitJacobian
BROYDEN = {"Broyden", "PowellDogLeg_Broyden"}
RK_ALGOS = ["euler", "rk2", "rk4", "rk42", "rk54", "rkCastem"]
RK_ADAPTIVE = {"rk42", "rk54", "rkCastem"}

MP_KEY = {"YoungModulus": "young", "PoissonRatio": "nu", "NortonCoefficient": "A", "NortonExponent": "m",
          "HardeningSlope": "H", "InitialYieldStress": "s0"}
DECL = {"young": ("stress", "young", 'young.setGlossaryName("YoungModulus");'),
        "nu": ("real", "nu", 'nu.setGlossaryName("PoissonRatio");'),
        "A": ("real", "A", 'A.setEntryName("NortonCoefficient");'),
        "m": ("real", "m", 'm.setEntryName("NortonExponent");'),
        "H": ("stress", "H", 'H.setEntryName("HardeningSlope");'),
        "s0": ("stress", "s0", 's0.setEntryName("InitialYieldStress");')}


# ------------------------------------------------------------------ mechanics
def lame(young, nu):
    return nu * young / ((1 + nu) * (1 - 2 * nu)), young / (2 * (1 + nu))


def trace(v):
    return v[0] + v[1] + v[2]


def dev(v):
    d = np.array(v, dtype=np.float64)
    d[:3] -= trace(v) / 3
    return d


def seq_of(s):
    d = dev(s)
    return math.sqrt(1.5 * float(np.dot(d, d)))


def hooke(lam, mu, e):
    s = 2 * mu * np.asarray(e, dtype=np.float64)
    s[:3] += lam * trace(e)
    return s


def compliance(young, nu, s):
    e = (1 + nu) / young * np.asarray(s, dtype=np.float64)
    e[:3] -= nu / young * trace(s)
    return e


def stiffness(lam, mu, n):
    D = 2 * mu * np.eye(n)
    D[:3, :3] += lam
    return D


def plane_stress_stiffness(young, nu, n, axis):
    """stiffness condensed on sigma[axis]=0 (the `altered' stiffness of TFEL), row/column `axis` zero"""
    lam, mu = lame(young, nu)
    D = stiffness(lam, mu, n)
    K = D - np.outer(D[:, axis], D[axis, :]) / D[axis, axis]
    K[axis, :] = 0
    K[:, axis] = 0
    return K


# ------------------------------------------------------------------ templates
def _decl(p, keys):
    """declarations of the constants `keys` (material property or baked parameter)"""
    L = []
    for k in keys:
        t, n, g = DECL[k]
        if k in p.get("baked", {}):
            L.append("@Parameter %s %s = %r;\n%s" % (t, n, p["baked"][k], g))
        else:
            L.append("@MaterialProperty %s %s;\n%s" % (t, n, g))
    return "\n".join(L)


def _head(p, dsl):
    L = ["@DSL %s;" % dsl, "@Behaviour %s;" % p["name"], "@Author verif;",
         "@ModellingHypotheses {%s};" % ", ".join(p["hyps"])]
    return "\n".join(L)


LAME_LOCALS = """@LocalVariable stress lambda;
@LocalVariable stress mu;
@InitLocalVariables{
  lambda = computeLambda(young,nu);
  mu = computeMu(young,nu);
}"""

PS_DECL = {"PlaneStress": """@StateVariable<PlaneStress> real etozz;
PlaneStress::etozz.setGlossaryName("AxialStrain");""",
           "AxisymmetricalGeneralisedPlaneStress": """@StateVariable<AxisymmetricalGeneralisedPlaneStress> real etozz;
AxisymmetricalGeneralisedPlaneStress::etozz.setGlossaryName("AxialStrain");
@ExternalStateVariable<AxisymmetricalGeneralisedPlaneStress> stress sigzz;
AxisymmetricalGeneralisedPlaneStress::sigzz.setGlossaryName("AxialStress");"""}


def _ps_blocks(analytical, hyps):
    """explicit plane stress support of a non-brick Implicit behaviour (as tests/behaviours/ImplicitNorton.mfront)"""
    out = []
    for hyp, ax, others, rhs in (("PlaneStress", 2, (0, 1), "szz"),
                                 ("AxisymmetricalGeneralisedPlaneStress", 1, (0, 2), "szz-sigzz-dsigzz")):
        jac = ""
        if hyp not in hyps:
            continue
        if analytical:
            jac = ("  dfeel_ddetozz(%d)=-1;\n  dfetozz_ddetozz  = real(0);\n  dfetozz_ddeel(%d) = (lambda+2*mu)/young;\n"
                   "  dfetozz_ddeel(%d) = lambda/young;\n  dfetozz_ddeel(%d) = lambda/young;\n" % (ax, ax, others[0], others[1]))
        out.append("@Integrator<%s,Append,AtEnd>{\n"
                   "  const stress szz = (lambda+2*mu)*(eel(%d)+deel(%d))+lambda*(eel(%d)+deel(%d)+eel(%d)+deel(%d));\n"
                   "  fetozz   = (%s)/young;\n  feel(%d) -= detozz;\n%s}" % (
                       hyp, ax, ax, others[0], others[0], others[1], others[1], rhs, ax, jac))
    return "\n".join(out)


def _implicit_options(p):
    L = ["@Algorithm %s;" % p["algo"], "@Theta %r;" % p["theta"], "@Epsilon %r;" % p["eps"], "@IterMax 200;"]
    if p["algo"].endswith("NumericalJacobian"):
        L.append("@PerturbationValueForNumericalJacobianComputation 1.e-8;")
    return "\n".join(L)


JE_TANGENT = """@TangentOperator{
  if((smt==ELASTIC)||(smt==SECANTOPERATOR)||(smt==TANGENTOPERATOR)){
    computeAlteredElasticStiffness<hypothesis,Type>::exe(Dt,lambda,mu);
  } else if (smt==CONSISTENTTANGENTOPERATOR){
    StiffnessTensor Hooke;
    Stensor4 Je;
    computeElasticStiffness<N,Type>::exe(Hooke,lambda,mu);
    getPartialJacobianInvert(Je);
    Dt = Hooke*Je;
  } else {
    return false;
  }
}"""


def render_hooke_default(p):
    ps = [h for h in p["hyps"] if h in PS_AXIS]
    L = [_head(p, "DefaultDSL"), "@ProvidesSymmetricTangentOperator;", _decl(p, ["young", "nu"])]
    if "AxisymmetricalGeneralisedPlaneStress" in ps:
        L.append("@ExternalStateVariable<AxisymmetricalGeneralisedPlaneStress> stress sigzz;\n"
                 'AxisymmetricalGeneralisedPlaneStress::sigzz.setGlossaryName("AxialStress");')
    L.append(LAME_LOCALS)
    L.append("@PredictionOperator{\n  static_cast<void>(smt);\n"
             "  computeAlteredElasticStiffness<hypothesis,real>::exe(Dt,lambda,mu);\n}")
    if p.get("form", 0) == 0:
        L.append("@Integrator{\n  sig = lambda*trace(eto+deto)*StrainStensor::Id()+2*mu*(eto+deto);\n"
                 "  if(computeTangentOperator_){\n    Dt = lambda*Stensor4::IxI()+2*mu*Stensor4::Id();\n  }\n}")
    else:
        L.append("@Integrator{\n  const auto e = eval(eto+deto);\n  sig = 2*mu*e;\n  sig += lambda*trace(e)*StrainStensor::Id();\n"
                 "  if(computeTangentOperator_){\n    computeElasticStiffness<N,real>::exe(Dt,lambda,mu);\n  }\n}")
    if "PlaneStress" in ps:
        L.append("@Integrator<PlaneStress,Replace>{\n  static_cast<void>(computeTangentOperator_);\n"
                 "  computeAlteredElasticStiffness<hypothesis,real>::exe(Dt,lambda,mu);\n  sig = Dt*(eto+deto);\n}")
    if "AxisymmetricalGeneralisedPlaneStress" in ps:
        L.append("@Integrator<AxisymmetricalGeneralisedPlaneStress,Replace>{\n  static_cast<void>(computeTangentOperator_);\n"
                 "  computeAlteredElasticStiffness<hypothesis,real>::exe(Dt,lambda,mu);\n  sig = Dt*(eto+deto);\n"
                 "  sig(1)=this->sigzz+this->dsigzz;\n}")
    return "\n".join(L) + "\n"


def _brick_constants(p):
    """elastic constants for the StandardElasticity brick"""
    if p.get("emp"):
        return "@ElasticMaterialProperties {%r,%r};" % (p["baked"]["young"], p["baked"]["nu"])
    return _decl(p, ["young", "nu"])


def render_hooke_brick(p):
    L = [_head(p, "Implicit"), _implicit_options(p), '@Brick "StandardElasticity";', _brick_constants(p)]
    if p["algo"] in BROYDEN:
        L.append("@InitJacobian{\n  computeNumericalJacobian(this->jacobian);\n}")
    return "\n".join(L) + "\n"


NORTON_CORE = """  seq = sigmaeq(sig);
  const auto tmp = A*pow(seq,m-1);
  df_dseq = m*tmp;
  const auto iseq = 1/(max(seq,real(1.e-12)*young));
  n = 3*deviator(sig)*(iseq/2);
  feel += dp*n%s;
  fp   -= tmp*seq*dt;
"""
NORTON_JAC = """  dfeel_ddeel += 2.*mu*theta*dp*iseq*(Stensor4::M()-(n^n));
  dfeel_ddp    = n;
  dfp_ddeel    = -2*mu*theta*df_dseq*dt*n;
"""
FLOW_LOCALS = "@LocalVariable real seq;\n@LocalVariable real df_dseq;\n@LocalVariable Stensor n;"


def render_implicit_norton(p):
    brick = p["brick"]
    analytical = p["algo"] in ANALYTICAL
    L = [_head(p, "Implicit"), _implicit_options(p)]
    if brick:
        L.append('@Brick "StandardElasticity";')
        L.append(_brick_constants(p))
        L.append(_decl(p, ["A", "m"]))
        L.append(FLOW_LOCALS)
        L.append("@StateVariable real p;\np.setGlossaryName(\"EquivalentViscoplasticStrain\");")
        if not p.get("emp"):  # with @ElasticMaterialProperties the DSL declares young, nu, lambda, mu itself
            L.append("@LocalVariable stress mu;\n@InitLocalVariables{\n  mu = computeMu(young,nu);\n}")
    else:
        L.append(_decl(p, ["young", "nu", "A", "m"]))
        L.append(FLOW_LOCALS)
        L.append("@StateVariable real p;\np.setGlossaryName(\"EquivalentViscoplasticStrain\");")
        L += [PS_DECL[h] for h in p["hyps"] if h in PS_AXIS]
        L.append(LAME_LOCALS)
        L.append("@ComputeStress{\n  sig = lambda*trace(eel)*Stensor::Id()+2*mu*eel;\n}")
    if p["algo"] in BROYDEN:
        L.append("@InitJacobian{\n  computeNumericalJacobian(this->jacobian);\n}")
    body = NORTON_CORE % ("" if brick else "-deto")
    if analytical:
        body += NORTON_JAC
    L.append("@Integrator{\n" + body + "}")
    if not brick:
        if any(h in PS_AXIS for h in p["hyps"]):
            L.append(_ps_blocks(analytical, p["hyps"]))
        if p["algo"] == "Broyden2":
            pass  # the second Broyden method holds no jacobian: no consistent tangent operator
        elif p["algo"] in BROYDEN:
            # quasi-Newton solvers do not hold the jacobian of the last iterate
            L.append(JE_TANGENT.replace("@TangentOperator{", "@TangentOperator{\n  computeNumericalJacobian(this->jacobian);"))
        else:
            L.append("@IsTangentOperatorSymmetric true;")
            L.append(JE_TANGENT)
    return "\n".join(L) + "\n"


def render_rk_norton(p):
    L = [_head(p, "RungeKutta"), "@Algorithm %s;" % p["algo"], "@Epsilon %r;" % p["eps"],
         _decl(p, ["young", "nu", "A", "m"]),
         "@StateVar real p;\np.setGlossaryName(\"EquivalentViscoplasticStrain\");",
         "@StateVar Stensor evp;\nevp.setGlossaryName(\"ViscoplasticStrain\");",
         LAME_LOCALS.replace("@LocalVariable", "@LocalVar").replace("@InitLocalVariables", "@InitLocalVars"),
         "@ComputeStress{\n  sig = lambda*trace(eel)*StrainStensor::Id()+2*mu*eel;\n}",
         "@Derivative{\n  const real sigeq = sigmaeq(sig);\n  if(sigeq>1.e10){\n    return false;\n  }\n"
         "  const Stensor n = (sigeq > 1.e-6) ? eval(real(1.5)*deviator(sig)/sigeq) : Stensor(real(0));\n"
         "  dp   = A*pow(sigeq,m);\n  devp = dp*n;\n  deel = deto - devp;\n}"]
    return "\n".join(L) + "\n"


def _iso_constants(p):
    if p.get("emp"):
        return "@ElasticMaterialProperties {%r,%r};" % (p["baked"]["young"], p["baked"]["nu"])
    return ""


def render_iso_creep(p):
    L = [_head(p, "IsotropicMisesCreep"), "@Theta %r;" % p["theta"], "@Epsilon %r;" % p["eps"], "@IterMax 200;",
         _iso_constants(p), _decl(p, ["A", "m"]),
         "@FlowRule{\n  const real tmp = A*pow(seq,m-1);\n  f       = tmp*seq;\n  df_dseq = m*tmp;\n}"]
    return "\n".join(x for x in L if x) + "\n"


def render_iso_plasticity(p):
    L = [_head(p, "IsotropicPlasticMisesFlow"), "@Theta %r;" % p["theta"], "@Epsilon %r;" % p["eps"], "@IterMax 200;",
         _iso_constants(p), _decl(p, ["H", "s0"]),
         "@FlowRule{\n  f = seq-H*p-s0;\n  df_dseq = 1;\n  df_dp = -H;\n}"]
    return "\n".join(x for x in L if x) + "\n"


PLAST_CORE = """  if(b){
    const auto seq = sigmaeq(sig);
    const auto iseq = 1/max(seq,real(1.e-12)*young);
    const auto n = eval(3*iseq*deviator(sig)/2);
    fp = (seq-H*(p+theta*dp)-s0)/young;
    feel += dp*n%s;
%s  }%s
"""
PLAST_JAC = """    dfp_ddeel = 2*mu*theta*n/young;
    dfp_ddp = -theta*H/young;
    dfeel_ddp = n;
    dfeel_ddeel += 2*mu*theta*dp*iseq*(Stensor4::M()-(n^n));
"""


def render_implicit_plasticity(p):
    brick = p["brick"]
    analytical = p["algo"] in ANALYTICAL
    L = [_head(p, "Implicit"), _implicit_options(p)]
    if brick:
        L.append('@Brick "StandardElasticity";')
        L.append(_brick_constants(p))
        L.append(_decl(p, ["H", "s0"]))
        L.append("@StateVariable strain p;\np.setGlossaryName(\"EquivalentPlasticStrain\");")
        emp = p.get("emp")
        L.append("@LocalVariable bool b;" + ("" if emp else "\n@LocalVariable stress mu;"))
        L.append("@InitLocalVariables{\n" + ("" if emp else "  mu = computeMu(young,nu);\n") +
                 "  const auto sig_el = computeElasticPrediction();\n  b = sigmaeq(sig_el) > s0+H*p;\n}")
    else:
        L.append(_decl(p, ["young", "nu", "H", "s0"]))
        L.append("@StateVariable strain p;\np.setGlossaryName(\"EquivalentPlasticStrain\");")
        L.append("@LocalVariable bool b;\n@LocalVariable stress lambda;\n@LocalVariable stress mu;")
        L.append("@InitLocalVariables{\n  lambda = computeLambda(young,nu);\n  mu = computeMu(young,nu);\n"
                 "  const auto e_el = eval(eel+theta*deto);\n"
                 "  const StressStensor sig_el = lambda*trace(e_el)*Stensor::Id()+2*mu*e_el;\n"
                 "  b = sigmaeq(sig_el) > s0+H*p;\n}")
        L.append("@ComputeStress{\n  sig = lambda*trace(eel)*Stensor::Id()+2*mu*eel;\n}")
    if p.get("predictor"):
        L.append("@Predictor{\n  deel = deto;\n}")
    if p["algo"] in BROYDEN:
        L.append("@InitJacobian{\n  computeNumericalJacobian(this->jacobian);\n}")
    if brick:
        body = PLAST_CORE % ("", PLAST_JAC if analytical else "", "")
    else:
        body = PLAST_CORE % ("", PLAST_JAC if analytical else "", "\n  feel -= deto;")
    L.append("@Integrator{\n" + body + "}")
    if not brick:
        if p["algo"] == "Broyden2":
            pass
        elif p["algo"] in BROYDEN:
            L.append(JE_TANGENT.replace("@TangentOperator{", "@TangentOperator{\n  computeNumericalJacobian(this->jacobian);"))
        else:
            L.append("@IsTangentOperatorSymmetric true;")
            L.append(JE_TANGENT)
    return "\n".join(L) + "\n"


RENDER = {"hooke_default": render_hooke_default, "hooke_brick": render_hooke_brick,
          "implicit_norton": render_implicit_norton, "rk_norton": render_rk_norton, "iso_creep": render_iso_creep,
          "implicit_plasticity": render_implicit_plasticity, "iso_plasticity": render_iso_plasticity}
KINDS = list(RENDER)
CREEP_KINDS = ("implicit_norton", "rk_norton", "iso_creep")
PLASTIC_KINDS = ("implicit_plasticity", "iso_plasticity")
ELASTIC_KINDS = ("hooke_default", "hooke_brick")


def supported_hyps(kind, brick):
    if kind in ("hooke_default", "hooke_brick"):
        return HYPS_ALL
    if kind == "implicit_norton":
        return HYPS_ALL
    if kind == "implicit_plasticity":
        return HYPS_ALL if brick else HYPS_NOPS
    return HYPS_NOPS


def random_description(rng, kind, idx, tangent_only=False, force_algo=None):
    """one program description; `rng` is a random.Random (sampling of a finite option space + constants);
    `force_algo` overrides the drawn @Algorithm of the Implicit kinds (the draws themselves are unchanged)"""
    p = {"kind": kind, "name": "V%s%d" % ("".join(w[0].upper() + w[1:3] for w in kind.split("_")), idx)}
    brick = rng.random() < 0.5
    algo = "NewtonRaphson"
    if kind in ("hooke_brick", "implicit_norton", "implicit_plasticity"):
        algos = IMPLICIT_ALGOS
        if tangent_only:
            # C42 differentiates the returned operator: keep the solvers that carry an exact or numerical jacobian
            algos = ["NewtonRaphson", "NewtonRaphson_NumericalJacobian", "PowellDogLeg_NewtonRaphson", "LevenbergMarquardt"]
        algo = algos[idx % len(algos)] if rng.random() < 0.7 else rng.choice(algos)
        if force_algo is not None:
            algo = force_algo
        p["algo"] = algo
        p["theta"] = rng.choice([1.0, 1.0, 0.5, round(rng.uniform(0.3, 1.0), 3)])
        p["eps"] = rng.choice([1e-14, 1e-13, 1e-12, 1e-11])
        if kind == "hooke_brick":
            brick = True
        p["brick"] = brick
    if kind == "rk_norton":
        p["algo"] = RK_ALGOS[idx % len(RK_ALGOS)] if rng.random() < 0.8 else rng.choice(RK_ALGOS)
        p["eps"] = rng.choice([1e-8, 1e-9, 1e-10, 1e-7])
    if kind in ("iso_creep", "iso_plasticity"):
        p["theta"] = rng.choice([1.0, 0.5, round(rng.uniform(0.3, 1.0), 3)]) if kind == "iso_creep" else \
            rng.choice([1.0, 1.0, 0.5, round(rng.uniform(0.3, 1.0), 3)])
        p["eps"] = rng.choice([1e-10, 1e-12, 1e-14, 1e-9])
    if kind == "hooke_default":
        p["form"] = rng.randrange(2)
    if kind == "implicit_plasticity":
        p["predictor"] = rng.random() < 0.5
    hyps = supported_hyps(kind, p.get("brick", False))
    k = 2 if rng.random() < 0.6 else 1
    # rotate through the hypotheses so that a handful of programs covers them all
    first = hyps[(idx + 2 * KINDS.index(kind)) % len(hyps)]
    sel = [first] + rng.sample([h for h in hyps if h != first], k - 1)
    p["hyps"] = sorted(sel, key=hyps.index)
    # constants: baked in the source or material properties
    baked = {}
    mode = rng.choice(["mp", "mp", "baked_el", "baked_all"])
    if kind in ("iso_creep", "iso_plasticity", "hooke_brick") or (p.get("brick") and kind != "hooke_default"):
        p["emp"] = mode != "mp" and rng.random() < 0.5
    if mode != "mp" or p.get("emp"):
        baked["young"] = float("%.6g" % math.exp(rng.uniform(math.log(5e10), math.log(3e11))))
        baked["nu"] = round(rng.uniform(0.1, 0.45), 4)
    if kind in ("iso_creep", "iso_plasticity") and not p.get("emp"):
        baked.pop("young", None)   # the isotropic DSLs declare young and nu as material properties themselves
        baked.pop("nu", None)
    if mode == "baked_all":
        if kind in CREEP_KINDS:
            baked["m"] = round(rng.uniform(1.0, 8.0), 3)
        if kind in PLASTIC_KINDS:
            baked["s0"] = float("%.6g" % rng.uniform(5e7, 5e8))
            baked["H"] = float("%.6g" % (rng.choice([0.0, rng.uniform(1e8, 3e10)])))
    p["baked"] = baked
    return p


def render(p):
    return RENDER[p["kind"]](p)


def make_program(p):
    q = dict(p)
    q["src"] = render(p)
    return q


# ------------------------------------------------------------------ calls
# A *call* is the JSON dict {"hyp","mat":{young,nu,...},"eel0","eto0","deto","p0","dt","T","etozz0",
# "sigzz":[value at t, increment], ...}: physical values, so that a replay file reads as a test case.
def _strategies():
    from hypothesis import strategies as st
    return st


def _unit(x):
    return {"min_value": 0.0, "max_value": 1.0, "allow_nan": False, "allow_infinity": False}


def raw_strategy(prog):
    """raw draws (all in [0,1] or [-1,1]) from which `construct` builds the physical call"""
    st = _strategies()
    u = st.floats(min_value=0.0, max_value=1.0, allow_nan=False, allow_infinity=False)
    s = st.floats(min_value=-1.0, max_value=1.0, allow_nan=False, allow_infinity=False)
    return st.fixed_dictionaries({
        "hyp": st.sampled_from(prog["hyps"]),
        "u": st.lists(u, min_size=12, max_size=12),
        "d0": st.lists(s, min_size=6, max_size=6),
        "d1": st.lists(s, min_size=6, max_size=6),
        "d2": st.lists(s, min_size=6, max_size=6),
        "plastic": st.booleans(),
    })


def _logu(u, lo, hi):
    return lo * (hi / lo) ** u


def _dir(v, n, axis=None):
    d = np.array(v[:n], dtype=np.float64)
    if axis is not None:
        d[axis] = 0.0
    return d


def _materials(prog, raw):
    b = prog.get("baked", {})
    u = raw["u"]
    mat = {"young": b.get("young", float("%.6g" % _logu(u[0], 5e10, 3e11))),
           "nu": b.get("nu", round(0.1 + 0.35 * u[1], 4))}
    return mat


def _scaled_to_seq(d, target):
    s = seq_of(d)
    if s < 1e-3:
        return None
    return d * (target / s)


def construct(prog, raw, fd_margin=False, smax=None):
    """physical call from raw draws; returns None when the draws are degenerate (rejected)"""
    kind = prog["kind"]
    if kind == "repo":
        kind = {"creep": "implicit_norton", "plastic": "implicit_plasticity" if prog.get("implicit") else "iso_plasticity"}[prog["family"]]
    h = raw["hyp"]
    n = SSIZE[h]
    axis = PS_AXIS.get(h)
    u = raw["u"]
    mat = _materials(prog, raw)
    young, nu = mat["young"], mat["nu"]
    lam, mu = lame(young, nu)
    b = prog.get("baked", {})
    theta = prog.get("theta", 1.0)
    call = {"hyp": h, "mat": mat, "T": 293.15, "dt": float("%.6g" % _logu(u[2], 1e-2, 1e6)), "p0": 0.0,
            "etozz0": 0.0, "sigzz": [0.0, 0.0]}
    if h == "AxisymmetricalGeneralisedPlaneStress":
        call["sigzz"] = [round(2e8 * (2 * u[10] - 1), 0), round(5e7 * (2 * u[11] - 1), 0)]
    if kind in ELASTIC_KINDS:
        e0 = 2e-3 * _dir(raw["d0"], n)
        call["eel0"] = e0.tolist()
        call["eto0"] = (2e-3 * _dir(raw["d2"], n, axis)).tolist()
        call["deto"] = (5e-3 * u[3] * _dir(raw["d1"], n, axis)).tolist()
        call["etozz0"] = 1e-3 * (2 * u[4] - 1)
        return call
    # ---- initial stress
    press = 2e8 * (2 * u[3] - 1)
    if kind in CREEP_KINDS:
        m = b.get("m", round(1 + 7 * u[4], 3))
        mat["m"] = m
        seq0 = 3e8 * u[5]
        call["p0"] = round(0.1 * u[6], 6)
    else:
        H = b.get("H", 0.0 if u[4] < 0.15 else float("%.6g" % _logu((u[4] - 0.15) / 0.85, 1e8, 5e10)))
        s0y = b.get("s0", float("%.6g" % (5e7 + 4.5e8 * u[7])))
        mat["H"], mat["s0"] = H, s0y
        call["p0"] = round(0.05 * u[6], 6)
        R0 = s0y + H * call["p0"]
        seq0 = R0 * u[5]
    d0 = _dir(raw["d0"], n, axis)
    sd = _scaled_to_seq(dev(d0) if axis is None else d0, seq0)
    if sd is None:
        return None
    sig0 = sd.copy()
    if axis is None:
        sig0[:3] += press
    else:
        sig0[axis] = call["sigzz"][0]
    eel0 = compliance(young, nu, sig0)
    call["eel0"] = eel0.tolist()
    d2 = _dir(raw["d2"], n, axis)
    call["eto0"] = (eel0 + call["p0"] * dev(d2) if axis is None else eel0 + call["p0"] * d2).tolist()
    if axis is not None:
        call["eto0"][axis] = 0.0
        call["etozz0"] = float(eel0[axis])
    if kind in CREEP_KINDS:
        d1 = _dir(raw["d1"], n, axis)
        nd = float(np.linalg.norm(d1))
        if nd < 1e-3:
            return None
        deto = (3e-3 * u[8] / nd) * d1
        call["deto"] = deto.tolist()
        sig_tr = hooke(lam, mu, eel0 + deto)
        s_ref = max(seq_of(sig0), seq_of(sig_tr), 1e6)
        dpmax = _logu(u[9], 1e-7, 2e-2)
        if smax is not None:
            dpmax = min(dpmax, smax * s_ref / (3 * mu * m))
        # dp = dt*A*seq^m <= dt*A*s_ref^m = dpmax (the flow relaxes the stress)
        if "A" in b:
            mat["A"] = b["A"]   # constant of a repository behaviour: the time increment sets the amount of flow
            call["dt"] = float("%.6g" % min(max(dpmax / (b["A"] * s_ref ** m), 1e-8), 1e14))
        else:
            mat["A"] = float("%.6g" % (dpmax / (call["dt"] * s_ref ** m)))
        call["s_ref"] = s_ref
        call["stiffness_number"] = 3 * mu * m * dpmax / s_ref
        call["evp0"] = [0.0] * n
        return call
    # ---- plasticity: the elastic prediction at theta has seq = kappa*R0
    plastic = bool(raw["plastic"])
    kappa = (1.03 + 2 * theta * u[8]) if plastic else 0.97 * u[8]
    d1 = _dir(raw["d1"], n, axis)
    if kind == "implicit_plasticity":
        # The system of this template (normal evaluated at the unknown stress, zero initial guess) has a second,
        # non physical root (dp < 0) that Newton finds when the elastic prediction lies on the other side of the
        # elastic domain: a limitation of the behaviour as written, not of the generated solver.  Unless the
        # program starts from the elastic prediction (@Predictor{deel = deto;}), keep the deviators of the
        # initial and of the predicted stress within ~70 degrees.
        a, c = dev(d0), dev(d1)
        na, nc = float(np.linalg.norm(a)), float(np.linalg.norm(c))
        if na < 1e-3 or nc < 1e-3:
            return None
        cos = float(np.dot(a, c)) / (na * nc)
        if cos < 0 and not prog.get("predictor"):
            d1 = d1 - 2 * (float(np.dot(a, c)) / (na * na)) * a
            if axis is not None:
                d1[axis] = 0.0
            c = dev(d1)
            cos = float(np.dot(a, c)) / (na * max(float(np.linalg.norm(c)), 1e-300))
        if cos < 0.35 and not prog.get("predictor"):
            d1 = c / max(float(np.linalg.norm(c)), 1e-300) + 0.6 * a / na
            if axis is not None:
                d1[axis] = 0.0
            c = dev(d1)
            if float(np.dot(a, c)) / (na * max(float(np.linalg.norm(c)), 1e-300)) < 0.3:
                return None
    st_ = _scaled_to_seq(dev(d1) if axis is None else d1, kappa * R0)
    if st_ is None:
        return None
    sigT = st_.copy()
    if axis is None:
        sigT[:3] += 2e8 * (2 * u[9] - 1)
    else:
        sigT[axis] = sig0[axis]
        # seq changed by the axial component: rescale the in-plane part so that seq(sigT) = kappa*R0
        for _ in range(60):
            s = seq_of(sigT)
            if s < 1e-3:
                return None
            f = kappa * R0 / s
            if abs(f - 1) < 1e-13:
                break
            keep = sigT[axis]
            sigT = sigT * f
            sigT[axis] = keep
        if abs(seq_of(sigT) - kappa * R0) > 1e-6 * R0:
            return None   # the axial stress alone exceeds the target
    if kind == "implicit_plasticity" and not prog.get("predictor"):
        # same restriction on the actual tensors (the imposed axial stress enters both deviators)
        a, c = dev(sig0), dev(sigT)
        na, nc = float(np.linalg.norm(a)), float(np.linalg.norm(c))
        if na > 0.02 * R0 and float(np.dot(a, c)) < 0.3 * na * nc:
            return None
    deto = compliance(young, nu, sigT - sig0) / theta
    if axis is not None:
        deto[axis] = 0.0
        if h == "AxisymmetricalGeneralisedPlaneStress":
            call["sigzz"][1] = 0.0
    call["deto"] = deto.tolist()
    call["plastic"] = plastic
    call["kappa"] = kappa
    return call


def call_strategy(prog, smax=None):
    return raw_strategy(prog).map(lambda raw: construct(prog, raw, smax=smax))


# ------------------------------------------------------------------ calling the library
IV_KEY = {"ElasticStrain": "eel0", "EquivalentViscoplasticStrain": "p0", "EquivalentPlasticStrain": "p0", "p": "p0",
          "AxialStrain": "etozz0", "ViscoplasticStrain": "evp0"}


def esv_names(lib, h):
    names = list(lib.meta[h]["ExternalStateVariables"]["names"])
    if lib._ushort(h, "TemperatureRemovedFromExternalStateVariables", 0) == 1 and "Temperature" not in names:
        names = ["Temperature"] + names
    return names


def perform(gb, lib, call, k0, deto=None, sig0=None):
    """one call of the generated behaviour; returns a dict with everything the callee wrote"""
    h = call["hyp"]
    n = SSIZE[h]
    b = gb.Buffers(lib, h)
    m = lib.meta[h]
    mat = call["mat"]
    lam, mu = lame(mat["young"], mat["nu"])
    deto = np.asarray(call["deto"] if deto is None else deto, dtype=np.float64)
    eto0 = np.asarray(call["eto0"], dtype=np.float64)
    b.g0[:n] = eto0
    b.g1[:n] = eto0 + deto
    s0 = hooke(lam, mu, np.asarray(call["eel0"])) if sig0 is None else np.asarray(sig0)
    b.tf0[:n] = s0
    b.tf1[:n] = s0
    for i, name in enumerate(m["MaterialProperties"]["names"]):
        b.mp[i] = mat[MP_KEY.get(name, name)]
    off = lib.offsets(h, "InternalStateVariables")
    for name, (o, s) in off.items():
        v = call.get(IV_KEY.get(name, name), 0.0)
        b.iv0[o:o + s] = v
    b.iv1[:] = b.iv0
    names = esv_names(lib, h)
    ev0, ev1 = np.zeros(max(1, len(names))), np.zeros(max(1, len(names)))
    for i, name in enumerate(names):
        if name == "Temperature":
            ev0[i] = ev1[i] = call.get("T", 293.15)
        elif name == "AxialStress":
            ev0[i] = call["sigzz"][0]
            ev1[i] = call["sigzz"][0] + call["sigzz"][1]
    b.ev0, b.ev1 = ev0, ev1
    b.d.s0.external_state_variables = gb.dptr(ev0)
    b.d.s1.external_state_variables = gb.dptr(ev1)
    b.K[0] = float(k0)
    b.rdt[0] = 1.0
    rc = gb.call(lib, h, b, dt=call["dt"])
    out = {"rc": rc, "sig": b.tf1[:n].copy(), "rdt": float(b.rdt[0]), "msg": b.message(),
           "K": b.K[:n * n].copy().reshape(n, n), "iv": {}}
    for name, (o, s) in off.items():
        out["iv"][name] = b.iv1[o:o + s].copy()
    return out


def get_p(out):
    for k in ("EquivalentViscoplasticStrain", "EquivalentPlasticStrain", "p"):
        if k in out["iv"]:
            return float(out["iv"][k][0])
    return None


# ------------------------------------------------------------------ repository behaviours (C42)
import os
import re

REPO_BEHAVIOURS = [
    {"file": "mfront/tests/behaviours/ImplicitNorton.mfront", "name": "ImplicitNorton", "family": "creep", "implicit": True,
     "hyps": HYPS_ALL, "needs": ["PlaneStress", "AxisymmetricalGeneralisedPlaneStress"],
     "baked": {"A": 8.e-67, "m": 8.2}, "theta": 0.5, "eps": 1e-16},
    {"file": "mfront/tests/behaviours/ImplicitNorton_LevenbergMarquardt.mfront", "name": "ImplicitNorton_LevenbergMarquardt",
     "family": "creep", "implicit": True, "hyps": HYPS_ALL, "needs": ["PlaneStress", "AxisymmetricalGeneralisedPlaneStress"],
     "baked": {"A": 8.e-67, "m": 8.2}, "theta": 0.5, "eps": 1e-11},
    {"file": "mfront/tests/behaviours/Norton.mfront", "name": "Norton", "family": "creep", "hyps": HYPS_NOPS, "baked": {},
     "theta": 0.5, "eps": 1e-8},
    {"file": "mfront/tests/behaviours/Plasticity.mfront", "name": "Plasticity", "family": "plastic", "hyps": HYPS_NOPS,
     "baked": {}, "theta": 1.0, "eps": 1e-8},
    {"file": "mfront/tests/behaviours/StandardElasticity/IsotropicJ2Plasticity.mfront", "name": "IsotropicJ2Plasticity",
     "family": "plastic", "implicit": True, "hyps": HYPS_ALL,
     "baked": {"young": 150e9, "nu": 0.3, "H": 102e9, "s0": 102e6}, "theta": 1.0, "eps": 1e-14},
    {"file": "mfront/tests/behaviours/StandardElastoViscoPlasticity/NortonTest.mfront", "name": "NortonTest", "family": "creep",
     "implicit": True, "hyps": HYPS_ALL, "baked": {"young": 150e9, "nu": 0.3, "A": 100e6 ** -3.2, "m": 3.2}, "theta": 1.0,
     "eps": 1e-16},
    {"file": "mfront/tests/behaviours/StandardElastoViscoPlasticity/PlasticityTest.mfront", "name": "PlasticityTest",
     "family": "plastic", "implicit": True, "hyps": HYPS_ALL,
     "baked": {"young": 150e9, "nu": 0.3, "H": 0.0, "s0": 33e6}, "theta": 1.0, "eps": 1e-16},
]


def repo_program(repo, entry, hyps):
    """a repository behaviour, unchanged but for the list of modelling hypotheses (compile time)"""
    path = os.path.join(repo, entry["file"])
    if not os.path.exists(path):   # header-only scratch copies used for sensitivity runs have no tests directory
        path = os.path.join("/repo", entry["file"])
    src = open(path).read()
    sel = "@ModellingHypotheses {%s};" % ", ".join(hyps)
    if re.search(r"@ModellingHypotheses\s*\{[^}]*\}\s*;", src):
        src = re.sub(r"@ModellingHypotheses\s*\{[^}]*\}\s*;", sel, src, count=1)
    else:
        src = re.sub(r"(@Behaviour\s+\w+\s*;)", r"\1\n" + sel, src, count=1)
    p = {k: v for k, v in entry.items() if k != "file"}
    p.update({"kind": "repo", "hyps": list(hyps), "src": src, "origin": entry["file"]})
    return p


# ------------------------------------------------------------------ build (with a mutation hook for sensitivity runs)
def build(gb, prog):
    """gb.build(prog), or - when VERIF_GEN_MUTATION='[["regex","replacement"],...]' is set - the same steps with the
    generated C++ patched between mfront and g++ (emulates a mutated code generator of mfront/src without rebuilding
    mfront; used only for the kill matrix of mutants/C41.md, C42.md)."""
    mut = os.environ.get("VERIF_GEN_MUTATION")
    if not mut:
        return gb.build(prog)
    import glob
    import hashlib
    import json
    import verifpy
    rules = json.loads(mut)
    key = hashlib.sha1((prog["name"] + "\0" + prog["src"] + "\0" + mut).encode()).hexdigest()[:16]
    cache = build.__dict__.setdefault("cache", {})
    if key in cache:
        return cache[key], ""
    # same directory as gb.build: the generated sources embed their path, so programs that the mutation does not
    # touch hit the compilation cache of the unmutated run
    wd = os.path.join(verifpy.WORK, "prog", prog["name"] + "_" +
                      hashlib.sha1((prog["name"] + "\0" + prog["src"]).encode()).hexdigest()[:16])
    os.makedirs(wd, exist_ok=True)
    src = os.path.join(wd, prog["name"] + ".mfront")
    with open(src, "w") as f:
        f.write(prog["src"])
    rc, so, se = verifpy.mfront_generate(src, wd)
    if rc != 0:
        return None, "mfront failed: " + (so + se)[-1500:]
    nsub = 0
    for path in glob.glob(os.path.join(wd, "include", "TFEL", "Material", "*.hxx")) + glob.glob(os.path.join(wd, "src", "*.cxx")):
        txt = open(path).read()
        new = txt
        for pat, rep in rules:
            new, k = re.subn(pat, rep, new)
            nsub += k
        if new != txt:
            open(path, "w").write(new)
    build.__dict__["substitutions"] = build.__dict__.get("substitutions", 0) + nsub
    path, err = verifpy.compile_generated(wd, prog["name"] + "_" + key)
    if path is None:
        return None, "g++ failed: " + err
    lib = gb.Library(path, prog["name"], prog["hyps"])
    cache[key] = lib
    return lib, ""
