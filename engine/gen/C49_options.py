#!/usr/bin/env python3-vt
"""C49 - MTest results do not depend on solver options (metamorphic).

A generated well-posed problem (mtest_gen.st_problem: unique solution, hardening moduli >= 5 GPa) is run at a
reference option point (no acceleration, ConsistentTangentOperator, NoPrediction, ToNearest, no sub-stepping) and
at 5 option points drawn from
  @AccelerationAlgorithm in {none, the 13 names of AccelerationAlgorithmFactory.cxx} with random valid parameters
  x @PredictionPolicy x @StiffnessMatrixType x --rounding-direction-mode
  x sub-stepping in {none, injected integration failures (fault script), @DynamicTimeStepScaling+@MaximalTimeStep,
    small @MaximumNumberOfIterations}
with the default convergence criteria (@StrainEpsilon 1e-12, @StressEpsilon 1e-3 Pa).

Oracle: every option point that completes agrees with the reference on every column of every output row within
  stress-like columns : C (E eeps + seps) n_steps
  strain-like columns : the same / Hmin  (Hmin = smallest tangent modulus of the behaviour)
  energies            : stress band x max|strain| + strain band x max|stress|
An option point that does not converge is not a violation (counted).

Sub-stepping changes the time discretisation: it is only applied where the implicit time integration is exact
whatever the steps, i.e. elastic behaviours (any path) and rate-independent J2 plasticity with linear hardening
under proportional loading that is monotone inside every requested step (all strain driven / all stress driven
with one common piecewise linear factor whose breakpoints are requested times, or a single loaded component):
the radial return is then exact.  Norton creep and non proportional plastic paths are compared at identical
time steps only.
"""
import math
import re
import sys

from hypothesis import strategies as st

from verifpy import Unit, Result, Reject, replay_main, param
import mtest_gen as g

U = Unit("C49_options")
EEPS, SEPS = 1e-12, 1e-3
CBAND = param("cband", 10.)

LIBS = {}


def libs():
    if not LIBS:
        LIBS.update(g.build_library())
    return LIBS


# ------------------------------------------------------------------ generators
def st_proportional_problem():
    """elastic-plastic problems whose time integration does not depend on the steps"""

    @st.composite
    def pb(draw):
        b = draw(st.sampled_from(["VPlasticity", "VKinematic", "VElasticity"]))
        h = draw(st.sampled_from(g.SUPPORTED[b]))
        mp = {k: draw(st.floats(lo, hi)) for k, (lo, hi) in g.MATERIAL_PROPERTIES[b].items()}
        T = 10 ** draw(st.floats(0., 3.))
        times = g.st_times(draw, st, T, 0., 6, 3)
        req = g.expand_times(times)
        # common factor: piecewise linear, breakpoints = a subset of the requested times, first value 0
        keep = [0] + sorted(set(draw(st.lists(st.integers(1, len(req) - 1), max_size=5)))) + [len(req) - 1]
        keep = sorted(set(keep))
        lam = [[req[i], 0. if i == 0 else draw(st.integers(-1000, 1000)) / 1000.] for i in keep]
        S, E = g.stress_scale(b, mp), g.young_modulus(b, mp)
        mode = draw(st.sampled_from(["stress", "strain", "single"]))
        # the out-of-plane condition of the plane hypotheses must not break the proportionality of the stress path:
        # plane strain (EZZ = 0) only with every in-plane strain imposed, plane stress (SZZ = 0) not strain driven
        if h == "PlaneStrain":
            mode = "strain"
        elif h == "PlaneStress" and mode == "strain":
            mode = "stress"
        comps = g.LOADABLE[h]
        loads = []

        def ev(amp):
            return {"type": "lpi", "pts": [[t, amp * v] for t, v in lam]}

        if mode == "single":
            c = draw(st.sampled_from(comps))
            k = draw(st.sampled_from(["strain", "stress"]))
            amp = (S / E) * draw(st.floats(0.5, 4.)) if k == "strain" else S * draw(st.floats(0.5, 1.6))
            loads.append({"comp": c, "kind": k, "ev": ev(amp)})
        else:
            for c in comps:
                if mode == "stress" and draw(st.integers(0, 2)) == 0:
                    continue  # free component == imposed stress 0: still proportional
                u = draw(st.integers(-1000, 1000)) / 1000.
                amp = u * ((S / E) * 4. if mode == "strain" else S * 1.2)
                loads.append({"comp": c, "kind": mode, "ev": ev(amp)})
            if not loads:
                loads.append({"comp": comps[0], "kind": mode, "ev": ev(S * 1.2 if mode == "stress" else 4 * S / E)})
        return {"behaviour": b, "hypothesis": h, "mp": mp, "loads": loads, "times": times, "proportional": True}

    return pb()


def st_option_point():
    @st.composite
    def op(draw):
        o = {}
        if draw(st.integers(0, 2)) > 0:
            a = draw(st.sampled_from(sorted(g.ACCELERATION_ALGORITHMS)))
            o["accel"] = [a, {k: draw(st.integers(lo, hi)) for k, (lo, hi) in g.ACCELERATION_ALGORITHMS[a].items()}]
        # acceleration algorithms only act when the iterations are many: bias towards the elastic stiffness then
        o["stiffness"] = draw(st.sampled_from(g.STIFFNESS_TYPES + (["Elastic", "Elastic", "SecantOperator"] if "accel" in o else [])))
        o["prediction"] = draw(st.sampled_from(g.PREDICTION_POLICIES))
        o["rounding"] = draw(st.sampled_from(g.ROUNDING_MODES))
        sub = draw(st.sampled_from(["none", "faults", "dynamic", "itermax"]))
        if sub == "faults":
            f = set()
            for _ in range(draw(st.integers(1, 3))):
                k = draw(st.integers(0, 40))
                f.add(k)
                if draw(st.booleans()):
                    f.add(k + 1)
            o["faults"] = sorted(f)
        elif sub == "dynamic":
            # @MaximalTimeStep only acts after a rejected step: one injected failure; @MinimalTimeStep is written for
            # half of the points (without it the end-of-period clamp of GenericSolver::execute is dead: known class
            # KNOWN_DYNAMIC below, same defect as C48.end_of_period_missed.dynamic_without_minimal_time_step)
            o["maxdt_fraction"] = draw(st.floats(0.15, 1.5))
            o["faults"] = [draw(st.integers(0, 30))]
            o["mindt"] = draw(st.booleans())
        elif sub == "itermax":
            o["itermax"] = draw(st.integers(3, 8))
        return o

    return op()


def case_strategy():
    return st.fixed_dictionaries({
        "pb": st.one_of(g.st_problem(st, max_periods=5, max_sub=3), st_proportional_problem()),
        "points": st.lists(st_option_point(), min_size=5, max_size=5)})


# ------------------------------------------------------------------ running
def substepping_allowed(pb):
    return g.KIND[pb["behaviour"]] == "elastic" or bool(pb.get("proportional"))


# the plasticity behaviours of the library report a failure when asked for the 'TangentOperator' (their DSL / brick
# does not provide it): that option value is replaced by 'ConsistentTangentOperator' for them
NO_TANGENT = ("VPlasticity", "VKinematic")
# a difference at an option point with @DynamicTimeStepScaling + @MaximalTimeStep, a rejected step and NO @MinimalTimeStep
KNOWN_DYNAMIC = "C49.end_of_period_missed.dynamic_without_minimal_time_step"


def point_text(pb, o, times, reference=False):
    if o is not None and o["stiffness"] == "TangentOperator" and pb["behaviour"] in NO_TANGENT:
        o = dict(o, stiffness="ConsistentTangentOperator")
    L = [["@OutputFilePrecision", "15"], ["@StrainEpsilon", g.fmt(EEPS)], ["@StressEpsilon", g.fmt(SEPS)]]
    env, args = None, []
    if reference:
        L += [["@StiffnessMatrixType", "'ConsistentTangentOperator'"], ["@PredictionPolicy", "'NoPrediction'"],
              ["@MaximumNumberOfSubSteps", "1"]]
    else:
        L += [["@StiffnessMatrixType", "'%s'" % o["stiffness"]], ["@PredictionPolicy", "'%s'" % o["prediction"]]]
        if "accel" in o:
            L.append(["@AccelerationAlgorithm", "'%s'" % o["accel"][0]])
            for k, v in o["accel"][1].items():
                L.append(["@AccelerationAlgorithmParameter", "'%s' %d" % (k, v)])
        # slowly (linearly) converging stiffness choices need room
        L.append(["@MaximumNumberOfIterations", str(o["itermax"]) if ("itermax" in o and substepping_allowed(pb)) else "400"])
        if substepping_allowed(pb) and ("faults" in o or "maxdt_fraction" in o or "itermax" in o):
            L.append(["@MaximumNumberOfSubSteps", "12"])
            if "faults" in o:
                env = {"VERIF_FAULTS": ",".join(str(k) for k in o["faults"])}
            if "maxdt_fraction" in o:
                dtmin = min(b - a for a, b in zip(times, times[1:]))
                L += [["@DynamicTimeStepScaling", "true"], ["@MaximalTimeStep", g.fmt(o["maxdt_fraction"] * dtmin)]]
                if o.get("mindt", True):
                    L.append(["@MinimalTimeStep", g.fmt(1e-9 * dtmin)])
        else:
            L.append(["@MaximumNumberOfSubSteps", "1"])
        args = ["--rounding-direction-mode=" + o["rounding"]]
    p = dict(pb)
    p["options"] = L
    return g.mtest_text(p, libs()[pb["behaviour"]]), args, env


def check_case(case):
    pb = case["pb"]
    times = g.expand_times(pb["times"])
    b, h = pb["behaviour"], pb["hypothesis"]
    jobs = [("ref",) + point_text(pb, None, times, reference=True)]
    for i, o in enumerate(case["points"]):
        jobs.append((i,) + point_text(pb, o, times))

    def runone(j):
        name, text, args, env = j
        quiet = (name != "ref") and case["points"][name]["prediction"] == "SecantOperatorPrediction"
        return g.run_mtest(text, name="c49", args=args, env_extra=env, verbose="quiet" if quiet else "level1")

    rs = g.parallel_map(runone, jobs, jobs=len(jobs))
    sample = {"reference": jobs[0][1]}
    for j, r in zip(jobs, rs):
        if r["status"] in ("crash", "timeout"):
            return Result(False, "C49.%s" % r["status"], "mtest rc=%s args=%s: %s" % (r["rc"], j[2], r["out"][-500:]),
                          sample={"mtest": j[1], "args": j[2], "env": j[3]})
    ref = rs[0]
    classes = ["behaviour." + b, "hypothesis." + h, "proportional" if pb.get("proportional") else "general"]
    if ref["status"] != "ok" or ref["res"] is None or len(ref["res"].rows) != len(times):
        return Result(True, classes=classes + ["inconclusive.reference_not_converged"])
    R = ref["res"]
    nsteps = len(times) - 1
    names = R.names
    pcols = [i for i, n in enumerate(names) if "Equivalent" in n]
    inelastic = g.KIND[b] != "elastic" and any(abs(R.rows[-1][i]) > 1e-8 for i in pcols)
    errs = {}
    nconv = 0
    triggered = False
    for (name, text, args, env), r in zip(jobs[1:], rs[1:]):
        o = case["points"][name]
        sub = substepping_allowed(pb) and ("faults" in o or "maxdt_fraction" in o or "itermax" in o)
        if r["status"] != "ok":
            w = r["what"] or ""
            if "sub stepping" in w or "minimal value" in w or w == "" or "maximum number" in w:
                classes.append("point.not_converged")
                continue
            return Result(False, "C49.harness.rejected_input", "mtest rejected a generated file: %s" % w[:300],
                          sample={"mtest": text, "args": args, "env": env})
        P = r["res"]
        if P is None or len(P.rows) != len(R.rows):
            return Result(False, "C49.rows", "option point %s: %s rows, reference %d" % (
                o, None if P is None else len(P.rows), len(R.rows)), sample={"mtest": text, "args": args, "env": env, "reference": jobs[0][1]})
        nconv += 1
        its = [int(x) for x in re.findall(r"convergence, after (\d+) iterations", r["out"])]
        if "accel" in o:
            trig = o["accel"][1].get("AccelerationTrigger", 3)
            if its and max(its) > trig:
                triggered = True
                classes.append("acceleration_triggered")
            classes.append("accel." + o["accel"][0])
        classes += ["stiffness." + o["stiffness"], "prediction." + o["prediction"], "rounding." + o["rounding"]]
        if sub:
            m = re.search(r"-number of period:\s*(\d+)", r["out"])
            if m and int(m.group(1)) > nsteps:
                classes.append("substepped")
        # the dissipated energy of the library is the time integral sum(sig_end : d eps_p) (right rectangle rule): it
        # depends on the time discretisation even where stresses and strains do not, so it is not compared when the
        # option point is sub-stepped (the stored energy sig:eel/2 is a state function and is compared)
        bad = g.compare_results(pb, R, P, nsteps, EEPS, SEPS, CBAND, errs, ".substepped" if sub else "",
                                skip=("dissipated_energy",) if sub else ())
        if bad is not None:
            shown = {kk: vv for kk, vv in o.items() if sub or kk not in ("faults", "maxdt_fraction", "itermax")}
            key = "C49.differs.%s%s" % (bad[0], ".substepping" if sub else "")
            if sub and "maxdt_fraction" in o and not o.get("mindt", True):
                key = KNOWN_DYNAMIC
            elif sub and "maxdt_fraction" not in o and g.has_short_period(times):
                # known class (findings/pending/C49.json, same defect as C48's): a rejected step inside a period
                # that is short with respect to the absolute time may make GenericSolver::execute step beyond te
                key = "C49.end_of_period_missed.short_period_substepped"
            return Result(False, key,
                          "reference against option point %s: %s" % (shown, bad[1]),
                          sample={"mtest": text, "args": args, "env": env, "reference": jobs[0][1]})
    if nconv == 0:
        classes.append("inconclusive.no_point_converged")
    if inelastic:
        classes.append("inelastic")
    return Result(True, nontrivial=bool(inelastic and triggered), classes=sorted(classes), errs=errs, sample=sample)


replay_main({"metamorphic": check_case})

if __name__ == "__main__":
    try:
        libs()
    except RuntimeError as e:
        print("C49: cannot build the behaviour library: %s" % e)
        sys.exit(2)
    g.run_hypothesis_batched(U, "metamorphic", case_strategy(), check_case, max_examples=param("cases", 36), batch=param("batch", 2))
    sys.exit(U.finish())
