#!/usr/bin/env python3-vt
"""C17 - expression templates and views behave like eager element-wise code.

Two stages: Hypothesis draws K small *programs*; they are emitted as one C++
translation unit, compiled once with clang++ ASan+UBSan against /repo/include
and run.  Each program is

    spaces    : a flat backing buffer `tvector<128,double> bk` (space 0) filled
                with sentinels, plus host objects (tmatrix / tvector owning
                their storage) for the row/column/submatrix/slice views
    operands  : owned objects or views (map<T>(ptr), map<const T>(cptr),
                map<T,offset>(tvector), map_strided, coalesced map(std::array of
                pointers), ViewsArray elements map<K,T,offset,stride>(tvector) /
                map_array, row_view, column_view, submatrix_view, slice), each
                with the list of storage cells it is *documented* to address,
                written down here independently of the TFEL headers
    statement : dest (=|+=|-=) expression tree over + - unary- scalar* *scalar
                /scalar eval(), and the products m*v, m*m, v^v, s^s, K*s, s*K,
                (a|b)*c, transpose;   or   dest (*=|/=) scalar.
                The destination may be *exactly* aliased by operands of
                element-wise trees (a = a + b, a = 2*a - a, two different views
                of the same cells); partial overlaps and aliasing through a
                product are not generated (no documentation promises them).

Oracle: naive loops on plain double arrays emitted from the AST (pristine copy
of every space read through the cell lists), then *every* cell of every space
is compared: destination cells must hold the loop's value, every other cell
its pristine value (sentinel check).  All data are small dyadic rationals and
all scalars small integers / powers of two, so every intermediate is exact and
the comparison is bit-exact whatever the evaluation order.
Non-trivial: >= 2 operators and (a view or aliasing).
"""
import hashlib
import json
import os
import sys
import time

from verifpy import (Unit, Result, REPO, BUILD, WORK, JOBS, SEED, TIER, VERIF, param, run, libdirs,
                     replay_requested, load_replay)

LBACK = 128          # cells of the backing buffer
STSIZE = {1: 3, 2: 4, 3: 6}
TSIZE = {1: 3, 2: 5, 3: 9}


# ------------------------------------------------------------------ shapes
def shape_size(sh):
    k = sh[0]
    if k in ("tvector", "vector", "runtime_array", "fsarray"):
        return sh[1]
    if k == "tmatrix":
        return sh[1] * sh[2]
    if k == "stensor":
        return STSIZE[sh[1]]
    if k == "tensor":
        return TSIZE[sh[1]]
    if k == "st2tost2":
        return STSIZE[sh[1]] ** 2
    raise ValueError(sh)


def shape_type(sh, vt="double"):
    k = sh[0]
    if k in ("tvector", "fsarray"):
        return "%s<%du,%s>" % (k, sh[1], vt)
    if k in ("vector", "runtime_array"):
        return "%s<%s>" % (k, vt)
    if k == "tmatrix":
        return "tmatrix<%du,%du,%s>" % (sh[1], sh[2], vt)
    return "%s<%du,%s>" % (k, sh[1], vt)


RUNTIME_SIZED = ("vector", "runtime_array")
FLAT_OWNED_ONLY = ("vector", "runtime_array", "fsarray")


def access(sh, name, l):
    """C++ spelling of the logical element l (row-major flat index) through operator()"""
    k = sh[0]
    if k == "tmatrix":
        return "%s(%d,%d)" % (name, l // sh[2], l % sh[2])
    if k == "st2tost2":
        s = STSIZE[sh[1]]
        return "%s(%d,%d)" % (name, l // s, l % s)
    if k in FLAT_OWNED_ONLY:
        return "%s[%d]" % (name, l)
    return "%s(%d)" % (name, l)


def val(k):
    """data value number k: the dyadic rational k/8"""
    return repr(k / 8.0)


# ------------------------------------------------------------------ program generation (Hypothesis)
def program_strategy(mode=None):
    """mode None: free program.  Quota modes (a fixed number of such programs goes into every TU):
    "colrow": a mutable whole column_view<I>() / row_view<I>() of a NON-SQUARE host tmatrix is
              written (destination) or read (non-const operand);
    "scalar_alias": the scalar operand of scalar*obj / obj*scalar / obj/scalar is an lvalue element
              of the destination (not its last component), spelled dest(i) / dest[i] / view_of_dest(i)."""
    from hypothesis import strategies as st

    @st.composite
    def prog(draw):
        # one 64-bit draw seeds a PRNG: uniform choices (Hypothesis' own integer draws are biased
        # towards small values, which starves some operand kinds); shrinking is done by
        # reduce_program(), not by Hypothesis
        import random
        rnd = random.Random(draw(st.integers(0, 2 ** 64 - 1)))
        integers = lambda a, b: rnd.randint(a, b)
        pick = lambda seq: seq[rnd.randrange(len(seq))]
        booleans = lambda: rnd.random() < 0.5
        family = pick(["tvector", "tvector", "tvector", "tmatrix", "tmatrix", "tmatrix", "stensor", "stensor", "tensor",
                       "st2tost2", "vector", "runtime_array", "fsarray"])
        if mode == "colrow":
            family = "tvector"
        elif mode == "scalar_alias":
            family = pick(["tvector", "tmatrix", "stensor", "tensor", "st2tost2"])
        if family in FLAT_OWNED_ONLY:
            shape = [family, integers(1, 8)]
        elif family == "tvector":
            shape = ["tvector", integers(1 if mode is None else 2, 6 if mode != "colrow" else 5)]
        elif family == "tmatrix":
            shape = ["tmatrix", integers(1, 4), integers(1 if mode is None else 2, 4)]
        elif family == "st2tost2":
            shape = ["st2tost2", integers(1, 2)]
        else:
            shape = [family, integers(1, 3)]
        P = {"shape": shape, "spaces": [{"shape": ["tvector", LBACK], "name": "bk"}], "operands": [],
             "cursor": integers(0, 6)}
        if mode is not None:
            P["mode"] = mode
        patches = []  # (space, cell, k): data values forced after generation

        def datum():
            return integers(-200, 200)

        def new_space(sh, vt="double"):
            P["spaces"].append({"shape": sh, "name": "h%d" % len(P["spaces"]), "vt": vt,
                                "values": [datum() for _ in range(shape_size(sh))]})
            return len(P["spaces"]) - 1

        def region(n):
            """reserve n fresh cells of the backing buffer (None when it is full)"""
            off = P["cursor"] + integers(0, 3)
            if off + n > LBACK:
                return None
            P["cursor"] = off + n
            return off

        def make_operand(sh, mutable, kinds=None, typed=False):
            """draws an operand of shape sh; returns its index.  typed: the operand may hold int or float
            values (only owned operands of element-wise trees: the promotion rules then apply, and every
            intermediate stays exact in binary32 as well)"""
            n = shape_size(sh)
            if sh[0] in FLAT_OWNED_ONLY:
                kinds = ["owned"]
            if typed and kinds is None and sh[0] in ("tvector", "tmatrix", "stensor") and integers(0, 3) == 0:
                o = {"shape": sh, "kind": "owned", "const": booleans(), "vt": pick(["int", "float"])}
                o["space"] = new_space(sh, o["vt"])
                o["cells"] = list(range(n))
                P["operands"].append(o)
                return len(P["operands"]) - 1
            ks = ["strided", "map_ptr", "coalesced", "views_array", "map_tvec", "map_array", "owned"]
            # the views that only exist for one family get a larger share (they are the narrowest code)
            if sh[0] == "tvector":
                ks = ["column_view", "row_slice", "column_slice", "column_slice", "row_view", "slice"] + ks
            if sh[0] == "tmatrix":
                ks = ["submatrix_view"] * 5 + ks
            kind = pick(kinds or ks)
            const = (not mutable) and booleans()
            o = {"shape": sh, "kind": kind, "const": const}
            if kind == "owned":
                o["space"] = new_space(sh)
                o["cells"] = list(range(n))
            elif kind in ("map_ptr", "map_tvec"):
                off = region(n)
                if off is None:
                    return make_operand(sh, mutable, ["owned"])
                o.update(space=0, off=off, cells=list(range(off, off + n)))
            elif kind == "strided":
                stride = integers(1, 4)
                off = region((n - 1) * stride + 1)
                if off is None:
                    return make_operand(sh, mutable, ["owned"])
                o.update(space=0, off=off, stride=stride, cells=[off + i * stride for i in range(n)])
            elif kind == "coalesced":
                span = n + integers(0, 4)
                off = region(span)
                if off is None:
                    return make_operand(sh, mutable, ["owned"])
                cells = rnd.sample(list(range(off, off + span)), n)
                o.update(space=0, cells=list(cells))
            elif kind in ("views_array", "map_array"):
                count = integers(1, 3)
                stride = n if kind == "map_array" else n + integers(0, 3)
                off = region((count - 1) * stride + n)
                if off is None:
                    return make_operand(sh, mutable, ["owned"])
                j = integers(0, count - 1)
                o.update(space=0, off=off, stride=stride, count=count, index=j, paren=booleans(),
                         fsarray=booleans(),
                         cells=[off + j * stride + i for i in range(n)])
            elif kind in ("row_view", "row_slice", "column_view", "column_slice"):
                if kind == "row_view":
                    R, C, J = integers(1, 4), n, 0
                    if mode == "colrow":
                        R = pick([r for r in range(1, 6) if r != n])  # non-square host
                elif kind == "row_slice":
                    J = integers(0, 2)
                    R, C = integers(1, 4), J + n + integers(0, 2)
                elif kind == "column_view":
                    R, C, J = n, integers(1, 4), 0
                    if mode == "colrow":
                        C = pick([c for c in range(1, 6) if c != n])  # non-square host
                else:
                    J = integers(0, 2)
                    R, C = J + n + integers(0, 2), integers(1, 4)
                host = new_space(["tmatrix", R, C])
                if kind.startswith("row"):
                    I = integers(0, R - 1)
                    cells = [I * C + J + k for k in range(n)]
                else:
                    I = integers(0, C - 1)
                    cells = [(J + k) * C + I for k in range(n)]
                o.update(space=host, I=I, J=J, cells=cells)
            elif kind == "submatrix_view":
                r, c = sh[1], sh[2]
                I, J = integers(0, 2), integers(0, 2)
                R, C = I + r + integers(0, 2), J + c + integers(0, 2)
                host = new_space(["tmatrix", R, C])
                o.update(space=host, I=I, J=J, cells=[(I + a) * C + J + b for a in range(r) for b in range(c)])
            elif kind == "slice":
                # slice<I>() : the last n elements; slice<0,n>() : the first n (start 0: "size" and
                # "end index" readings of the second parameter coincide)
                tail = booleans()
                # H > n: slice<0,J>() with J equal to the host size is an ambiguous call on the
                # unchanged tree (slice<I,J,N,T> vs slice<I,N,T>), so it is not a spelling real code uses
                H = n + integers(1, 3)
                host = new_space(["tvector", H])
                I = H - n if tail else 0
                o.update(space=host, tail=tail, I=I, cells=list(range(I, I + n)))
            P["operands"].append(o)
            return len(P["operands"]) - 1

        scal = lambda: pick([2, -2, 3, 4, -1, 0.5, -0.5, 0.25])
        pow2 = lambda: pick([2, -2, 4, 0.5, -0.5, 8])

        def dest_element(divisor):
            """scalar operand that is an lvalue element of the destination, not its last component
            (None when the destination has a single component)"""
            d = P["operands"][P["dest"]]
            sh, n = d["shape"], shape_size(d["shape"])
            if n < 2:
                return None
            l = integers(0, n - 2)
            one_index = sh[0] not in ("tmatrix", "st2tost2")
            vias = ["paren"] + (["bracket"] if one_index else [])
            if d["space"] == 0 or (d["kind"] == "owned" and sh[0] not in FLAT_OWNED_ONLY):
                vias += ["view", "view"]
            via = pick(vias)
            k = P["dest"]
            if via == "view":
                if d["space"] == 0:
                    o = {"shape": sh, "kind": "coalesced", "const": booleans(), "space": 0,
                         "cells": list(d["cells"]), "twin": True}
                else:
                    o = {"shape": sh, "kind": "map_data", "const": booleans(), "space": d["space"],
                         "cells": list(d["cells"]), "twin": True}
                P["operands"].append(o)
                k = len(P["operands"]) - 1
            bracket = via == "bracket" or (via == "view" and one_index and booleans())
            acc = ("[%d]" % l) if bracket else access(sh, "", l)
            if divisor:
                # exact division: the element is a power of two
                patches.append((d["space"], d["cells"][l], pick([8, 16, -8, 4, -16, 32])))
            return {"elem": k, "l": l, "via": via, "acc": acc, "space": d["space"], "cell": d["cells"][l]}

        def leaf(sh, aliasable):
            """a leaf of shape sh: a fresh operand, a reused one, or (when allowed) the destination"""
            same = [i for i, o in enumerate(P["operands"]) if o["shape"] == sh and (aliasable or i != P.get("dest"))
                    and (aliasable or o.get("vt", "double") == "double")]
            if aliasable and "dest" in P and integers(0, 3) == 0:
                return ["leaf", P["dest"]]
            if aliasable and "dest" in P and integers(0, 5) == 0:
                # another view object on exactly the same cells as the destination
                d = P["operands"][P["dest"]]
                if d["space"] == 0:
                    o = {"shape": sh, "kind": "coalesced", "const": booleans(), "space": 0,
                         "cells": list(d["cells"]), "twin": True}
                    P["operands"].append(o)
                    return ["leaf", len(P["operands"]) - 1]
            if same and integers(0, 2) == 0:
                return ["leaf", pick(same)]
            return ["leaf", make_operand(sh, False, None, aliasable)]

        def tree(sh, depth, aliasable, prods=2):
            """expression of shape sh.  `prods`: how many nested levels of products are still allowed
            (|data| <= 200/8 and at most two nested products keep every intermediate exact in binary64:
            8 bits per leaf, a product of sums doubles the bits, 2*(2*8+2)+2+6 < 53)"""
            # (Hypothesis favours small draws: the interesting alternatives come first)
            r = {0: 2, 1: 3, 2: 4, 3: 5, 4: 6, 5: 7, 6: 8, 7: 9, 8: 0, 9: 1}[integers(0, 9)] if depth > 0 else 0
            if r <= 1:
                return leaf(sh, aliasable)
            if r == 8 and sh[0] in RUNTIME_SIZED:
                r = 2  # eval() of a vector / runtime_array expression does not compile on the unchanged tree
            if r <= 4 or (r == 9 and prods <= 0):
                return [pick(["add", "sub"]), tree(sh, depth - 1, aliasable, prods), tree(sh, depth - 1, aliasable, prods)]
            if r == 5:
                return ["neg", tree(sh, depth - 1, aliasable, prods)]
            if r in (6, 7) and prods >= 2 and "dest" in P and integers(0, 4) == 0:
                # scalar = element of the destination (counts as one product level for exactness)
                S = dest_element(r == 7)
                if S is not None:
                    return [pick(["smul_l", "smul_r"]) if r == 6 else "sdiv", S, tree(sh, depth - 1, aliasable, prods - 1)]
            if r == 6:
                return [pick(["smul_l", "smul_r"]), scal(), tree(sh, depth - 1, aliasable, prods)]
            if r == 7:
                return ["sdiv", pow2(), tree(sh, depth - 1, aliasable, prods)]
            if r == 8:
                # eval() is only defined for Expr objects: wrap an element-wise operation
                c = integers(0, 2)
                if c == 0:
                    return ["eval", [pick(["add", "sub"]), tree(sh, depth - 1, aliasable, prods), tree(sh, depth - 1, aliasable, prods)]]
                if c == 1:
                    return ["eval", [pick(["smul_l", "smul_r"]), scal(), tree(sh, depth - 1, aliasable, prods)]]
                return ["eval", ["neg", tree(sh, depth - 1, aliasable, prods)]]
            # products: their operands never alias the destination
            k = sh[0]
            q = prods - 1
            if k == "tvector":
                m = integers(1, 4)
                return ["matvec", tree(["tmatrix", sh[1], m], min(depth - 1, 1), False, q),
                        tree(["tvector", m], depth - 1, False, q)]
            if k == "tmatrix":
                c = integers(0, 2)
                if c == 0:
                    m = integers(1, 3)
                    # tmatrix * tmatrix does not compile on the unchanged tree when an operand is an
                    # expression ((m1+m1)*m2: Expr.hxx:65 cannot bind an rvalue): leaves only
                    return ["matmat", tree(["tmatrix", sh[1], m], 0, False, q), tree(["tmatrix", m, sh[2]], 0, False, q)]
                if c == 1:
                    return ["dyad", tree(["tvector", sh[1]], depth - 1, False, q), tree(["tvector", sh[2]], depth - 1, False, q)]
                return ["transpose", ["leaf", make_operand(["tmatrix", sh[2], sh[1]], False, ["owned"])]]
            if k == "st2tost2":
                return ["dyad", tree(["stensor", sh[1]], depth - 1, False, q), tree(["stensor", sh[1]], depth - 1, False, q)]
            if k == "stensor":
                c = integers(0, 2)
                if c == 0:
                    return ["st2s", tree(["st2tost2", sh[1]], min(depth - 1, 1), False, q), tree(sh, depth - 1, False, q)]
                if c == 1:
                    return ["sst2", tree(sh, depth - 1, False, q), tree(["st2tost2", sh[1]], min(depth - 1, 1), False, q)]
                return ["dotscale", tree(sh, min(depth - 1, 1), False, 0), tree(sh, min(depth - 1, 1), False, 0),
                        tree(sh, depth - 1, aliasable, q)]
            return [pick(["add", "sub"]), tree(sh, depth - 1, aliasable, prods), tree(sh, depth - 1, aliasable, prods)]

        if mode == "colrow":
            kind = pick(["column_view", "column_view", "row_view"])
            if booleans():
                # the view is written (and read back in half of the programs)
                P["dest"] = make_operand(shape, True, [kind])
                P["assign"] = pick(["=", "=", "+=", "-="])
                e = tree(shape, pick([1, 2]), True)
                P["expr"] = [pick(["add", "sub"]), ["leaf", P["dest"]], e] if booleans() else e
            else:
                # the mutable view is read
                P["dest"] = make_operand(shape, True)
                P["assign"] = pick(["=", "=", "+=", "-="])
                v = ["leaf", make_operand(shape, True, [kind])]
                P["expr"] = [pick(["add", "sub"]), v, tree(shape, pick([0, 1, 2]), True)]
        elif mode == "scalar_alias":
            P["dest"] = make_operand(shape, True)
            P["assign"] = pick(["=", "=", "=", "+=", "-="])
            form = integers(0, 4)
            S = dest_element(form in (2, 4))
            W = lambda: tree(shape, pick([0, 1, 2]), True, 1)
            D = ["leaf", P["dest"]]
            if form == 0:
                P["expr"] = ["smul_l", S, W()]
            elif form == 1:
                P["expr"] = ["smul_r", S, W()]
            elif form == 2:
                P["expr"] = ["sdiv", S, D]
            elif form == 3:
                P["expr"] = ["add", ["smul_l", S, D], W()]
            else:
                P["expr"] = ["sub", W(), ["sdiv", S, W()]]
        else:
            P["dest"] = make_operand(shape, True)
            op = pick(["=", "=", "=", "=", "+=", "-=", "*=", "/="])
            P["assign"] = op
            if op in ("*=", "/="):
                P["scalar"] = pow2()
                P["expr"] = None
            else:
                P["expr"] = tree(shape, pick([2, 3, 3, 1]), True)
        # values of the backing buffer: data under the operands, sentinels elsewhere
        used = set()
        for o in P["operands"]:
            if o["space"] == 0:
                used.update(o["cells"])
        P["spaces"][0]["values"] = [datum() if i in used else None for i in range(LBACK)]
        for sp, cell, k in patches:
            P["spaces"][sp]["values"][cell] = k
        del P["cursor"]
        return P

    return prog()


# ------------------------------------------------------------------ analysis of a program
def walk(e):
    yield e
    if e[0] == "leaf":
        return
    for s in e[1:]:
        if isinstance(s, list):
            yield from walk(s)


def leaves_elementwise(e, under_product=False):
    """(operand index, reached only through element-wise nodes)"""
    if e[0] == "leaf":
        yield e[1], not under_product
        return
    prod = under_product or e[0] in ("matvec", "matmat", "dyad", "transpose", "st2s", "sst2")
    if e[0] == "dotscale":
        yield from leaves_elementwise(e[1], True)
        yield from leaves_elementwise(e[2], True)
        yield from leaves_elementwise(e[3], under_product)
        return
    for s in e[1:]:
        if isinstance(s, list):
            yield from leaves_elementwise(s, prod)


def scalar_elements(e):
    """scalar operands that are elements of an operand: the dicts stored in smul_l / smul_r / sdiv nodes"""
    if e is None:
        return []
    return [n[1] for n in walk(e) if n[0] in ("smul_l", "smul_r", "sdiv") and isinstance(n[1], dict)]


def used_operands(P):
    used = {P["dest"]}
    if P["expr"] is not None:
        used |= {n[1] for n in walk(P["expr"]) if n[0] == "leaf"}
        used |= {S["elem"] for S in scalar_elements(P["expr"])}
    return used


def well_formed(P):
    """aliasing discipline: an operand may touch the destination's cells only when it is an exact
    alias (same space, same cells in the same order) reached through element-wise nodes only;
    mutable/const: the destination is mutable"""
    d = P["operands"][P["dest"]]
    if d["const"]:
        return False
    if P["expr"] is None:
        return True
    dc = set(d["cells"])
    for k, elementwise in leaves_elementwise(P["expr"]):
        o = P["operands"][k]
        if o["space"] != d["space"] or not (dc & set(o["cells"])):
            continue
        if not elementwise or o["cells"] != d["cells"] or o["shape"] != d["shape"]:
            return False
    return True


def n_operators(P):
    if P["expr"] is None:
        return 1
    return sum(1 for n in walk(P["expr"]) if n[0] not in ("leaf", "eval")) + (1 if P["assign"] != "=" else 0)


def classify(P):
    cl = ["shape." + P["shape"][0], "assign." + P["assign"]]
    used = {P["dest"]}
    alias = False
    if P["expr"] is not None:
        for n in walk(P["expr"]):
            cl.append("op." + n[0]) if n[0] != "leaf" else used.add(n[1])
        d = P["operands"][P["dest"]]
        for k, _ in leaves_elementwise(P["expr"]):
            o = P["operands"][k]
            if o["space"] == d["space"] and o["cells"] == d["cells"]:
                alias = True
                cl.append("alias.twin_view" if k != P["dest"] else "alias.same_object")
    for S in scalar_elements(P["expr"]):
        alias = True
        used.add(S["elem"])
        cl.append("alias.scalar_element." + S["via"])
    if P.get("mode"):
        cl.append("quota." + P["mode"])
    views = False
    for k in used:
        o = P["operands"][k]
        cl.append("operand." + o["kind"] + (".const" if o["const"] else ""))
        if o.get("vt", "double") != "double":
            cl.append("operand.value_type." + o["vt"])
        views = views or o["kind"] != "owned"
    cl.append("dest." + P["operands"][P["dest"]]["kind"])
    nontrivial = n_operators(P) >= 2 and (views or alias)
    return sorted(set(cl)), nontrivial


# ------------------------------------------------------------------ C++ emission
def num(x, names=None):
    """C++ spelling of a scalar operand: a literal, or (names given) an element of an operand;
    without names: the value the element held BEFORE the statement (eager semantic)"""
    if isinstance(x, dict):
        if names is None:
            return "ref%d[%d]" % (x["space"], x["cell"])
        return names[x["elem"]] + x["acc"]
    return repr(float(x))


def decl_operand(P, k, out):
    """declaration of operand k; returns the C++ expression naming it"""
    o = P["operands"][k]
    T = shape_type(o["shape"])
    CT = "const " + T if o["const"] else T
    n = shape_size(o["shape"])
    name = "o%d" % k
    kind = o["kind"]
    sp = P["spaces"][o["space"]]["name"]
    if kind == "owned":
        return sp
    if kind == "map_ptr":
        out.append("auto %s = map<%s>(%s + %d);" % (name, CT, "cbuf" if o["const"] else "buf", o["off"]))
    elif kind == "map_tvec":
        out.append("auto %s = map<%s, %du>(%s);" % (name, CT, o["off"], "cbk" if o["const"] else "bk"))
    elif kind == "strided":
        out.append("auto %s = map_strided<%s>(%s + %d, %d);" % (name, CT, "cbuf" if o["const"] else "buf", o["off"], o["stride"]))
    elif kind == "map_data":
        out.append("auto %s = map<%s>(%s.data());" % (name, CT, ("c" + sp) if o["const"] else sp))
    elif kind == "coalesced":
        ptr, base = ("const double*", "cbuf") if o["const"] else ("double*", "buf")
        out.append("std::array<%s, %d> p%d{%s};" % (ptr, n, k, ", ".join("%s + %d" % (base, c) for c in o["cells"])))
        out.append("auto %s = map<%s>(p%d);" % (name, CT, k))
    elif kind == "views_array":
        out.append("auto a%d = map<%du, %s, %du, %du>(%s);" % (k, o["count"], CT, o["off"], o["stride"], "cbk" if o["const"] else "bk"))
        # the element view is bound to a name: some operations keep a reference to their operands
        out.append("auto %s = %s;" % (name, ("a%d(%d)" if o["paren"] else "a%d[%d]") % (k, o["index"])))
    elif kind == "map_array":
        cont = "fsarray" if o["fsarray"] else "tvector"
        # map_array takes a pointer to mutable data
        out.append("auto a%d = map_array<%s<%du, %s>>(buf + %d);" % (k, cont, o["count"], T, o["off"]))
        out.append("auto %s = %s;" % (name, ("a%d(%d)" if o["paren"] else "a%d[%d]") % (k, o["index"])))
    else:
        host = ("c" + sp) if o["const"] else sp
        if kind == "row_view":
            out.append("auto %s = %s.row_view<%d>();" % (name, host, o["I"]))
        elif kind == "row_slice":
            out.append("auto %s = %s.row_view<%d, %d, %d>();" % (name, host, o["I"], o["J"], n))
        elif kind == "column_view":
            out.append("auto %s = %s.column_view<%d>();" % (name, host, o["I"]))
        elif kind == "column_slice":
            out.append("auto %s = %s.column_view<%d, %d, %d>();" % (name, host, o["I"], o["J"], n))
        elif kind == "submatrix_view":
            out.append("auto %s = %s.submatrix_view<%d, %d, %d, %d>();" % (name, host, o["I"], o["J"], o["shape"][1], o["shape"][2]))
        elif kind == "slice":
            if o["tail"]:
                out.append("auto %s = %s.slice<%d>();" % (name, host, o["I"]))
            else:
                out.append("auto %s = %s.slice<0, %d>();" % (name, host, n))
    return name


def tfel_expr(e, names):
    k = e[0]
    if k == "leaf":
        return names[e[1]]
    if k == "neg":
        return "(-%s)" % tfel_expr(e[1], names)
    if k == "add":
        return "(%s + %s)" % (tfel_expr(e[1], names), tfel_expr(e[2], names))
    if k == "sub":
        return "(%s - %s)" % (tfel_expr(e[1], names), tfel_expr(e[2], names))
    if k == "smul_l":
        return "(%s * %s)" % (num(e[1], names), tfel_expr(e[2], names))
    if k == "smul_r":
        return "(%s * %s)" % (tfel_expr(e[2], names), num(e[1], names))
    if k == "sdiv":
        return "(%s / %s)" % (tfel_expr(e[2], names), num(e[1], names))
    if k == "eval":
        return "eval(%s)" % tfel_expr(e[1], names)
    if k in ("matvec", "matmat", "st2s", "sst2"):
        return "(%s * %s)" % (tfel_expr(e[1], names), tfel_expr(e[2], names))
    if k == "dyad":
        return "(%s ^ %s)" % (tfel_expr(e[1], names), tfel_expr(e[2], names))
    if k == "transpose":
        return "transpose(%s)" % tfel_expr(e[1], names)
    if k == "dotscale":
        return "((%s | %s) * %s)" % (tfel_expr(e[1], names), tfel_expr(e[2], names), tfel_expr(e[3], names))
    raise ValueError(k)


def expr_shape(P, e):
    k = e[0]
    if k == "leaf":
        return P["operands"][e[1]]["shape"]
    if k in ("neg", "eval"):
        return expr_shape(P, e[1])
    if k in ("add", "sub"):
        return expr_shape(P, e[1])
    if k in ("smul_l", "smul_r", "sdiv"):
        return expr_shape(P, e[2])
    if k == "matvec":
        return ["tvector", expr_shape(P, e[1])[1]]
    if k == "matmat":
        return ["tmatrix", expr_shape(P, e[1])[1], expr_shape(P, e[2])[2]]
    if k == "dyad":
        a, b = expr_shape(P, e[1]), expr_shape(P, e[2])
        return ["tmatrix", a[1], b[1]] if a[0] == "tvector" else ["st2tost2", a[1]]
    if k == "transpose":
        a = expr_shape(P, e[1])
        return ["tmatrix", a[2], a[1]]
    if k == "st2s":
        return expr_shape(P, e[2])
    if k == "sst2":
        return expr_shape(P, e[1])
    if k == "dotscale":
        return expr_shape(P, e[3])
    raise ValueError(k)


def naive(P, e, out, counter):
    """emits naive loops computing node e into a plain double array; returns (array name, shape)"""
    k = e[0]
    sh = expr_shape(P, e)
    n = shape_size(sh)
    counter[0] += 1
    t = "t%d" % counter[0]
    if k == "leaf":
        o = P["operands"][e[1]]
        out.append("double %s[%d]; { static const int c[%d] = {%s}; for (int i = 0; i < %d; ++i) %s[i] = ref%d[c[i]]; }" % (
            t, n, n, ", ".join(map(str, o["cells"])), n, t, o["space"]))
        return t, sh
    if k in ("neg", "eval", "smul_l", "smul_r", "sdiv"):
        a, _ = naive(P, e[1] if k in ("neg", "eval") else e[2], out, counter)
        if k == "neg":
            rhs = "-%s[i]" % a
        elif k == "eval":
            rhs = "%s[i]" % a
        elif k == "smul_l":
            rhs = "%s * %s[i]" % (num(e[1]), a)
        elif k == "smul_r":
            rhs = "%s[i] * %s" % (a, num(e[1]))
        else:
            rhs = "%s[i] / %s" % (a, num(e[1]))
        out.append("double %s[%d]; for (int i = 0; i < %d; ++i) %s[i] = %s;" % (t, n, n, t, rhs))
        return t, sh
    if k in ("add", "sub"):
        a, _ = naive(P, e[1], out, counter)
        b, _ = naive(P, e[2], out, counter)
        out.append("double %s[%d]; for (int i = 0; i < %d; ++i) %s[i] = %s[i] %s %s[i];" % (
            t, n, n, t, a, "+" if k == "add" else "-", b))
        return t, sh
    if k in ("matvec", "matmat", "st2s", "sst2"):
        a, sa = naive(P, e[1], out, counter)
        b, sb = naive(P, e[2], out, counter)
        # (rows x inner) . (inner x cols), row-major flat arrays; vectors are inner x 1 / 1 x inner
        if k == "matvec":
            rows, inner, cols = sa[1], sa[2], 1
        elif k == "matmat":
            rows, inner, cols = sa[1], sa[2], sb[2]
        elif k == "st2s":
            rows, inner, cols = STSIZE[sa[1]], STSIZE[sa[1]], 1
        else:
            rows, inner, cols = 1, STSIZE[sb[1]], STSIZE[sb[1]]
        out.append("double %s[%d]; for (int i = 0; i < %d; ++i) for (int j = 0; j < %d; ++j) { double acc = 0; "
                   "for (int l = 0; l < %d; ++l) acc += %s[i * %d + l] * %s[l * %d + j]; %s[i * %d + j] = acc; }" % (
                       t, n, rows, cols, inner, a, inner, b, cols, t, cols))
        return t, sh
    if k == "dyad":
        a, sa = naive(P, e[1], out, counter)
        b, sb = naive(P, e[2], out, counter)
        na, nb = shape_size(sa), shape_size(sb)
        out.append("double %s[%d]; for (int i = 0; i < %d; ++i) for (int j = 0; j < %d; ++j) %s[i * %d + j] = %s[i] * %s[j];" % (
            t, n, na, nb, t, nb, a, b))
        return t, sh
    if k == "transpose":
        a, sa = naive(P, e[1], out, counter)
        out.append("double %s[%d]; for (int i = 0; i < %d; ++i) for (int j = 0; j < %d; ++j) %s[j * %d + i] = %s[i * %d + j];" % (
            t, n, sa[1], sa[2], t, sa[1], a, sa[2]))
        return t, sh
    if k == "dotscale":
        a, sa = naive(P, e[1], out, counter)
        b, _ = naive(P, e[2], out, counter)
        c, _ = naive(P, e[3], out, counter)
        na = shape_size(sa)
        out.append("double %s[%d]; { double dot = 0; for (int l = 0; l < %d; ++l) dot += %s[l] * %s[l]; "
                   "for (int i = 0; i < %d; ++i) %s[i] = dot * %s[i]; }" % (t, n, na, a, b, n, t, c))
        return t, sh
    raise ValueError(k)


def emit_program(P, idx):
    L = ["static int prog_%d() {" % idx, "using namespace tfel::math;"]
    # spaces
    for s, sp in enumerate(P["spaces"]):
        sh, name, n = sp["shape"], sp["name"], shape_size(sp["shape"])
        vt = sp.get("vt", "double")
        if sh[0] in RUNTIME_SIZED:
            L.append("%s %s(%d);" % (shape_type(sh, vt), name, n))
        else:
            L.append("%s %s;" % (shape_type(sh, vt), name))
        # int spaces hold the integers k, the others the dyadic rationals k/8
        vals = [((repr(float(v)) if vt == "int" else val(v)) if v is not None else repr(1.0e6 + i)) for i, v in enumerate(sp["values"])]
        L.append("static const double init%d[%d] = {%s};" % (s, n, ", ".join(vals)))
        if s == 0:
            L.append("for (unsigned short i = 0; i < %d; ++i) bk(i) = init0[i];" % n)
            L.append("double* const buf = bk.data(); const double* const cbuf = buf; const auto& cbk = bk; (void)cbuf; (void)cbk; (void)buf;")
        else:
            for l in range(n):
                L.append("%s = static_cast<%s>(init%d[%d]);" % (access(sh, name, l), vt, s, l))
            L.append("const auto& c%s = %s; (void)c%s;" % (name, name, name))
        L.append("double ref%d[%d]; for (int i = 0; i < %d; ++i) ref%d[i] = init%d[i];" % (s, n, n, s, s))
    # operands
    names = {}
    for k in sorted(used_operands(P)):
        names[k] = decl_operand(P, k, L)
    d = P["operands"][P["dest"]]
    dn = shape_size(d["shape"])
    # statement under test
    if P["expr"] is None:
        L.append("%s %s %s;" % (names[P["dest"]], P["assign"], num(P["scalar"])))
        L.append("double res[%d]; { static const int c[%d] = {%s}; for (int i = 0; i < %d; ++i) res[i] = ref%d[c[i]] %s %s; }" % (
            dn, dn, ", ".join(map(str, d["cells"])), dn, d["space"], P["assign"][0], num(P["scalar"])))
    else:
        L.append("%s %s %s;" % (names[P["dest"]], P["assign"], tfel_expr(P["expr"], names)))
        cnt = [0]
        t, _ = naive(P, P["expr"], L, cnt)
        if P["assign"] == "=":
            L.append("double* const res = %s;" % t)
        else:
            L.append("double res[%d]; { static const int c[%d] = {%s}; for (int i = 0; i < %d; ++i) res[i] = ref%d[c[i]] %s %s[i]; }" % (
                dn, dn, ", ".join(map(str, d["cells"])), dn, d["space"], P["assign"][0], t))
    # expected state of every space: pristine, except the destination's cells
    L.append("{ static const int c[%d] = {%s}; for (int i = 0; i < %d; ++i) ref%d[c[i]] = res[i]; }" % (
        dn, ", ".join(map(str, d["cells"])), dn, d["space"]))
    L.append("int bad = 0;")
    for s, sp in enumerate(P["spaces"]):
        sh, name, n = sp["shape"], sp["name"], shape_size(sp["shape"])
        if s == 0:
            L.append("for (unsigned short i = 0; i < %d; ++i) bad += cmp(%d, 0, i, bk(i), ref0[i]);" % (n, idx))
        else:
            for l in range(n):
                L.append("bad += cmp(%d, %d, %d, static_cast<double>(%s), ref%d[%d]);" % (idx, s, l, access(sh, name, l), s, l))
    L.append("return bad;")
    L.append("}")
    return "\n".join(L)


HEADER = r'''// generated by engine/gen/C17_exprtemplates.py -- do not edit
#include <array>
#include <cstdio>
#include <cstdlib>
#include <cstring>
#include "TFEL/Math/tvector.hxx"
#include "TFEL/Math/tmatrix.hxx"
#include "TFEL/Math/stensor.hxx"
#include "TFEL/Math/tensor.hxx"
#include "TFEL/Math/st2tost2.hxx"
#include "TFEL/Math/fsarray.hxx"
#include "TFEL/Math/vector.hxx"
#include "TFEL/Math/runtime_array.hxx"
#include "TFEL/Math/Array/View.hxx"
#include "TFEL/Math/Array/ViewsArray.hxx"
#include "TFEL/Math/Array/CoalescedView.hxx"
#include "TFEL/Math/Array/StridedCoalescedView.hxx"

static int cmp(int prog, int space, int cell, double got, double expected) {
  if (std::memcmp(&got, &expected, sizeof(double)) == 0) return 0;
  if (got == expected) return 0;  // -0. / +0.
  std::printf("P %d MISMATCH space=%d cell=%d got=%.17g expected=%.17g\n", prog, space, cell, got, expected);
  return 1;
}
'''


def emit_tu(programs):
    parts = [HEADER]
    for i, P in enumerate(programs):
        parts.append(emit_program(P, i))
    parts.append("int main() {\n  int failed = 0;")
    for i in range(len(programs)):
        parts.append('  std::printf("P %d BEGIN\\n"); std::fflush(stdout);\n'
                     '  { const int b = prog_%d(); failed += b != 0; std::printf("P %d %%s\\n", b ? "FAIL" : "OK"); std::fflush(stdout); }' % (i, i, i))
    parts.append('  std::printf("DONE\\n");\n  return failed ? 1 : 0;\n}')
    return "\n".join(parts) + "\n"


# ------------------------------------------------------------------ build + run
CXX = ["clang++", "-std=c++20", "-O1", "-g0", "-w", "-ffp-contract=off", "-fsanitize=address,undefined",
       "-fno-sanitize-recover=undefined", "-fno-omit-frame-pointer"]


def build_and_run(programs, workdir, tag):
    """returns (per-program verdicts {i: (ok, key, msg)}, compile error text or None)"""
    os.makedirs(workdir, exist_ok=True)
    src = os.path.join(workdir, tag + ".cxx")
    exe = os.path.join(workdir, tag)
    with open(src, "w") as f:
        f.write(emit_tu(programs))
    cmd = CXX + ["-I" + os.path.join(REPO, "include"), "-I" + os.path.join(BUILD, "include"), src, "-o", exe]
    ld = libdirs()
    for l in ("TFELMath", "TFELException"):
        if l in ld:
            cmd += ["-L" + ld[l], "-Wl,-rpath," + ld[l], "-l" + l]
    rc, so, se = run(cmd, timeout=3000)
    if rc != 0:
        errs = [l for l in se.splitlines() if "error" in l][:12]
        return None, "\n".join(errs)[:3000] or se[-2000:]
    env = dict(os.environ)
    env["ASAN_OPTIONS"] = "detect_leaks=0:abort_on_error=0:detect_stack_use_after_return=1"
    env["UBSAN_OPTIONS"] = "print_stacktrace=1"
    rc, so, se = run([exe], timeout=600, env=env)
    verdicts = {}
    current = None
    mism = {}
    for line in so.splitlines():
        w = line.split()
        if len(w) >= 3 and w[0] == "P":
            i = int(w[1])
            if w[2] == "BEGIN":
                current = i
            elif w[2] == "MISMATCH":
                mism.setdefault(i, []).append(" ".join(w[3:]))
            elif w[2] == "OK":
                verdicts[i] = (True, "", "")
                current = None
            elif w[2] == "FAIL":
                verdicts[i] = (False, "C17.value", "; ".join(mism.get(i, [])[:4]))
                current = None
    if current is not None:
        # the process died inside program `current`: sanitizer report or crash
        rep = [l for l in se.splitlines() if "ERROR" in l or "runtime error" in l or "SUMMARY" in l][:4]
        key = "C17.sanitizer" if rep else "C17.crash"
        verdicts[current] = (False, key, ("exit %s: " % rc) + " | ".join(rep)[:1500])
        for i in range(current + 1, len(programs)):
            verdicts[i] = None  # not run
    return verdicts, None


def program_key(P, verdict):
    """failure key: sub-claim + class of the destination / shape, so that a different violation is still reported"""
    d = P["operands"][P["dest"]]
    return "%s.%s.dest_%s" % (verdict[1], P["shape"][0], d["kind"])


def describe(P):
    names = {}
    for k, o in enumerate(P["operands"]):
        names[k] = "%s%d[%s%s]" % ("o", k, o["kind"], ",const" if o["const"] else "")
    if P["expr"] is None:
        return "%s %s %s" % (names[P["dest"]], P["assign"], P["scalar"])
    return "%s %s %s   (%s)" % (names[P["dest"]], P["assign"], tfel_expr(P["expr"], names), shape_type(P["shape"]))


def check_single(P, workdir=None, tag="single"):
    """check of one program in its own TU (replay / reduction)"""
    v, err = build_and_run([P], workdir or os.path.join(WORK, "single"), tag)
    if v is None:
        return Result(False, "C17.generator.does_not_compile", "generated program does not compile: " + err)
    r = v.get(0)
    if r is None or r[0]:
        cl, nt = classify(P)
        return Result(True, nontrivial=nt, classes=cl)
    return Result(False, program_key(P, r), describe(P) + " : " + r[2])


def reduce_program(P, budget):
    """greedy reduction: replace sub-trees by one of their children while the program still fails"""
    best = P
    changed = True
    while changed and budget[0] > 0:
        changed = False
        if best["expr"] is None:
            break
        paths = []

        def collect(e, path):
            if e[0] != "leaf":
                paths.append(path)
                for i, s in enumerate(e):
                    if isinstance(s, list):
                        collect(s, path + [i])
        collect(best["expr"], [])
        for path in paths:
            node = best["expr"]
            for i in path:
                node = node[i]
            sh = expr_shape(best, node)
            for child in [s for s in node[1:] if isinstance(s, list)]:
                if expr_shape(best, child) != sh or budget[0] <= 0:
                    continue
                cand = json.loads(json.dumps(best))
                if path:
                    parent = cand["expr"]
                    for i in path[:-1]:
                        parent = parent[i]
                    parent[path[-1]] = child
                else:
                    cand["expr"] = child
                if not well_formed(cand):
                    continue
                budget[0] -= 1
                if not check_single(cand, tag="reduce").ok:
                    best = cand
                    changed = True
                    break
            if changed:
                break
    return best


def main():
    rp = replay_requested()
    if rp is not None:
        d = load_replay(rp)
        r = check_single(d["case"], os.path.join(WORK, "replay"), "replay")
        if r.ok:
            print("REPLAY-PASSES")
            sys.exit(0)
        print("REPLAY-FAILS key=%s msg=%s" % (r.key, str(r.msg)[:2000]))
        sys.exit(1)

    from hypothesis import given, settings, seed, HealthCheck, Phase, strategies as st
    u = Unit("C17_exprtemplates")
    K = int(param("cases", 40))           # programs per translation unit
    ntu = int(param("tus", 1))            # translation units of this shard
    # Hypothesis is used as the program generator: one example = one program (the very first
    # example of a run is Hypothesis' minimal one, the others are random)
    QA = int(param("quota_colrow", 6))         # programs per TU using a mutable whole column/row view of a non-square matrix
    QB = int(param("quota_scalar_alias", 10))  # programs per TU whose scalar operand is an element of the destination
    seen = set()

    def draw_programs(mode, count, offset):
        pool, good = [], []

        @seed(SEED * 16 + offset)
        @settings(max_examples=4 * count + 20, database=None, deadline=None, derandomize=False,
                  suppress_health_check=list(HealthCheck), phases=[Phase.generate])
        @given(program_strategy(mode))
        def gen(P):
            pool.append(P)

        gen()
        for P in pool:
            h = hashlib.sha1(json.dumps(P, sort_keys=True).encode()).hexdigest()
            if h in seen:
                continue  # Hypothesis repeats examples; a program is only compiled once
            seen.add(h)
            if not well_formed(P):
                u.discard("programs")
                continue
            good.append(P)
            if len(good) == count:
                break
        return good

    qa = draw_programs("colrow", QA * ntu, 1)
    qb = draw_programs("scalar_alias", QB * ntu, 2)
    free = draw_programs(None, max(0, K - QA - QB) * ntu, 0)
    batches = []
    nfree = max(0, K - QA - QB)
    for b in range(ntu):
        cur = qa[b * QA:(b + 1) * QA] + qb[b * QB:(b + 1) * QB] + free[b * nfree:(b + 1) * nfree]
        if cur:
            batches.append(cur)
    t0 = time.time()
    broken = []
    reduce_budget = [int(param("reduce_budget", 6))]
    for b, good in enumerate(batches[:ntu]):
        verdicts, err = build_and_run(good, WORK, "tu%d" % b)
        if verdicts is None:
            # a program that does not compile on the unchanged tree is a generator bug: find it
            culprit = None
            for P in good:
                r = check_single(P, tag="bisect")
                if not r.ok and r.key == "C17.generator.does_not_compile":
                    culprit = (P, r)
                    break
            if culprit:
                u.fail("programs", "C17.generator.does_not_compile", describe(culprit[0]) + " : " + culprit[1].msg, culprit[0])
            else:
                broken.append("translation unit %d does not compile: %s" % (b, err))
            continue
        pending = list(enumerate(good))
        # programs after a crash were not run: run them in a second TU
        notrun = [P for i, P in pending if verdicts.get(i, None) is None and i in verdicts]
        for i, P in pending:
            v = verdicts.get(i)
            if v is None:
                continue
            cl, nt = classify(P)
            if v[0]:
                u.case("programs", P, nt, cl, sample=describe(P))
                continue
            key = program_key(P, v)
            if u.is_known(key):
                u.fail("programs", key, describe(P) + " : " + v[2], P)
                continue
            if any(f["key"] == key for f in u.failures):
                continue  # one (reduced) witness per failure class and run
            # confirm in isolation, reduce a little, record
            r = check_single(P)
            if r.ok:
                broken.append("program fails inside the batch but passes alone: " + describe(P))
                continue
            Pm = reduce_program(P, reduce_budget)
            r = check_single(Pm)
            if r.ok:
                Pm, r = P, check_single(P)
            u.fail("programs", r.key, r.msg, Pm)
        rounds = 0
        while notrun and rounds < 6:
            # a sanitizer abort ends the process: the programs behind it run in a further TU
            rounds += 1
            v2, err = build_and_run(notrun, WORK, "tu%d_rest%d" % (b, rounds))
            if v2 is None:
                broken.append("rest of translation unit %d does not compile: %s" % (b, err))
                break
            rest = []
            for i, P in enumerate(notrun):
                v = v2.get(i, "absent")
                cl, nt = classify(P)
                if v == "absent" or v is None:
                    if v is None:
                        rest.append(P)
                    continue
                if v[0]:
                    u.case("programs", P, nt, cl, sample=describe(P))
                else:
                    key = program_key(P, v)
                    if any(f["key"] == key for f in u.failures) or u.is_known(key):
                        if u.is_known(key):
                            u.fail("programs", key, describe(P) + " : " + v[2], P)
                        continue  # same class already recorded in this run
                    r = check_single(P)
                    if not r.ok:
                        u.fail("programs", r.key, r.msg, P)
            notrun = rest
    u.extra["wall_s"] = round(time.time() - t0, 1)
    u.extra["cxx"] = " ".join(CXX)
    rcode = u.finish()
    for b in broken:
        print("BROKEN: " + b)
    sys.exit(2 if (broken and not rcode) else rcode)


if __name__ == "__main__":
    main()
