#!/usr/bin/env python3-vt
"""C41 - generated behaviours integrate their constitutive equations.

Programs: reference behaviours written by engine/gen/behaviour_templates.py
(Hooke elasticity in the Default DSL and with the StandardElasticity brick;
Norton creep in the Implicit DSL (all solvers, theta in (0,1]), in the
RungeKutta DSL (euler, rk2, rk4, rk42, rk54, rkCastem) and in
IsotropicMisesCreep; J2 plasticity with linear hardening in the Implicit DSL
and in IsotropicPlasticMisesFlow), random options / hypotheses / constants,
compiled through `mfront --interface=generic` and called through ctypes.

One case = (program, hypothesis, material constants, state, strain increment,
time increment).  Oracle = the *discretised* equations of the source,
re-evaluated in numpy on the returned state (see the check_* functions); RK
schemes: own tableau for the fixed step schemes, SciPy Radau (rtol 1e-11) for
the adaptive ones.  A returned -1 (integration failure) is an allowed outcome
and is only counted.  Non-trivial = inelastic increment (dp > 1e-8) for the
creep / plasticity kinds, a non-zero strain increment for elasticity.
"""
import math
import random
import sys
import time

import numpy as np
from hypothesis import strategies as st

from verifpy import (Unit, Result, Reject, run_hypothesis, replay_main, replay_requested, SEED, TIER, JOBS, REPO, param,
                     parallel_map)
import gb_iface as gb
import behaviour_templates as bt

U = 2.0 ** -53
# global error of an adaptive RK scheme: declared (local) tolerance x estimated number of sub-steps x 50 x 3
# (the controllers of the generated code take steps 0.8 x / sqrt(ratio) smaller than the optimal one)
RK_FACTOR = 150.0


def amax(v):
    v = np.asarray(v, dtype=np.float64)
    return float(np.max(np.abs(v))) if v.size else 0.0


def fail(key, msg, classes):
    return Result(False, key, msg, classes=classes)


# ------------------------------------------------------------------ oracles
def stress_is_hooke(out, lam, mu, eel1, key, classes, errs):
    """sigma(t+dt) = D:eel(t+dt), a plain evaluation: 16u"""
    ref = bt.hooke(lam, mu, eel1)
    S = (abs(lam) * 3 + 2 * mu) * max(amax(eel1), 1e-300)
    e = amax(out["sig"] - ref)
    errs["stress_from_eel/u.S"] = e / (U * S)
    if not e <= 16 * U * S:
        return fail(key + ".stress_from_eel", "sig=%r but D:eel=%r (err %.3g, tol %.3g)" % (
            out["sig"].tolist(), ref.tolist(), e, 16 * U * S), classes)
    return None


def check_elastic(prog, call, lib):
    h, n = call["hyp"], bt.SSIZE[call["hyp"]]
    axis = bt.PS_AXIS.get(h)
    mat = call["mat"]
    young, nu = mat["young"], mat["nu"]
    lam, mu = bt.lame(young, nu)
    classes = ["kind." + prog["kind"], "hyp." + h] + (["algo." + prog["algo"]] if "algo" in prog else [])
    out = bt.perform(gb, lib, call, 0)
    key = "C41." + prog["kind"]
    if out["rc"] == -1 and prog["kind"] == "hooke_brick":
        # the solver gave up (seen with PowellDogLeg_Broyden on this linear system): reported failure, allowed
        return Result(True, classes=classes + ["outcome.integration_failure", "failure." + prog["algo"]])
    if out["rc"] != 1 and out["rc"] != 0:
        # an explicit evaluation of Hooke's law has no way to fail
        return fail(key + ".failure", "elastic step returned %d (%s)" % (out["rc"], out["msg"]), classes)
    deto = np.array(call["deto"])
    errs = {}
    if prog["kind"] == "hooke_default":
        e = np.array(call["eto0"]) + deto
        if axis is None:
            ref = bt.hooke(lam, mu, e)
        else:
            ref = bt.plane_stress_stiffness(young, nu, n, axis) @ e
            if h == "AxisymmetricalGeneralisedPlaneStress":
                ref[axis] = call["sigzz"][0] + call["sigzz"][1]
        S = (3 * abs(lam) + 2 * mu) * max(amax(e), 1e-300)
        tol = 16 * U * S
    else:
        eps = prog["eps"]
        N = n + (1 if axis is not None else 0)
        e0 = np.array(call["eel0"])
        eel1 = out["iv"]["ElasticStrain"]
        r = stress_is_hooke(out, lam, mu, eel1, key, classes, errs)
        if r is not None:
            return r
        e = e0 + deto
        if axis is not None:
            target = call["sigzz"][0] + call["sigzz"][1] if h == "AxisymmetricalGeneralisedPlaneStress" else 0.0
            others = [i for i in range(3) if i != axis]
            e[axis] = (target - lam * (e[others[0]] + e[others[1]])) / (lam + 2 * mu)
            # partition of the axial strain: deel(axis) = deto(axis) + detozz
            detozz = out["iv"]["AxialStrain"][0] - call["etozz0"]
            rz = (eel1[axis] - e0[axis]) - deto[axis] - detozz
            errs["hooke_brick.axial_partition/eps"] = abs(rz) / eps
            if not abs(rz) <= 10 * eps * N + 64 * U * max(amax(eel1), amax(e0)):
                return fail(key + ".axial_partition", "deel(axis)-deto(axis)-detozz = %.3g" % rz, classes)
        ref = bt.hooke(lam, mu, e)
        S = (3 * abs(lam) + 2 * mu) * max(amax(e), amax(e0), 1e-300)
        # the solver stops when ||residual||_2/N < eps: the strain is known to N*eps
        tol = 16 * U * S + 10 * eps * N * (3 * abs(lam) + 2 * mu)
        errs["hooke_brick.strain/eps"] = amax(eel1 - e) / eps
    err = amax(out["sig"] - ref)
    if not err <= tol and prog["kind"] == "hooke_default" and h == "AxisymmetricalGeneralisedPlaneStress":
        # known class: computeAlteredElasticStiffness<AXISYMMETRICALGENERALISEDPLANESTRESS> condenses the hoop
        # component (index 2, the plane stress layout) instead of the axial one (index 1, (rr,zz,tt) storage)
        wrong = bt.plane_stress_stiffness(young, nu, n, 2) @ (np.array(call["eto0"]) + deto)
        wrong[axis] = call["sigzz"][0] + call["sigzz"][1]
        if amax(out["sig"] - wrong) <= tol:
            return fail("C41.hooke_default.hooke.agps_altered_stiffness",
                        "AxisymmetricalGeneralisedPlaneStress: sig=%r is the stiffness condensed on the hoop component applied "
                        "to e=%r; condensed on the axial component (sig_zz imposed): %r" % (
                            out["sig"].tolist(), (np.array(call["eto0"]) + deto).tolist(), ref.tolist()), classes)
    errs[prog["kind"] + ".hooke/tol"] = err / tol
    if not err <= tol:
        return fail(key + ".hooke", "sig=%r expected D:(e+de)=%r (err %.3g, tol %.3g)" % (
            out["sig"].tolist(), ref.tolist(), err, tol), classes)
    return Result(True, nontrivial=amax(deto) > 0, classes=classes, errs=errs)


def theta_state(call, out, theta, lam, mu):
    e0 = np.array(call["eel0"])
    eel1 = out["iv"]["ElasticStrain"]
    deel = eel1 - e0
    sig_t = bt.hooke(lam, mu, e0 + theta * deel)
    seq_t = bt.seq_of(sig_t)
    return e0, eel1, deel, sig_t, seq_t


def implicit_residual(prog, call, out, flow, lam, mu, classes, errs, key):
    """||(feel, fp, fetozz)||_2/N of the Implicit templates at the returned state"""
    h, n = call["hyp"], bt.SSIZE[call["hyp"]]
    axis = bt.PS_AXIS.get(h)
    theta, eps = prog["theta"], prog["eps"]
    young = call["mat"]["young"]
    e0, eel1, deel, sig_t, seq_t = theta_state(call, out, theta, lam, mu)
    dp = bt.get_p(out) - call["p0"]
    deto = np.array(call["deto"])
    nrm = 1.5 * bt.dev(sig_t) / max(seq_t, 1e-12 * young)
    feel = deel + dp * nrm - deto
    res = []
    if axis is not None:
        detozz = out["iv"]["AxialStrain"][0] - call["etozz0"]
        feel[axis] -= detozz
        target = call["sigzz"][0] + call["sigzz"][1] if h == "AxisymmetricalGeneralisedPlaneStress" else 0.0
        sig1 = bt.hooke(lam, mu, eel1)
        res.append((sig1[axis] - target) / young)
    fp = flow(dp, seq_t)
    res = np.concatenate([feel, [fp], res])
    N = len(res)
    val = float(np.linalg.norm(res)) / N
    # (dp = p1 - p0 is only known to u*|p1|)
    floor = 64 * U * max(amax(eel1), amax(e0), amax(deto), abs(dp), call["p0"] + abs(dp), 1e-300)
    errs[prog["kind"] + ".residual/eps"] = val / eps
    if not val <= 10 * eps + floor:
        return fail(key + ".residual", "||f||/N = %.3g > 10*eps (eps=%g): feel=%r fp=%.3g dp=%.3g seq_theta=%.6g" % (
            val, eps, feel.tolist(), fp, dp, seq_t), classes), None
    return None, (dp, seq_t, sig_t)


def check_implicit_norton(prog, call, lib):
    h = call["hyp"]
    mat = call["mat"]
    lam, mu = bt.lame(mat["young"], mat["nu"])
    classes = ["kind.implicit_norton", "hyp." + h, "algo." + prog["algo"], "brick" if prog["brick"] else "nobrick",
               "theta<1" if prog["theta"] < 1 else "theta=1"]
    out = bt.perform(gb, lib, call, 0)
    key = "C41.implicit_norton"
    if out["rc"] == -1:
        return Result(True, classes=classes + ["outcome.integration_failure", "failure." + prog.get("algo", prog["kind"])])
    errs = {}
    r = stress_is_hooke(out, lam, mu, out["iv"]["ElasticStrain"], key, classes, errs)
    if r is not None:
        return r
    A, m, dt = mat["A"], mat["m"], call["dt"]
    r, info = implicit_residual(prog, call, out, lambda dp, s: dp - dt * A * s ** m, lam, mu, classes, errs, key)
    if r is not None:
        return r
    dp, seq_t, _ = info
    if dp > 0.05 or seq_t < 1e-8 * mat["young"]:
        raise Reject()
    return Result(True, nontrivial=dp > 1e-8, classes=classes + ["outcome.ok"], errs=errs)


def check_iso_creep(prog, call, lib):
    h = call["hyp"]
    mat = call["mat"]
    lam, mu = bt.lame(mat["young"], mat["nu"])
    theta, eps = prog["theta"], prog["eps"]
    classes = ["kind.iso_creep", "hyp." + h, "theta<1" if theta < 1 else "theta=1"]
    out = bt.perform(gb, lib, call, 0)
    key = "C41.iso_creep"
    if out["rc"] == -1:
        return Result(True, classes=classes + ["outcome.integration_failure", "failure." + prog.get("algo", prog["kind"])])
    errs = {}
    e0 = np.array(call["eel0"])
    deto = np.array(call["deto"])
    eel1 = out["iv"]["ElasticStrain"]
    r = stress_is_hooke(out, lam, mu, eel1, key, classes, errs)
    if r is not None:
        return r
    se = 2 * mu * bt.dev(e0 + theta * deto)
    seq_e = math.sqrt(1.5 * float(np.dot(se, se)))
    if seq_e < 1e-8 * mat["young"]:
        raise Reject()
    nrm = 1.5 * se / seq_e
    dp = bt.get_p(out) - call["p0"]
    if dp > 0.05:
        raise Reject()
    seq_t = max(seq_e - 3 * mu * theta * dp, 0.0)
    res = dp - call["dt"] * mat["A"] * seq_t ** mat["m"]
    floor = 64 * U * max(abs(dp), call["p0"] + abs(dp), 1e-300)
    errs["iso_creep.scalar_residual/eps"] = abs(res) / eps
    if not abs(res) <= 10 * eps + floor:
        return fail(key + ".scalar_residual", "dp - dt*A*seq^m = %.3g (eps %g, dp %.3g, seq %.6g)" % (res, eps, dp, seq_t), classes)
    # radial return: deel = deto - dp*n, n the normal of the elastic prediction
    rr = amax((eel1 - e0) - (deto - dp * nrm))
    # the normal is a normalised deviator: its rounding error is amplified by |e|/|dev e|
    et = e0 + theta * deto
    S = max(amax(e0), amax(eel1), amax(deto), call["p0"] + abs(dp)) + abs(dp) * amax(et) / max(amax(bt.dev(et)), 1e-300)
    errs["iso_creep.radial_return/u.S"] = rr / (U * S)
    if not rr <= 64 * U * S:
        return fail(key + ".radial_return", "deel - (deto - dp n) = %.3g (tol %.3g)" % (rr, 64 * U * S), classes)
    return Result(True, nontrivial=dp > 1e-8, classes=classes + ["outcome.ok"], errs=errs)


def plastic_conditions(prog, call, dp, f_over_young, eps, floor, classes, errs, key):
    """f <= tol, dp >= 0, dp.f = 0 at the returned state"""
    tol = 10 * eps + floor
    errs[prog["kind"] + ".yield/eps"] = max(f_over_young, 0.0) / eps
    if not f_over_young <= tol:
        return fail(key + ".yield_violated", "f/young = %.3g > tol %.3g (dp=%.3g)" % (f_over_young, tol, dp), classes)
    if not dp >= -tol:
        return fail(key + ".negative_dp", "dp = %.3g" % dp, classes)
    if dp > tol and not abs(f_over_young) <= tol:
        return fail(key + ".consistency", "dp = %.3g > 0 but f/young = %.3g" % (dp, f_over_young), classes)
    if dp > tol:
        errs[prog["kind"] + ".consistency/eps"] = abs(f_over_young) / eps
    return None


def check_iso_plasticity(prog, call, lib):
    h = call["hyp"]
    mat = call["mat"]
    young = mat["young"]
    lam, mu = bt.lame(young, mat["nu"])
    theta, eps = prog["theta"], prog["eps"]
    classes = ["kind.iso_plasticity", "hyp." + h, "theta<1" if theta < 1 else "theta=1",
               "gen.plastic" if call["plastic"] else "gen.elastic"]
    out = bt.perform(gb, lib, call, 0)
    key = "C41.iso_plasticity"
    if out["rc"] == -1:
        return Result(True, classes=classes + ["outcome.integration_failure", "failure." + prog.get("algo", prog["kind"])])
    errs = {}
    e0 = np.array(call["eel0"])
    deto = np.array(call["deto"])
    eel1 = out["iv"]["ElasticStrain"]
    r = stress_is_hooke(out, lam, mu, eel1, key, classes, errs)
    if r is not None:
        return r
    se = 2 * mu * bt.dev(e0 + theta * deto)
    seq_e = math.sqrt(1.5 * float(np.dot(se, se)))
    dp = bt.get_p(out) - call["p0"]
    if dp > 0.05:
        raise Reject()
    seq_t = max(seq_e - 3 * mu * theta * dp, 0.0)
    f = seq_t - mat["H"] * (call["p0"] + theta * dp) - mat["s0"]
    floor = 64 * U * ((seq_e + mat["s0"] + mat["H"] * (call["p0"] + abs(dp))) / young + call["p0"] + abs(dp))
    r = plastic_conditions(prog, call, dp, f / young, eps, floor, classes, errs, key)
    if r is not None:
        return r
    # normality / radial return: deel = deto - dp*n
    nrm = 1.5 * se / seq_e if seq_e > 1e-8 * young else np.zeros_like(se)
    rr = amax((eel1 - e0) - (deto - dp * nrm))
    et = e0 + theta * deto
    S = max(amax(e0), amax(eel1), amax(deto), call["p0"] + abs(dp)) + abs(dp) * amax(et) / max(amax(bt.dev(et)), 1e-300)
    errs["iso_plasticity.normality/u.S"] = rr / (U * S)
    if not rr <= 64 * U * S:
        return fail(key + ".normality", "deel - (deto - dp n) = %.3g (tol %.3g)" % (rr, 64 * U * S), classes)
    plastic = dp > 1e-8
    return Result(True, nontrivial=plastic, classes=classes + ["outcome.plastic" if plastic else "outcome.elastic"], errs=errs)


def check_implicit_plasticity(prog, call, lib):
    h = call["hyp"]
    mat = call["mat"]
    young = mat["young"]
    lam, mu = bt.lame(young, mat["nu"])
    theta, eps = prog["theta"], prog["eps"]
    classes = ["kind.implicit_plasticity", "hyp." + h, "algo." + prog["algo"], "brick" if prog["brick"] else "nobrick",
               "theta<1" if theta < 1 else "theta=1", "gen.plastic" if call["plastic"] else "gen.elastic"]
    out = bt.perform(gb, lib, call, 0)
    key = "C41.implicit_plasticity"
    if out["rc"] == -1:
        return Result(True, classes=classes + ["outcome.integration_failure", "failure." + prog.get("algo", prog["kind"])])
    errs = {}
    eel1 = out["iv"]["ElasticStrain"]
    r = stress_is_hooke(out, lam, mu, eel1, key, classes, errs)
    if r is not None:
        return r
    dp = bt.get_p(out) - call["p0"]
    if dp > 0.05:
        raise Reject()
    H, s0 = mat["H"], mat["s0"]
    p_t = call["p0"] + theta * dp
    plastic = dp > 10 * eps

    def flow(dp_, seq_t):
        return (seq_t - H * p_t - s0) / young if plastic else dp_
    # normality + strain partition + plane stress condition + (yield condition | dp = 0): the system of the source
    r, info = implicit_residual(prog, call, out, flow, lam, mu, classes, errs, key)
    if r is not None:
        return r
    _, seq_t, _ = info
    f = seq_t - H * p_t - s0
    floor = 64 * U * ((seq_t + s0 + H * p_t) / young + p_t)
    r = plastic_conditions(prog, call, dp, f / young, eps * (len(eel1) + 2), floor, classes, errs, key)
    if r is not None:
        return r
    return Result(True, nontrivial=dp > 1e-8, classes=classes + ["outcome.plastic" if dp > 1e-8 else "outcome.elastic"],
                  errs=errs)


# ---- Runge-Kutta
def norton_rhs(lam, mu, A, m, rate, n):
    def f(y):
        eel = y[:n]
        sig = bt.hooke(lam, mu, eel)
        s = bt.seq_of(sig)
        nrm = 1.5 * bt.dev(sig) / s if s > 1e-6 else np.zeros(n)
        dp = A * s ** m
        devp = dp * nrm
        return np.concatenate([rate - devp, [dp], devp])
    return f


def rk_fixed(f, y0, dt, scheme):
    k1 = dt * f(y0)
    if scheme == "euler":
        return [y0 + k1]
    if scheme == "rk2":
        # any consistent two-stage second order scheme is accepted: midpoint, Heun, Ralston
        mid = y0 + dt * f(y0 + 0.5 * k1)
        heun = y0 + 0.5 * (k1 + dt * f(y0 + k1))
        ral = y0 + 0.25 * k1 + 0.75 * dt * f(y0 + (2.0 / 3.0) * k1)
        return [mid, heun, ral]
    k2 = dt * f(y0 + 0.5 * k1)
    k3 = dt * f(y0 + 0.5 * k2)
    k4 = dt * f(y0 + k3)
    return [y0 + (k1 + 2 * k2 + 2 * k3 + k4) / 6]


def check_rk_norton(prog, call, lib):
    from scipy.integrate import solve_ivp
    h, n = call["hyp"], bt.SSIZE[call["hyp"]]
    mat = call["mat"]
    young = mat["young"]
    lam, mu = bt.lame(young, mat["nu"])
    algo, eps = prog["algo"], prog["eps"]
    classes = ["kind.rk_norton", "hyp." + h, "algo." + algo]
    out = bt.perform(gb, lib, call, 0)
    key = "C41.rk_norton." + algo
    if out["rc"] == -1:
        return Result(True, classes=classes + ["outcome.integration_failure", "failure." + prog.get("algo", prog["kind"])])
    errs = {}
    eel1 = out["iv"]["ElasticStrain"]
    r = stress_is_hooke(out, lam, mu, eel1, key, classes, errs)
    if r is not None:
        return r
    dt = call["dt"]
    rate = np.array(call["deto"]) / dt
    y0 = np.concatenate([call["eel0"], [call["p0"]], call["evp0"]])
    y1 = np.concatenate([eel1, [bt.get_p(out)], out["iv"]["ViscoplasticStrain"]])
    f = norton_rhs(lam, mu, mat["A"], mat["m"], rate, n)
    dp = y1[n] - y0[n]
    if dp > 0.05:
        raise Reject()
    scale = max(amax(y0), amax(y1), 1e-300)
    if algo not in bt.RK_ADAPTIVE:
        refs = rk_fixed(f, y0, dt, algo)
        err = min(amax(y1 - r_) for r_ in refs)
        # same arithmetic, different association order; the map is a few evaluations of a smooth function
        tol = 1e-11 * scale * (1 + call["stiffness_number"]) ** 4
        errs["rk_norton.%s.tableau/tol" % algo] = err / tol
        if not err <= tol:
            return fail(key + ".tableau", "one %s step from the initial state gives %r, returned %r (err %.3g tol %.3g)" % (
                algo, refs[0].tolist(), y1.tolist(), err, tol), classes)
        return Result(True, nontrivial=dp > 1e-8, classes=classes + ["outcome.ok"], errs=errs)
    # adaptive schemes: tight reference solution of the same ODE, in scaled variables
    sc = np.concatenate([np.full(n, 1e-3), [1e-3], np.full(n, 1e-3)])

    def g(t, z):
        return f(z * sc) / sc
    sol = solve_ivp(g, (0.0, dt), y0 / sc, method="Radau", rtol=1e-11, atol=1e-13)
    if not sol.success:
        raise Reject()
    yref = sol.y[:, -1] * sc
    if algo == "rkCastem":
        sig0 = bt.hooke(lam, mu, np.array(call["eel0"]))
        errabs = eps * max(1e-3 * young, math.sqrt(float(np.dot(sig0, sig0))))

        def dist(a, b):
            d = bt.hooke(lam, mu, a[:n]) - bt.hooke(lam, mu, b[:n])
            return math.sqrt(float(np.dot(d, d))) / errabs
    else:
        def dist(a, b):
            return float(np.sum(np.abs(a - b))) / (2 * n + 1) / eps
    # The declared tolerance bounds the *local* error estimate of each sub-step (an O(h^(q+1)) quantity, q=2 for
    # rk42 and rkCastem, q=4 for rk54); the step controller then needs about (E1/eps)^(1/(q+1)) sub-steps, E1
    # being the error of one order-q step over the whole increment, which the harness measures itself.
    q = 4 if algo == "rk54" else 2
    E1 = dist(rk_fixed(f, y0, dt, "rk4" if q == 4 else "rk2")[0], yref)
    nsteps = max(1.0, E1 ** (1.0 / (q + 1)), call["stiffness_number"]) if math.isfinite(E1) else 1e3
    err = dist(y1, yref)
    errs["rk_norton.%s.global_error/(eps.nsteps)" % algo] = err / nsteps
    classes.append("rk.substeps~%d" % (10 ** int(math.log10(nsteps))))
    if not err <= RK_FACTOR * nsteps:
        return fail(key + ".global_error", "distance to the reference solution = %.3g x eps (eps=%g, allowed %g x %.1f sub-steps): got %r ref %r" % (
            err, eps, RK_FACTOR, nsteps, y1.tolist(), yref.tolist()), classes)
    return Result(True, nontrivial=dp > 1e-8, classes=classes + ["outcome.ok"], errs=errs)


CHECK = {"hooke_default": check_elastic, "hooke_brick": check_elastic, "implicit_norton": check_implicit_norton,
         "rk_norton": check_rk_norton, "iso_creep": check_iso_creep, "implicit_plasticity": check_implicit_plasticity,
         "iso_plasticity": check_iso_plasticity}


def check_repo(prog, call, lib):
    """repository behaviours, unchanged: same discretised equations as the corresponding template"""
    q = dict(prog)
    if prog["family"] == "creep" and prog.get("implicit"):
        q.update({"brick": False, "algo": prog["name"]})
        r = check_implicit_norton(q, call, lib)
    elif prog["family"] == "creep":
        r = check_iso_creep(q, call, lib)
    else:
        r = check_iso_plasticity(q, call, lib)
    r.classes = list(r.classes or []) + ["repo." + prog["name"]]
    if not r.ok:
        r.key = r.key.replace("C41.", "C41.repo.", 1)
    return r


CHECK["repo"] = check_repo


def check_case_(case):
    prog, call = case["prog"], case["call"]
    lib, err = bt.build(gb, prog)
    if lib is None:
        return Result(False, "C41.harness.build", "program does not build: " + err)
    if call is None:
        raise Reject()
    return CHECK[prog["kind"]](prog, call, lib)


def check_case(case):
    """a bug of the harness must be loud, not a silently discarded case"""
    try:
        return check_case_(case)
    except Reject:
        raise
    except Exception as e:  # noqa
        import traceback
        return Result(False, "C41.harness.exception", traceback.format_exc()[-1500:])


def smax_of(prog):
    if prog["kind"] != "rk_norton":
        return None
    return 20.0 if prog["algo"] in bt.RK_ADAPTIVE else 1.5


# quick tier composition: (kind, number of programs, share of the case budget)
PLAN = [("hooke_default", 2, 0.10), ("hooke_brick", 2, 0.10), ("implicit_norton", 3, 0.25), ("rk_norton", 3, 0.12),
        ("iso_creep", 1, 0.10), ("implicit_plasticity", 2, 0.20), ("iso_plasticity", 1, 0.13),
        # one of ImplicitNorton.mfront / Norton.mfront / Plasticity.mfront, unchanged but for @ModellingHypotheses
        ("repo", 1, 0.07)]
REPO_C41 = ["ImplicitNorton", "Norton", "Plasticity"]


def main():
    replay_main({k: check_case for k in list(bt.KINDS) + ["repo"]})
    u = Unit("C41_integration")
    cases = param("cases", 3000)
    nprog = param("programs", 14)
    rng = random.Random(SEED)
    progs = []
    scale = nprog / 14.0
    for kind, k, share in PLAN:
        k = max(1, int(round(k * scale)))
        for i in range(k):
            if kind == "repo":
                entry = [e for e in bt.REPO_BEHAVIOURS if e["name"] == REPO_C41[(SEED + i) % len(REPO_C41)]][0]
                hyps = entry["hyps"]
                sel = sorted({hyps[(SEED + i) % len(hyps)]} | set(entry.get("needs", [])), key=hyps.index)
                progs.append((bt.repo_program(REPO, entry, sel), max(5, int(cases * share / k))))
                continue
            # the index rotates algorithms / hypotheses; the seed shifts the rotation
            p = bt.make_program(bt.random_description(rng, kind, SEED * 3 + i))
            p["name"] = "%ss%d" % (p["name"], SEED % 100000)
            p = bt.make_program(p)
            progs.append((p, max(5, int(cases * share / k))))
    built = parallel_map(lambda pc: bt.build(gb, pc[0]), progs, jobs=min(JOBS, 16))
    for (p, ncases), (lib, err) in zip(progs, built):
        if lib is None:
            u.fail(p["kind"], "C41.harness.build", "generated program rejected by mfront/g++: " + err,
                   {"prog": p, "call": None})
            continue
        strat = bt.call_strategy(p, smax=smax_of(p)).map(lambda c, p=p: {"prog": p, "call": c})
        t0 = time.time()
        run_hypothesis(u, p["kind"], strat, check_case, max_examples=ncases, seed_offset=len(p["name"]) + sum(map(ord, p["name"])))
        print("[C41] %s %s %s: %d cases in %.1f s" % (p["name"], p.get("algo", ""), "+".join(p["hyps"]), ncases, time.time() - t0), flush=True)
    u.extra["programs"] = [{k: v for k, v in p.items() if k != "src"} for p, _ in progs]
    sys.exit(u.finish())


if __name__ == "__main__":
    main()
