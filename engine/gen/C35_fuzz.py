#!/usr/bin/env python3-vt
"""C35 - mfront (every interface compiled in) and mfront-query never crash on
any input file.

Two engines over the repository's .mfront corpus (grouped by DSL) and the
keyword dictionary of the tree under test (`mfront --help-keywords-list=<dsl>`
for every `mfront --list-dsl`, + bricks / criteria / flows / rules names):

 sub "fuzz"    engine A: in-process coverage-guided libFuzzer campaign
               (engine/fuzz/C35_mfront_fuzz.cxx + grammar-aware custom mutator)
               against the ASan+UBSan libraries of /verif/build/asan.  Every
               crash-/leak-/timeout- artifact is re-run out of process on the
               real `mfront` / `mfront-query` ASan executables (engine B); only a
               3/3 confirmed outcome of class "violation" is reported.
 sub "mutants" engine B: Hypothesis-generated mutants of corpus files (same
               mutation operators, engine/gen/C35_mutlib.py) run through
               `mfront --interface=<i> f.mfront` or `mfront-query <queries>
               f.mfront` (real ASan executables, scratch directory, 30 s of CPU time).

Outcome classes: ok / reported error (exit status > 0; for mfront-query also
SIGABRT + "terminate called after throwing ... what():" since its main lets
exceptions reach std::terminate under libstdc++) / violation (sanitizer
report, other signal, abort without exception message, CPU time limit reached
3/3 -- limits are CPU time (RLIMIT_CPU), not wall clock, so that a loaded
machine cannot produce a verdict).

Non-trivial: the input passes the DSL selection and at least 3 further
keywords are processed (keywords located before the line of the reported
error, all of them when the analysis succeeds).

Replay: `--replay f`: f is a JSON replay written by this unit, or any raw input
file (libFuzzer artifact, replays/C35/known/*.mfront): the full battery of
commands is run on it; exit 1 iff a violation is observed.
"""
import json
import os
import random
import re
import shutil
import sys
import threading
import time

from verifpy import (Unit, Result, Reject, run_hypothesis, SEED, TIER, WORK, REPO, VERIF, JOBS, REPLAY_DIR, KNOWN,
                     param, tool, run, parallel_map, replay_requested, load_replay)
import fuzzpy
import C35_mutlib as ml

ID = "C35"
UNIT = "C35_fuzz"
FUZZ_SRC = os.path.join(VERIF, "engine", "fuzz", "C35_mfront_fuzz.cxx")
MAX_LEN = 8192

# query bundles: (type, args).  The same table is given to the libFuzzer target (VERIF_FUZZ_QUERIES)
QUERIES = [
    ("b", "--behaviour-name --class-name --author --unit-system --description --date --material --library --type "
          "--symmetry --elastic-symmetry --list-dependencies"),
    ("b", "--material-properties --state-variables --auxiliary-state-variables --external-state-variables "
          "--integration-variables --persistent-variables --local-variables --parameters --static-variables"),
    ("b", "--supported-modelling-hypotheses --gradients --thermodynamic-forces --tangent-operator-blocks --attributes "
          "--code-blocks --parameters-file --initialize-function-variables --initialize-functions "
          "--post-processing-variables --post-processings --is-strain-measure-defined --strain-measure"),
    ("b", "--has-crystal-structure --crystal-structure --slip-systems --slip-systems-by-index --orientation-tensors "
          "--orientation-tensors-by-index --orientation-tensors-by-slip-system --climb-tensors --climb-tensors-by-index "
          "--climb-tensors-by-slip-system --interaction-matrix --dislocations-mean-free-path-interaction-matrix "
          "--interaction-matrix-structure"),
    ("b", "--interface=generic --generated-sources --generated-headers --cppflags --libraries-dependencies --specific-targets"),
    ("b", "--modelling-hypothesis=Tridimensional --material-properties --state-variables --parameters --code-blocks --attributes"),
    ("b", "--modelling-hypothesis=PlaneStress --external-state-variables --local-variables --persistent-variables"),
    ("mp", "--law-name --class-name --author --unit-system --description --date --material --library --output --inputs "
           "--state-variables --parameters --parameters-file --list-dependencies"),
    ("mp", "--interface=c --generated-sources --generated-headers --cppflags --libraries-dependencies --specific-targets"),
    ("m", "--model-name --class-name --author --unit-system --description --date --material --library --outputs "
          "--state-variables --inputs --external-state-variables --parameters --list-dependencies"),
    ("m", "--interface=generic --generated-sources --generated-headers --cppflags --libraries-dependencies --specific-targets"),
]

TYPE_OF_DSL = {}  # dsl name -> "b" | "mp" | "m"


# ------------------------------------------------------------------ known findings (mirror of engine/fuzz/C35_known.hxx)
def known_class(text):
    """key of the recorded finding the input belongs to (None otherwise)"""
    return None


# ------------------------------------------------------------------ tree-derived data
def _list(args):
    rc, so, se = run([tool("mfront")] + args, timeout=120)
    return [l[2:].split()[0] for l in so.splitlines() if l.startswith("- ") and len(l) > 2]


def dsl_names():
    rc, so, se = run([tool("mfront"), "--list-dsl"], timeout=120)
    return [l[2:].split(":")[0].strip() for l in so.splitlines() if l.startswith("- ")]


def build_dictionary(workdir):
    """keywords of every DSL of the tree under test + names harvested from the factories"""
    dsls = dsl_names()
    if not dsls:
        raise SystemExit("C35: `mfront --list-dsl` returned nothing")

    def kw(d):
        rc, so, se = run([tool("mfront"), "--help-keywords-list=" + d], timeout=120)
        return d, [w for w in re.findall(r"@[A-Za-z0-9_]+", so)]
    per = dict(parallel_map(kw, dsls, jobs=min(8, JOBS)))
    keywords = sorted(set(k for v in per.values() for k in v))
    names = set(dsls)
    for a in ("--list-behaviour-bricks", "--list-stress-potentials", "--list-inelastic-flows", "--list-stress-criteria",
              "--list-isotropic-hardening-rules", "--list-kinematic-hardening-rules"):
        names.update(_list([a]))
    inter = {"b": _list(["--list-behaviour-interfaces"]), "mp": _list(["--list-material-property-interfaces"]),
             "m": _list(["--list-model-interfaces"])}
    for d in dsls:
        k = set(per.get(d, []))
        TYPE_OF_DSL[d] = "mp" if "@Law" in k else ("m" if ("@Model" in k and "@Behaviour" not in k) else "b")
    kwf = os.path.join(workdir, "keywords.txt")
    with open(kwf, "w") as f:
        f.write("\n".join(keywords) + "\n")
    dictf = os.path.join(workdir, "mfront.dict")
    with open(dictf, "w") as f:
        for w in keywords + sorted(names) + ["Tridimensional", "PlaneStress", "AxisymmetricalGeneralisedPlaneStrain", "stress",
                                             "StrainStensor", "real", "Stensor", "{", "}", ";", "[", "]", "<", ">", '"', "/*", "*/", "//"]:
            f.write(ml.dict_entry(w))
    qf = os.path.join(workdir, "queries.txt")
    with open(qf, "w") as f:
        for t, a in QUERIES:
            f.write(t + " " + a + "\n")
    return keywords, kwf, dictf, qf, inter


_DSL_RX = re.compile(r"@(?:DSL|Parser)\s+([A-Za-z0-9_]+)")


def corpus():
    """{dsl name: [paths]} of the repository .mfront files not larger than MAX_LEN"""
    groups = {}
    for dp, dn, fn in os.walk(REPO):
        dn[:] = sorted(d for d in dn if d not in (".git", "_build", "build"))
        for f in sorted(fn):
            if not f.endswith(".mfront"):
                continue
            p = os.path.join(dp, f)
            try:
                if os.path.getsize(p) > MAX_LEN:
                    continue
                t = ml.read_text(p)
            except OSError:
                continue
            if ml.outside_domain(t):
                continue
            m = _DSL_RX.search(t)
            groups.setdefault(m.group(1) if m else "(default)", []).append(os.path.relpath(p, REPO))
    return groups


def sample_seeds(groups, per_group, rnd, small_first=True):
    out = []
    for g in sorted(groups):
        files = list(groups[g])
        rnd.shuffle(files)
        if small_first:
            files.sort(key=lambda p: os.path.getsize(os.path.join(REPO, p)) > 3000)
        out += files[:per_group]
    return out


def dsl_type_of_text(text):
    m = _DSL_RX.search(text)
    return TYPE_OF_DSL.get(m.group(1), "b") if m else "b"


# ------------------------------------------------------------------ engine B
def command(cfg):
    """command line (without the file) of a configuration"""
    if cfg["tool"] == "mfront":
        cmd = [fuzzpy.asan_tool("mfront")]
        if cfg.get("interface"):
            cmd.append("--interface=" + cfg["interface"])
    else:
        cmd = [fuzzpy.asan_tool("mfront-query")] + cfg["queries"].split()
    return cmd + list(cfg.get("flags", []))


def run_cfg(text, cfg, timeout=30):
    return ml.run_tool(command(cfg), text, "f.mfront", allow_terminate=(cfg["tool"] == "query"), timeout=timeout)


def nontrivial(text, out):
    if out.cls == "ok":
        return ml.keywords_before(text, -1) >= 4
    if out.cls == "error":
        if "MFrontBase::getDSL" in out.stderr:
            return False
        l = ml.error_line(out.stderr)
        return ml.keywords_before(text, l if l > 0 else -1) >= 4
    return False


def full_battery(inter):
    cfgs = []
    for t in ("b", "mp", "m"):
        for i in inter[t]:
            c = {"tool": "mfront", "interface": i}
            if c not in cfgs:
                cfgs.append(c)
    cfgs.append({"tool": "mfront", "interface": ""})
    cfgs.append({"tool": "mfront", "interface": "generic", "flags": ["--pedantic"]})
    cfgs.append({"tool": "mfront", "interface": "generic", "flags": ["--debug"]})
    cfgs.append({"tool": "mfront", "interface": "generic", "flags": ["--verbose=debug"]})
    for t, a in QUERIES:
        cfgs.append({"tool": "query", "queries": a})
        cfgs.append({"tool": "query", "queries": a, "flags": ["--verbose=debug"]})
    return cfgs


def battery_violations(text, inter, jobs):
    """run every configuration once; returns [(cfg, Outcome)] of the non ok/error outcomes"""
    cfgs = full_battery(inter)
    outs = parallel_map(lambda c: (c, run_cfg(text, c)), cfgs, jobs=jobs)
    return [(c, o) for c, o in outs if o.cls in ("violation", "timeout")]  # "starved" is not a verdict


def confirm_timeout(text, cfg):
    if ml.has_large_number(text):
        return False  # work proportional to a number of the input is not a hang
    for _ in range(3):
        if run_cfg(text, cfg, timeout=60).cls != "timeout":
            return False
    return True


class State:
    keywords = []
    inter = {}
    unit = None


def check_mutant(case):
    """engine B on one Hypothesis case; pure function of the case (and of the tree)"""
    if case.get("seed"):
        try:
            text = ml.read_text(os.path.join(REPO, case["seed"]))
            donor = ml.read_text(os.path.join(REPO, case["donor"])) if case.get("donor") else ""
        except OSError:
            raise Reject()
        if "cut" in case:
            text = ml.cut_at_token(text, case["cut"])
        text = ml.apply_ops(text, case["ops"], State.keywords, donor, MAX_LEN * 2)
    elif "text" in case:
        text = case["text"]
    else:
        text = ml.random_bytes_text(case["mode"], case["mode"] // 7)
        text = ml.apply_ops(text, case["ops"], State.keywords, "", MAX_LEN * 2)
    if ml.outside_domain(text):
        raise Reject()
    k = known_class(text)
    if k is not None and k in KNOWN:
        return Result(False, key=k, msg="input of the recorded class " + k)
    cfg = case.get("cfg")
    if cfg is None:
        t = dsl_type_of_text(text)
        m = case["mode"]
        if m % 3 == 0:
            qs = [a for tt, a in QUERIES if tt == t]
            cfg = {"tool": "query", "queries": qs[(m // 3) % len(qs)]}
        else:
            il = State.inter.get(t) or ["generic"]
            cfg = {"tool": "mfront", "interface": il[(m // 3) % len(il)]}
            fl = (m // 64) % 16
            if fl < 3:
                cfg["flags"] = [["--pedantic"], ["--debug"], ["--verbose=debug"]][fl]
    out = run_cfg(text, cfg)
    classes = ["tool." + cfg["tool"], "outcome." + out.cls, "dsltype." + dsl_type_of_text(text)]
    if out.cls == "starved":
        return Result(True, classes=classes)
    if out.cls == "timeout":
        if confirm_timeout(text, cfg):
            key, msg = "C35.timeout." + cfg["tool"], "no termination within 60 s of CPU time (3/3): " + " ".join(command(cfg))
            if State.unit is None:
                return Result(False, key=key, msg=msg)
            # recorded as is: shrinking a hang would cost minutes per step
            State.unit.fail("mutants", key, msg, dict(case, cfg=cfg))
            classes.append("timeout_confirmed")
        else:
            classes.append("timeout_not_reproduced")
        return Result(True, classes=classes)
    if out.cls == "violation":
        return Result(False, key="C35." + out.key, msg="%s: %s\n%s\n%s" % (" ".join(command(cfg)), out.detail, out.report[:2500], out.stderr[-600:]))
    return Result(True, nontrivial=nontrivial(text, out), classes=classes, sample=text[:300])


def mutant_strategy(groups):
    from hypothesis import strategies as st
    files = sorted(p for g in groups.values() for p in g)
    # one representative list per DSL so that every DSL is drawn often
    by_group = [sorted(v) for k, v in sorted(groups.items())]
    seed = st.one_of(st.sampled_from(files), st.sampled_from(by_group).flatmap(st.sampled_from))
    mutated = st.fixed_dictionaries({"seed": seed, "donor": st.sampled_from(files), "ops": ml.ops_strategy(),
                                     "mode": st.integers(0, 10 ** 6)})
    noise = st.fixed_dictionaries({"ops": ml.ops_strategy(), "mode": st.integers(0, 10 ** 6)})
    # an unmodified corpus file cut after its k-th token (k uniform over the whole file)
    prefix = st.fixed_dictionaries({"seed": seed, "cut": st.integers(0, 4000), "ops": st.just([]), "mode": st.integers(0, 10 ** 6)})
    return st.one_of(*([mutated] * 6 + [prefix] * 3 + [noise]))


class LockedUnit(Unit):
    """Unit whose accounting can be called from several Hypothesis threads"""

    def __init__(self, name):
        Unit.__init__(self, name)
        self._lk = threading.RLock()

    def case(self, *a, **k):
        with self._lk:
            return Unit.case(self, *a, **k)

    def discard(self, *a, **k):
        with self._lk:
            return Unit.discard(self, *a, **k)

    def fail(self, *a, **k):
        with self._lk:
            return Unit.fail(self, *a, **k)


# ------------------------------------------------------------------ engine A
def target_flags():
    a = fuzzpy.ASAN
    objs = sorted(os.path.join(a, "mfront-query", "src", "CMakeFiles", "mfront-query.dir", o)
                  for o in ("BehaviourQuery.cxx.o", "MaterialPropertyQuery.cxx.o", "ModelQuery.cxx.o", "QueryHandlerBase.cxx.o",
                            "QueryUtilities.cxx.o"))
    missing = [o for o in objs if not os.path.exists(o)]
    if missing:
        raise SystemExit("C35: %s not built (ninja_asan must list mfront-query)" % missing[0])
    return objs


LIBS = ["TFELMFront", "MFrontLogStream", "TFELMaterial", "TFELMathParser", "TFELMath", "TFELGlossary", "TFELSystem",
        "TFELUtilities", "TFELUnicodeSupport", "TFELException", "TFELConfig"]


def build_cached(src, name, libs, includes, extra, deps):
    """fuzzpy.build_target + a content-hash stamp (the target only depends on its own sources, on the
    TFEL headers and on the objects linked in; the instrumented libraries are loaded dynamically)"""
    import hashlib
    h = hashlib.sha1()
    for p in [src] + list(deps):
        h.update(open(p, "rb").read())
    for o in extra:
        st = os.stat(o)
        h.update(("%s %d %d" % (o, st.st_size, st.st_mtime_ns)).encode())
    for root in (os.path.join(REPO, "mfront", "include"), os.path.join(REPO, "mtest", "include"),
                 os.path.join(REPO, "mfront-query", "include"), os.path.join(REPO, "include", "TFEL", "Utilities"),
                 os.path.join(REPO, "include", "TFEL", "Tests")):
        for dp, dn, fn in os.walk(root):
            dn.sort()
            for f in sorted(fn):
                st = os.stat(os.path.join(dp, f))
                h.update(("%s %d %d" % (f, st.st_size, st.st_mtime_ns)).encode())
    h.update(fuzzpy.ASAN.encode())  # the run path of the target names the tree
    key = h.hexdigest()
    exe = os.path.join(VERIF, "build", "bin", name)
    stamp = exe + ".stamp"
    import fcntl
    os.makedirs(os.path.dirname(exe), exist_ok=True)
    with open(exe + ".lock", "w") as lk:  # shards build the same target
        fcntl.flock(lk, fcntl.LOCK_EX)
        try:
            if os.path.exists(exe) and os.path.exists(stamp) and open(stamp).read() == key:
                return exe, ""
            exe, err = fuzzpy.build_target(src, name, libs, includes=includes, extra_flags=extra)
            if exe:
                with open(stamp, "w") as f:
                    f.write(key)
            return exe, err
        finally:
            fcntl.flock(lk, fcntl.LOCK_UN)


def build():
    fz = os.path.join(VERIF, "engine", "fuzz")
    return build_cached(FUZZ_SRC, UNIT + "_target", LIBS, [os.path.join(REPO, "mfront-query", "include"), fz], target_flags(),
                        [os.path.join(fz, "C35_grammar_mutator.hxx"), os.path.join(fz, "C35_known.hxx"),
                         os.path.join(VERIF, "engine", "common", "fuzzstats.hxx")])


FUZZ_ASAN = ("detect_leaks=0:abort_on_error=0:symbolize=1:detect_odr_violation=0:handle_abort=1:quarantine_size_mb=16:"
             "malloc_context_size=6:allocator_may_return_null=1:max_malloc_fill_size=268435456:malloc_fill_byte=190")


def run_campaigns(exe, seeds_per_job, runs, kwf, dictf, qf, results):
    def one(j):
        r = fuzzpy.campaign(exe, [os.path.join(REPO, s) for s in seeds_per_job[j]], runs, jobs=1, seed=SEED * 64 + j,
                            max_len=MAX_LEN, timeout=param("unit_timeout", 25), rss_mb=3072, dict_path=dictf,
                            extra_args=["-detect_leaks=0", "-close_fd_mask=1"], tag="a%d" % j,
                            wall_timeout=param("wall_timeout", 3600),
                            env={"VERIF_FUZZ_KEYWORDS": kwf, "VERIF_FUZZ_QUERIES": qf, "ASAN_OPTIONS": FUZZ_ASAN,
                                 "VERIF_FUZZ_KNOWN": ",".join(sorted(KNOWN)),
                                 "VERIF_WORK": os.path.join(WORK, "scratch")})
        results[j] = r
    os.makedirs(os.path.join(WORK, "scratch"), exist_ok=True)
    th = [threading.Thread(target=one, args=(j,)) for j in range(len(seeds_per_job))]
    for t in th:
        t.start()
    for t in th:
        t.join()


def confirm_artifact(u, art, inter, jobs):
    """engine B on a libFuzzer artifact; returns True when a violation has been recorded"""
    kind = fuzzpy.artifact_kind(art)
    data = open(art, "rb").read()
    text = data.decode("latin-1")
    s = u._sub("fuzz")
    if kind in ("oom", "slow-unit", "other"):
        s["classes"]["artifact.noise." + kind] = s["classes"].get("artifact.noise." + kind, 0) + 1
        return False
    bad = battery_violations(text, inter, jobs)
    for cfg, o in bad:
        if o.cls == "violation":
            ok, last = ml.confirm(lambda: run_cfg(text, cfg))
            if ok:
                fuzzpy.save_artifact(u, art, REPLAY_DIR)
                u.fail("fuzz", "C35." + last.key,
                       "%s: %s\n%s\n%s" % (" ".join(command(cfg)), last.detail, last.report[:2500], last.stderr[-600:]),
                       {"text": text, "cfg": cfg}, ext=".json")
                return True
        elif o.cls == "timeout" and confirm_timeout(text, cfg):
            fuzzpy.save_artifact(u, art, REPLAY_DIR)
            u.fail("fuzz", "C35.timeout." + cfg["tool"], "no termination within 60 s of CPU time (3/3): " + " ".join(command(cfg)),
                   {"text": text, "cfg": cfg}, ext=".json")
            return True
    s["classes"]["artifact.not_confirmed." + kind] = s["classes"].get("artifact.not_confirmed." + kind, 0) + 1
    return False


# ------------------------------------------------------------------ replay
def replay(path):
    workdir = os.path.join(WORK, "setup")
    os.makedirs(workdir, exist_ok=True)
    State.keywords, kwf, dictf, qf, State.inter = build_dictionary(workdir)
    case = None
    try:
        d = load_replay(path)
        case = d["case"]
    except (ValueError, KeyError, UnicodeDecodeError):
        pass
    if case is not None and ("cfg" in case or "seed" in case or "ops" in case):
        try:
            r = check_mutant(case)
        except Reject:
            print("REPLAY-DISCARDED")
            return 0
        if r.ok:
            print("REPLAY-PASSES")
            return 0
        print("REPLAY-FAILS key=%s msg=%s" % (r.key, str(r.msg)[:3000]))
        return 1
    text = ml.read_text(path)
    bad = [(c, o) for c, o in battery_violations(text, State.inter, min(8, JOBS)) if o.cls == "violation"]
    for c, o in bad[:1]:
        print("REPLAY-FAILS key=C35.%s cmd=%s\n%s\n%s" % (o.key, " ".join(command(c)), o.report[:3000], o.stderr[-800:]))
        return 1
    print("REPLAY-PASSES")
    return 0


# ------------------------------------------------------------------ main
def main():
    rp = replay_requested()
    if rp:
        sys.exit(replay(rp))
    u = LockedUnit(UNIT)
    State.unit = u
    t0 = time.time()
    workdir = os.path.join(WORK, "setup")
    os.makedirs(workdir, exist_ok=True)
    State.keywords, kwf, dictf, qf, State.inter = build_dictionary(workdir)
    groups = corpus()
    rnd = random.Random(SEED)
    only = os.environ.get("VERIF_ONLY", "")
    jobs = max(1, int(param("jobs", JOBS)))
    a_jobs = max(1, min(int(param("fuzz_jobs", 8)), jobs))
    b_jobs = max(1, min(int(param("b_jobs", 8)), jobs))
    exe = None
    if only in ("", "fuzz"):
        exe, err = build()
        if exe is None:
            print("C35: the libFuzzer target does not compile:\n" + err)
            sys.exit(2)
    u.extra["build_s"] = round(time.time() - t0, 1)
    u.extra["dictionary_keywords"] = len(State.keywords)
    u.extra["corpus_groups"] = {k: len(v) for k, v in sorted(groups.items())}

    results = {}
    ta = None
    if exe:
        per_job = []
        for j in range(a_jobs):
            per_job.append(sample_seeds(groups, int(param("seeds_per_group", 1)), random.Random(SEED * 977 + j)))
        ta = threading.Thread(target=run_campaigns, args=(exe, per_job, int(param("runs", 250)), kwf, dictf, qf, results))
        ta.start()

    # engine B: Hypothesis mutants, several threads
    if only in ("", "mutants"):
        n = int(param("cases", 240))
        strat = mutant_strategy(groups)
        th = []
        for k in range(b_jobs):
            share = n // b_jobs + (1 if k < n % b_jobs else 0)
            if share == 0:
                continue
            t = threading.Thread(target=run_hypothesis, args=(u, "mutants", strat, check_mutant, share), kwargs={"seed_offset": 7919 * k})
            t.start()
            th.append(t)
        for t in th:
            t.join()
    u.extra["mutants_s"] = round(time.time() - t0, 1)
    if ta:
        ta.join()
        tf = time.time()
        execs = 0
        for j, r in sorted(results.items()):
            fuzzpy.merge_stats(u, "fuzz", r["stats"], r["executions"])
            execs += r["executions"]
            for art in r["artifacts"]:
                confirm_artifact(u, art, State.inter, jobs)
        s = u._sub("fuzz")
        ex = sum(v for k, v in s["classes"].items() if k.startswith("excluded_known."))
        s["excluded_known"] += ex
        s["discarded"] += s["classes"].get("excluded_domain.path", 0)
        u.extra["fuzz_executions"] = execs
        u.extra["fuzz_wall_s"] = round(tf - t0 - u.extra["build_s"], 1)
        u.extra["confirm_s"] = round(time.time() - tf, 1)
        shutil.rmtree(os.path.join(WORK, "scratch"), ignore_errors=True)
    sys.exit(u.finish())


if __name__ == "__main__":
    main()
