#!/usr/bin/env python3-vt
"""C52 - tfel-check verdicts are independent of parallelism.

A case is a generated directory tree of 1..24 `.check` files (+ the list of
tfel-check invocations to try on it).  Every outcome is known by construction:

  commands (ProcessManager splits on blanks, no quoting: a helper script is used)
     sh run.sh <tag> <exit code> <sleep>          ok  <=> exit code == 0
     ... {expected_output: "<tag>"}               ok  <=> exit code == 0 (the script echoes <tag>)
     ... {expected_output: "something-else"}      failed
     ... {shall_fail: true}                       ok  <=> exit code != 0   (docs/web/tfel-check.md)
     true / false
  comparisons (Absolute, 1e-3): a file with itself (SUCCESS) or with a file that differs by 1 (FAILED)
  file verdict (docs/web/tfel-check.md, "Commands failure"): FAILED iff a comparison failed, or a
     command failed and (--discard-commands-failure=false or the file declares no comparison);
     the default is --discard-commands-failure=true.

Each invocation `tfel-check --jobs=N --discard-jobs-limit=true [--discard-commands-failure=B]
[--synchronize-terminal-output=B]` runs in a fresh copy of the tree under a CPU affinity
restricted to 1, 2 or all cores (sched_setaffinity), commands sleep 0..50 ms.  Oracle:
  * the process ends by itself with exit status 0 or 1 (no signal, no deadlock);
  * exit status != 0  <=>  at least one file is expected to fail;
  * tfel-check.log is a sequence of well formed blocks (entering directory / beginning of test /
    Exec-i and Compare-i lines in order / end of test / ======), exactly one per file, nothing of
    another file in between, with the expected verdict on every line;
  * every command ran exactly once (its tag is exactly once in <test>-Exec-i.out);
  * the multiset of (file, verdict) is the same for all invocations with the same discard rule.
Time is never an oracle.  A deadlock is only declared when the process has no child left, all its
threads sleep and its CPU time did not move for 5 s; a hard limit of 600 s is "inconclusive".
Schedules are sampled: `repeat` re-runs every invocation (committed replays of schedule dependent
findings use repeat >> 1 so that they reproduce).
"""
import os
import re
import shutil
import subprocess
import sys
import time

from verifpy import (Unit, Result, Reject, run_hypothesis, replay_main, WORK, SEED, KNOWN, param, tool)

ANSI = re.compile(r"\x1b\[[0-9;]*m|\x0f")
_counter = [0]
RUN_SH = "sleep $3\necho $1\nexit $2\n"
K_RACE = "C52.parallel.crash_or_hang"
K_SHALL = "C52.command.shall_fail_exit0_success"
K_STATUS = "C52.parallel.command_status_race"


# ------------------------------------------------------------------ tree
def cmd_line(c):
    if c["kind"] in ("true", "false"):
        return '@Command "%s";' % c["kind"]
    base = '@Command "sh run.sh %s %d %s"' % (c["tag"], c["code"], c["sleep"])
    if c["kind"] == "plain":
        return base + ";"
    if c["kind"] == "expected":
        return base + ' {expected_output: "%s"};' % c["tag"]
    if c["kind"] == "expected_wrong":
        return base + ' {expected_output: "not-%s"};' % c["tag"]
    if c["kind"] == "shall_fail":
        return base + " {shall_fail: true};"
    raise ValueError(c["kind"])


def cmd_ok(c, tool_reading=False):
    """documented outcome of a command (tool_reading: with the known deviation K_SHALL applied)"""
    k = c["kind"]
    if k == "true":
        return True
    if k == "false":
        return False
    if k == "plain" or k == "expected":
        return c["code"] == 0
    if k == "expected_wrong":
        return False
    if k == "shall_fail":
        return True if tool_reading else c["code"] != 0
    raise ValueError(k)


def check_text(f):
    l = [cmd_line(c) for c in f["cmds"]]
    if f["cmps"]:
        l += ["@Precision 1.e-3;"]
    for ok in f["cmps"]:
        # @TestType is repeated: comparisons declared under one @TestType share one Comparison object whose
        # failure flag is sticky (finding C51.shared_testtype.failed_after_failure), which is not C52's subject
        l.append("@TestType Absolute;")
        l.append("@Test 'v.txt' '%s' 2;" % ("v.txt" if ok else "w.txt"))
    return "\n".join(l) + "\n"


def write_tree(root, files):
    for f in files:
        d = os.path.join(root, f["dir"]) if f["dir"] else root
        os.makedirs(d, exist_ok=True)
        for n, c in (("run.sh", RUN_SH), ("v.txt", "0 1\n1 2\n2 -3\n"), ("w.txt", "0 1\n1 3\n2 -3\n")):
            p = os.path.join(d, n)
            if not os.path.exists(p):
                with open(p, "w") as h:
                    h.write(c)
        with open(os.path.join(d, f["name"] + ".check"), "w") as h:
            h.write(check_text(f))


def expected(files, discard, tool_reading=False):
    """-> {logname: (file verdict, [step verdicts])}"""
    out = {}
    for f in files:
        steps = [cmd_ok(c, tool_reading) for c in f["cmds"]]
        cmps = list(f["cmps"])
        ok = all(cmps)
        if not all(steps) and (not discard or not cmps):
            ok = False
        out["./" + (f["dir"] + "/" if f["dir"] else "") + f["name"] + ".check"] = (ok, steps + cmps)
    return out


# ------------------------------------------------------------------ running
def proc_snapshot(pid):
    """(cpu ticks of the process, all threads sleeping?, has children?)"""
    try:
        with open("/proc/%d/stat" % pid) as h:
            st = h.read()
        fields = st[st.rindex(")") + 2:].split()
        ticks = int(fields[11]) + int(fields[12])
        sleeping = True
        for t in os.listdir("/proc/%d/task" % pid):
            with open("/proc/%d/task/%s/stat" % (pid, t)) as h:
                s = h.read()
            if s[s.rindex(")") + 2:].split()[0] not in ("S", "I"):
                sleeping = False
        children = False  # a live child = neither a zombie (what a deadlocked SIGCHLD handler leaves) nor an un-exec'ed fork
        for t in os.listdir("/proc/%d/task" % pid):
            try:
                with open("/proc/%d/task/%s/children" % (pid, t)) as h:
                    kids = h.read().split()
            except OSError:
                kids = []
            for k in kids:
                try:
                    with open("/proc/%s/stat" % k) as h:
                        ks = h.read()
                    comm = ks[ks.index("(") + 1:ks.rindex(")")]
                    # a forked copy that has not exec'ed yet (still named tfel-check) waits for its father's "OK" on
                    # a pipe: it is part of a deadlocked father, not a running command
                    if ks[ks.rindex(")") + 2:].split()[0] != "Z" and comm != "tfel-check":
                        children = True
                except (OSError, ValueError):
                    pass
        return ticks, sleeping, children
    except (OSError, ValueError, IndexError):
        return None


def launch(root, r):
    cmd = [tool("tfel-check"), "--jobs=%d" % r["jobs"], "--discard-jobs-limit=true"]
    if r.get("discard") is not None:
        cmd.append("--discard-commands-failure=" + ("true" if r["discard"] else "false"))
    if r.get("sync"):
        cmd.append("--synchronize-terminal-output=true")
    allowed = sorted(os.sched_getaffinity(0))
    ncpu = r.get("cpus") or 0
    cpus = None
    if ncpu:
        start = r.get("cpu0", 0) % len(allowed)
        cpus = set((allowed + allowed)[start:start + ncpu])

    def pre():
        if cpus:
            os.sched_setaffinity(0, cpus)
        os.setsid()

    p = subprocess.Popen(cmd, cwd=root, stdout=subprocess.PIPE, stderr=subprocess.STDOUT, preexec_fn=pre)
    t0 = time.time()
    quiet_since = None
    last_ticks = None
    status = "exit"
    outf = p.stdout
    os.set_blocking(outf.fileno(), False)
    chunks = []
    while True:
        try:
            b = outf.read()
            if b:
                chunks.append(b)
        except (BlockingIOError, OSError):
            pass
        if p.poll() is not None:
            break
        time.sleep(0.25)
        now = time.time()
        snap = proc_snapshot(p.pid)
        if snap is not None:
            ticks, sleeping, children = snap
            if sleeping and not children and ticks == last_ticks:
                quiet_since = quiet_since or now
            else:
                quiet_since = None
            last_ticks = ticks
            if quiet_since is not None and now - quiet_since >= 5.0 and now - t0 >= 8.0:
                status = "deadlock"
                break
        if now - t0 > 600:
            status = "timeout"
            break
    if status != "exit":
        try:
            os.killpg(p.pid, 9)
        except OSError:
            pass
        p.wait()
    try:
        b = outf.read()
        if b:
            chunks.append(b)
    except (BlockingIOError, OSError):
        pass
    out = ANSI.sub("", b"".join(chunks).decode(errors="replace"))
    return status, p.returncode, out, " ".join(["tfel-check"] + cmd[1:]) + (" [cpus %s]" % sorted(cpus) if cpus else "")


LINE_V = re.compile(r"^(.*\S)\s*\[\s*(SUCCESS|FAILED|SKIPPED)\]\s*$")


def parse_log(text):
    """-> (blocks, error).  block = (name, [(step name, ok)], file ok)"""
    lines = [l.rstrip() for l in ANSI.sub("", text).split("\n")]
    while lines and lines[-1] == "":
        lines.pop()
    blocks = []
    i = 0
    n = len(lines)
    while i < n:
        if not lines[i].startswith("entering directory '"):
            return blocks, "line %d: expected \"entering directory\", read %r" % (i + 1, lines[i])
        i += 1
        m = re.match(r"^\* beginning of test '(.*)'$", lines[i]) if i < n else None
        if not m:
            return blocks, "line %d: expected \"* beginning of test\", read %r" % (i + 1, lines[i] if i < n else None)
        name = m.group(1)
        i += 1
        steps = []
        while i < n and lines[i].startswith("** "):
            mv = LINE_V.match(lines[i])
            ms = re.match(r"^\*\* ((?:Exec|Compare)-\d+) ", lines[i])
            if not mv or not ms:
                return blocks, "line %d: malformed step line %r" % (i + 1, lines[i])
            steps.append((ms.group(1), mv.group(2) == "SUCCESS"))
            i += 1
        mv = LINE_V.match(lines[i]) if i < n else None
        if not mv or mv.group(1) != "* end of test '%s'" % name:
            return blocks, "line %d: expected \"* end of test '%s'\", read %r" % (i + 1, name, lines[i] if i < n else None)
        fok = mv.group(2) == "SUCCESS"
        i += 1
        if i >= n or lines[i] != "======":
            return blocks, "line %d: expected \"======\", read %r" % (i + 1, lines[i] if i < n else None)
        i += 1
        blocks.append((name, steps, fok))
    return blocks, None


def one_run(files, r):
    """-> dict(status, rc, problems [(key,msg)], verdicts {name: ok})"""
    _counter[0] += 1
    root = os.path.join(WORK, "tree_%d_%d" % (os.getpid(), _counter[0]))
    shutil.rmtree(root, ignore_errors=True)
    os.makedirs(root)
    write_tree(root, files)
    status, rc, out, cmdline = launch(root, r)
    res = {"status": status, "rc": rc, "cmd": cmdline, "problems": [], "verdicts": None, "mism": set()}
    if status == "timeout":
        shutil.rmtree(root, ignore_errors=True)
        return res
    if status == "deadlock" or rc not in (0, 1):
        res["status"] = "deadlock" if status == "deadlock" else "signal"
        res["problems"].append((K_RACE, "%s: %s\n%s" % (
            cmdline, "deadlock (no child, all threads asleep, no CPU for 5 s)" if status == "deadlock" else "exit status %s" % rc,
            out[-800:])))
        shutil.rmtree(root, ignore_errors=True)
        return res
    discard = True if r.get("discard") is None else r["discard"]
    exp_doc = expected(files, discard)
    exp_tool = expected(files, discard, tool_reading=True)
    P = res["problems"]
    try:
        log = open(os.path.join(root, "tfel-check.log"), errors="replace").read()
    except OSError:
        log = ""
    blocks, err = parse_log(log)
    if err:
        P.append(("C52.log.malformed_or_interleaved", "%s: tfel-check.log %s\n%s" % (cmdline, err, ANSI.sub("", log)[-1500:])))
    names = [b[0] for b in blocks]
    lost = [nme for nme in exp_doc if nme not in names]
    ended = set(re.findall(r"^\* end of test '(.*?)'", out, re.M))
    if not err and lost and rc != 0 and any(nme not in ended for nme in lost):
        # the process left through exit(EXIT_FAILURE) before these tests ended: ProcessManager::terminateHandler, the
        # SIGSEGV/SIGABRT... handler installed by ProcessManager::stopOnSignals, turns the crash of the known race into
        # "exit status 1" and the buffered tfel-check.log is lost
        res["status"] = "signal"
        res["problems"].append((K_RACE, "%s: exit status %d with a truncated tfel-check.log (%d of %d blocks; tests %s never "
                                "ended on the terminal either): crash caught by ProcessManager::terminateHandler\n%s" % (
                                    cmdline, rc, len(names), len(exp_doc), [n for n in lost if n not in ended][:4], out[-500:])))
        shutil.rmtree(root, ignore_errors=True)
        return res
    if not err:
        for nme in exp_doc:
            if names.count(nme) != 1:
                P.append(("C52.log.block_count", "%s: %d blocks for %s in tfel-check.log (files: %s); exit status %s, "
                          "lines of the terminal output about it: %s" % (
                              cmdline, names.count(nme), nme, sorted(exp_doc), rc,
                              [l for l in out.split("\n") if nme in l or "rror" in l or "xception" in l][:6])))
        for nme in set(names) - set(exp_doc):
            P.append(("C52.log.block_count", "%s: unexpected block %s" % (cmdline, nme)))
    verdicts = {}
    deviation = False
    for nme, steps, fok in blocks:
        if nme not in exp_doc:
            continue
        verdicts[nme] = fok
        got = (fok, [s[1] for s in steps])
        order = [s[0] for s in steps]
        if got == exp_doc[nme]:
            pass
        elif got == exp_tool[nme]:
            deviation = True
        else:
            key = "C52.verdict.step" if got[1] != exp_doc[nme][1] and got[1] != exp_tool[nme][1] else "C52.verdict.file"
            res["mism"] |= {(nme, i) for i, (x, y, z) in enumerate(zip(got[1], exp_doc[nme][1], exp_tool[nme][1]))
                            if x != y and x != z} or {(nme, "file")}
            P.append((key, "%s: %s: steps %s -> %s, expected %s -> %s" % (
                cmdline, nme, list(zip(order, got[1])), got[0], exp_doc[nme][1], exp_doc[nme][0])))
        f = [x for x in files if "./" + (x["dir"] + "/" if x["dir"] else "") + x["name"] + ".check" == nme][0]
        want = ["Exec-%d" % (i + 1) for i in range(len(f["cmds"]))] + ["Compare-%d" % (i + 1) for i in range(len(f["cmps"]))]
        if order != want:
            P.append(("C52.log.malformed_or_interleaved", "%s: %s: step lines %s, expected %s" % (cmdline, nme, order, want)))
    res["verdicts"] = verdicts
    # exit status
    any_fail_doc = any(not v[0] for v in exp_doc.values())
    any_fail_tool = any(not v[0] for v in exp_tool.values())
    if (rc != 0) != any_fail_doc:
        if (rc != 0) == any_fail_tool:
            deviation = True
        else:
            res["mism"].add(("exit", any_fail_doc))
            P.append(("C52.exit_status", "%s: exit status %d although %s" % (
                cmdline, rc, "the files %s are expected to fail" % sorted(k for k, v in exp_doc.items() if not v[0])
                if any_fail_doc else "no file is expected to fail")))
    if verdicts and not err and (rc != 0) != any(not v for v in verdicts.values()):
        res["mism"].add(("exitlog", rc))
        P.append(("C52.exit_status", "%s: exit status %d but tfel-check.log verdicts %s" % (cmdline, rc, verdicts)))
    # every command ran exactly once
    for f in files:
        d = os.path.join(root, f["dir"]) if f["dir"] else root
        for i, c in enumerate(f["cmds"]):
            if "tag" not in c:
                continue
            try:
                txt = open(os.path.join(d, "%s-Exec-%d.out" % (f["name"], i + 1)), errors="replace").read()
            except OSError:
                txt = ""
            if txt.count(c["tag"]) != 1:
                P.append(("C52.command.ran_once", "%s: tag %s found %d times in %s-Exec-%d.out" % (
                    cmdline, c["tag"], txt.count(c["tag"]), f["name"], i + 1)))
    if deviation and not P:
        P.append((K_SHALL, "%s: a command with `shall_fail: true` that exits with status 0 is reported as SUCCESS "
                           "(docs: shall_fail states that the command shall fail); .check files:\n%s" % (
                               cmdline, "\n".join("--- %s/%s.check\n%s" % (f["dir"], f["name"], check_text(f)) for f in files
                                                  if any(c["kind"] == "shall_fail" and c["code"] == 0 for c in f["cmds"])))))
    shutil.rmtree(root, ignore_errors=True)
    return res


def describe(files):
    return "\n".join("--- ./%s%s.check\n%s" % (f["dir"] + "/" if f["dir"] else "", f["name"], check_text(f)) for f in files)


def check_case(case):
    files, runs = case["files"], case["runs"]
    repeat = int(case.get("repeat", 1))
    names = [(f["dir"], f["name"]) for f in files]
    if len(set(names)) != len(names) or not files:
        raise Reject()
    problems = []
    per_rule = {}
    completed = 0
    classes = set()
    for r in runs:
        for _ in range(repeat):
            ek = case.get("expect_key")
            if problems and ((repeat > 1 and (ek is None or any(p[0] == ek for p in problems))) or
                             (repeat == 1 and any(p[0] not in KNOWN for p in problems))):
                break  # already decided
            res = None
            for attempt in range(3):
                res = one_run(files, r)
                if res["status"] == "timeout":
                    raise Reject()
                if res["status"] in ("deadlock", "signal"):
                    problems += res["problems"]
                    classes.add("race." + res["status"])
                    continue
                break
            if res["status"] != "exit":
                continue
            completed += 1
            vkeys = ("C52.verdict.step", "C52.verdict.file", "C52.exit_status")
            if any(p[0] in vkeys for p in res["problems"]):
                # deterministic or schedule dependent?  the same invocation is tried once more, then the same tree is run
            # with --jobs=1 (twice at most): only what is wrong every time is reported under the generic keys
                # (a wrong step verdict counts as reproduced only if the same step of the same file is wrong again)
                def relevant(m):  # an exit status that follows from wrong step verdicts is not a fact of its own
                    steps = set(x for x in m if x[0] not in ("exit", "exitlog"))
                    return steps or set(m)
                common = relevant(res["mism"])
                seq = dict(r, jobs=1, cpus=None, sync=False)  # the same tree and discard rule, sequentially
                for _again in range(3):
                    res2 = one_run(files, seq if _again else r)
                    if res2["status"] != "exit":
                        continue
                    common &= relevant(res2["mism"])
                    if not common:
                        res["problems"] = [((K_STATUS, "not reproduced when the invocation is repeated / run with --jobs=1: " + p[1])
                                            if p[0] in vkeys else p) for p in res["problems"]]
                        if not any(p[0] in vkeys for p in res2["problems"]):
                            res["verdicts"] = res2["verdicts"]
                        else:
                            res["verdicts"] = None
                        classes.add("race.status")
                        break
            problems += res["problems"]
            rule = True if r.get("discard") is None else r["discard"]
            if res["verdicts"] is not None:
                ref = per_rule.setdefault(rule, (res["cmd"], res["verdicts"]))
                if ref[1] != res["verdicts"]:
                    problems.append(("C52.verdict.differs_across_jobs", "verdicts differ between `%s` %s and `%s` %s" % (
                        ref[0], ref[1], res["cmd"], res["verdicts"])))
    nfiles = len(files)
    exp = expected(files, True)
    mixed = len(set(v[0] for v in exp.values())) == 2
    nontrivial = nfiles >= 4 and mixed and any(r["jobs"] >= 2 for r in runs)
    classes |= {"jobs.%d" % r["jobs"] for r in runs}
    classes |= {"cpus.%s" % (r.get("cpus") or "all") for r in runs}
    classes |= {"discard.%s" % r.get("discard") for r in runs}
    if any(c["kind"] == "shall_fail" and c["code"] == 0 for f in files for c in f["cmds"]):
        classes.add("shall_fail_exit0")
    if case.get("expect_key"):  # replay of a saved failure: only the same sub-claim counts as a reproduction
        problems = [p for p in problems if p[0] == case["expect_key"]]
    if problems:
        unknown = [p for p in problems if p[0] not in KNOWN]
        key, msg = (unknown or problems)[0]
        if repeat == 1:
            # schedules are sampled: the saved case re-samples every invocation up to 6 times (and stops at the
            # first problem) so that a schedule dependent failure reproduces when it is replayed
            case["repeat"] = 6
            case["expect_key"] = key
        return Result(False, key, msg + "\ncommand lines: %s\n%s" % ([launch_desc(r) for r in runs], describe(files)))
    return Result(True, nontrivial=nontrivial, classes=sorted(classes),
                  sample={"files": describe(files), "runs": runs})


def launch_desc(r):
    return "--jobs=%d discard=%s cpus=%s sync=%s" % (r["jobs"], r.get("discard"), r.get("cpus"), r.get("sync"))


# ------------------------------------------------------------------ generator
def strategy():
    from hypothesis import strategies as st

    @st.composite
    def case(draw):
        nf = draw(st.one_of(st.integers(1, 8), st.integers(4, 24)))
        dirs = ["", "a", "b", "a/x", "b/y/z"]
        shall0 = draw(st.integers(0, 9)) == 0  # the (known) shall_fail/exit 0 class only in a tenth of the cases
        files = []
        for i in range(nf):
            nc = draw(st.integers(0, 4))
            cmds = []
            for j in range(nc):
                kind = draw(st.sampled_from(["plain", "plain", "expected", "expected_wrong", "shall_fail", "true", "false"]))
                if kind in ("true", "false"):
                    cmds.append({"kind": kind})
                    continue
                code = draw(st.sampled_from([0, 0, 0, 1, 3]))
                if kind == "shall_fail" and code == 0 and not shall0:
                    code = 2
                if kind == "expected_wrong":
                    code = 0
                cmds.append({"kind": kind, "tag": "tag-%d-%d" % (i, j), "code": code,
                             "sleep": "0.%02d" % draw(st.integers(0, 5))})
            ncmp = draw(st.integers(0, 3)) if nc else draw(st.integers(1, 3))
            cmps = [draw(st.sampled_from([True, True, True, False])) for _ in range(ncmp)]
            files.append({"dir": draw(st.sampled_from(dirs)), "name": "c%d" % i, "cmds": cmds, "cmps": cmps})
        nruns = draw(st.integers(2, 3))
        runs = [{"jobs": 1, "discard": draw(st.sampled_from([None, True, False])), "cpus": None, "sync": False}]
        for _ in range(nruns - 1):
            runs.append({"jobs": draw(st.sampled_from([2, 3, 4, 8, 16])),
                         "discard": draw(st.sampled_from([None, True, False])),
                         "cpus": draw(st.sampled_from([1, 2, 2, None])), "cpu0": draw(st.integers(0, 15)),
                         "sync": draw(st.booleans())})
        return {"files": files, "runs": runs, "repeat": 1}

    return case()


def main():
    replay_main({"tree": check_case})
    u = Unit("C52_parallel")
    run_hypothesis(u, "tree", strategy(), check_case, max_examples=param("cases", 8))
    sys.exit(u.finish())


if __name__ == "__main__":
    main()
