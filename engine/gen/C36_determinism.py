#!/usr/bin/env python3-vt
"""C36  Code generation is deterministic.

A generated element = (corpus .mfront file, interface set, option set, 1..3 other
corpus files, environment perturbation, directory depth).  For each element the
real `mfront` executable of the hooks tree is run
  baseline    : fresh directory, base environment (memoised per file/ifaces/opts)
  fresh       : another fresh directory at another depth           -> same exit status, same tree
  env         : fresh directory, perturbed environment (LC_ALL, LANG, TZ, HOME, TMPDIR, USER,
                unrelated variables in shuffled order, wall clock shifted by days through an
                LD_PRELOAD shim)                                   -> same exit status, same tree
  repeat      : the same command a second time in the `fresh` directory
                                                                   -> tree unchanged, targets.lst byte-identical
  after_others: directory in which 1..3 other inputs were generated first
  stale_variant: directory in which a variant of the SAME input (same names, other floating-point literals) was generated first
                -> every file of the baseline tree is byte-identical, targets.lst = union
The input path is absolute and identical in all runs (it is the documented
path-dependent field: #line directives / *_src symbols), so nothing is normalised.
Trees are compared by hashing every file below the working directory.
"""
import hashlib
import itertools
import os
import re
import shutil
import sys
import threading

HERE = os.path.dirname(os.path.abspath(__file__))
sys.path.insert(0, os.path.join(HERE, "..", "common"))
sys.path.insert(0, HERE)
from verifpy import *  # noqa
from verifpy_batch import prun, pmap, run_batched
import C47_registry as reg   # independent reader of targets.lst + union model
from hypothesis import strategies as st

MFRONT = tool("mfront")
PROPERTY_IFACES = ["generic", "c", "c++", "excel", "octave", "mfront", "generic-parallel", "excel-internal"]
OTHER_IFACES = ["generic", "mfront"]
_cnt = itertools.count(1)
_lock = threading.Lock()


def corpus():
    out = []
    for dp, dn, fn in os.walk(REPO):
        dn[:] = sorted(d for d in dn if d not in ("_build", ".git", "_b"))
        for f in sorted(fn):
            if f.endswith(".mfront"):
                out.append(os.path.relpath(os.path.join(dp, f), REPO))
    return sorted(out)


_DSL = re.compile(r"@(?:DSL|Parser)\s+([A-Za-z_0-9]+)")


def kind_of(rel):
    try:
        m = _DSL.search(open(os.path.join(REPO, rel), errors="replace").read())
    except OSError:
        return "b"
    if not m:
        return "b"
    n = m.group(1)
    if "MaterialLaw" in n or "MaterialProperty" in n:
        return "p"
    if "Model" in n:
        return "m"
    return "b"


def newdir(tag, depth=0):
    d = os.path.join(WORK, "c36-%s-%d-%d" % (tag, os.getpid(), next(_cnt)))
    shutil.rmtree(d, ignore_errors=True)
    top = d
    for i in range(depth):
        d = os.path.join(d, "d%d" % i)
    os.makedirs(d)
    return top, d


def base_env():
    e = [("PATH", os.environ.get("PATH", "/usr/bin:/bin")), ("LD_LIBRARY_PATH", os.environ.get("LD_LIBRARY_PATH", "")),
         ("HOME", "/root"), ("LC_ALL", "C"), ("TZ", "UTC")]
    e += [(k, v) for k, v in sorted(os.environ.items()) if k.startswith("VERIF_MUT_")]   # sensitivity runs
    return e


_shim = [None]


def timeshift_lib():
    with _lock:
        if _shim[0] is None:
            src = os.path.join(VERIF, "engine", "tools", "C36_timeshift.c")
            out = os.path.join(WORK, "libc36timeshift.so")
            rc, so, se = run(["gcc", "-O1", "-shared", "-fPIC", src, "-o", out, "-ldl"])
            _shim[0] = out if rc == 0 else ""
        return _shim[0]


def perturbed_env(p, home_dir):
    e = dict(base_env())
    order = []
    for k in ("LC_ALL", "LANG", "TZ", "TMPDIR", "USER"):
        v = p.get(k)
        if v is None:
            continue
        if v == "":
            e.pop(k, None)
        else:
            e[k] = v
    if p.get("HOME") == "missing":
        e["HOME"] = "/nonexistent-verif-home"
    elif p.get("HOME") == "other":
        e["HOME"] = home_dir
    elif p.get("HOME") == "unset":
        e.pop("HOME", None)
    if p.get("timeshift"):
        lib = timeshift_lib()
        if lib:
            e["LD_PRELOAD"] = lib
            e["VERIF_TIMESHIFT"] = str(p["timeshift"])
    items = list(e.items())
    extra = [(k, v) for k, v in p.get("extra", [])]
    # unrelated variables interleaved: the order of the environment block changes
    rot = p.get("rot", 0) % (len(items) or 1)
    items = items[rot:] + items[:rot]
    out = []
    for i, it in enumerate(items):
        if i < len(extra):
            out.append(extra[i])
        out.append(it)
    out += extra[len(items):]
    d = {}
    for k, v in out:
        d[k] = v
    return d


def command(rel, ifaces, opts):
    p = os.path.join(REPO, rel)
    return [MFRONT, "--interface=" + ",".join(ifaces)] + list(opts) + ["--search-path=" + os.path.dirname(p), p]


def tree(d):
    h = {}
    for dp, dn, fn in os.walk(d):
        dn.sort()
        for f in fn:
            p = os.path.join(dp, f)
            try:
                h[os.path.relpath(p, d)] = hashlib.sha1(open(p, "rb").read()).hexdigest()
            except OSError:
                h[os.path.relpath(p, d)] = "unreadable"
    return h


def first_diff(a, b):
    try:
        la, lb = open(a, errors="replace").read().splitlines(), open(b, errors="replace").read().splitlines()
    except OSError as e:
        return str(e)
    for i, (x, y) in enumerate(zip(la, lb)):
        if x != y:
            return "line %d: %r / %r" % (i + 1, x[:160], y[:160])
    return "lengths %d / %d lines" % (len(la), len(lb))


def tree_diff(ta, tb, da, db, only=None):
    names = sorted(set(ta) | set(tb)) if only is None else sorted(only)
    out = []
    for n in names:
        if ta.get(n) != tb.get(n):
            if n not in ta or n not in tb:
                out.append("%s only in %s" % (n, "first" if n in ta else "second"))
            else:
                out.append("%s differs (%s)" % (n, first_diff(os.path.join(da, n), os.path.join(db, n))))
    return out


_base = {}
KEEP = []   # baseline directories, removed at exit
import atexit
atexit.register(lambda: [shutil.rmtree(t, ignore_errors=True) for t in KEEP])


def baseline(rel, ifaces, opts):
    k = canonical([rel, ifaces, opts])
    with _lock:
        if k in _base:
            return _base[k]
    top, d = newdir("base")
    rc, so, se = prun(command(rel, ifaces, opts), cwd=d, env=dict(base_env()), timeout=600)
    r = {"rc": rc, "dir": d, "tree": tree(d), "out": (so + se)[-400:]}
    with _lock:
        _base[k] = r
        KEEP.append(top)
    return r


_FLOAT = re.compile(r"(?<![\w.])(\d+\.\d*(?:[eE][+-]?\d+)?|\d+[eE][+-]?\d+)(?![\w.])")


def src_text(rel):
    return open(os.path.join(REPO, rel), errors="replace").read()


def make_variant(src, v):
    """the same input with every k-th floating-point literal changed (k = 1 + v % 4, first one at v % k): same names,
    same files, other contents; None if the file holds no such literal"""
    k = 1 + v % 4
    state = {"i": 0, "n": 0}

    def sub(m):
        i = state["i"]
        state["i"] += 1
        if i % k != v % k:
            return m.group(0)
        try:
            x = float(m.group(0))
        except ValueError:
            return m.group(0)
        state["n"] += 1
        return repr(x * 0.75 + 0.125)
    out = _FLOAT.sub(sub, src)
    return out if state["n"] and out != src else None


def check_case(c):
    rel, ifaces, opts = c["file"], c["ifaces"], c["opts"]
    cmd = command(rel, ifaces, opts)
    b = baseline(rel, ifaces, opts)
    if b["rc"] == -999:
        raise Reject()
    tops = []
    classes = ["kind." + kind_of(rel), "ifaces.%d" % len(ifaces), "opts." + ("none" if not opts else opts[0].lstrip("-").split("=")[0])]
    ok_base = b["rc"] == 0
    classes.append("baseline.ok" if ok_base else "baseline.fails")
    try:
        # fresh directory, other depth
        t1, d1 = newdir("fresh", c.get("depth", 1))
        tops.append(t1)
        rc, so, se = prun(cmd, cwd=d1, env=dict(base_env()), timeout=600)
        if rc != b["rc"]:
            return Result(False, "C36.fresh.exit_status", "%s: exit %d then %d in another fresh directory: %s" % (cmd[1:], b["rc"], rc, (so + se)[-300:]))
        tr1 = tree(d1)
        df = tree_diff(b["tree"], tr1, b["dir"], d1)
        if df:
            return Result(False, "C36.fresh.differs", "%s: two fresh runs differ: %s" % (cmd[1:], df[:4]))
        # perturbed environment
        t2, d2 = newdir("env")
        tops.append(t2)
        home = os.path.join(t2 + "-home")
        os.makedirs(home, exist_ok=True)
        tops.append(home)
        env = perturbed_env(c["env"], home)
        rc, so, se = prun(cmd, cwd=d2, env=env, timeout=600)
        ek = ",".join(sorted(k for k in ("LC_ALL", "LANG", "TZ", "TMPDIR", "USER", "HOME", "timeshift") if c["env"].get(k) not in (None, 0)))
        if rc != b["rc"]:
            return Result(False, "C36.env.exit_status", "%s: exit %d in the base environment, %d with %s: %s" % (
                cmd[1:], b["rc"], rc, c["env"], (so + se)[-300:]))
        df = tree_diff(b["tree"], tree(d2), b["dir"], d2)
        if df:
            return Result(False, "C36.env.differs", "%s: environment %s changes the generated files: %s" % (cmd[1:], c["env"], df[:4]))
        classes += ["env." + x for x in ek.split(",") if x]
        # same command again in d1
        rc, so, se = prun(cmd, cwd=d1, env=dict(base_env()), timeout=600)
        if rc != b["rc"]:
            return Result(False, "C36.repeat.exit_status", "%s: exit %d then %d when repeated in the same directory: %s" % (
                cmd[1:], b["rc"], rc, (so + se)[-300:]))
        tr1b = tree(d1)
        if tr1b != tr1:
            return Result(False, "C36.repeat.differs", "%s: repeating the run in its directory changes %s" % (
                cmd[1:], sorted(n for n in set(tr1) | set(tr1b) if tr1.get(n) != tr1b.get(n))[:5]))
        # after other inputs
        if ok_base and c["others"]:
            t3, d3 = newdir("after")
            tops.append(t3)
            for o in c["others"]:
                prun(command(o, ["generic"], []), cwd=d3, env=dict(base_env()), timeout=600)
            raw0 = reg.read_registry(d3)
            try:
                r0 = reg.parse_registry(raw0.decode(errors="replace")) if raw0 else reg.empty_model()
            except reg.ParseError:
                r0 = None
            rc, so, se = prun(cmd, cwd=d3, env=dict(base_env()), timeout=600)
            if rc != 0:
                # a library described with another kind/prefix by the other inputs is refused by design
                if "unmatched library" in so + se or "can't merge description" in so + se:
                    classes.append("after_others.library_conflict")
                else:
                    return Result(False, "C36.after_others.exit_status", "%s: exit 0 in a fresh directory, %d after %s: %s" % (
                        cmd[1:], rc, c["others"], (so + se)[-300:]))
            else:
                mine = [n for n in b["tree"] if n != os.path.join("src", "targets.lst")]
                df = tree_diff(b["tree"], tree(d3), b["dir"], d3, only=mine)
                if df:
                    return Result(False, "C36.after_others.differs", "%s: generated after %s: %s" % (cmd[1:], c["others"], df[:4]))
                if r0 is not None:
                    try:
                        rb = reg.parse_registry(open(os.path.join(b["dir"], "src", "targets.lst")).read())
                        r1 = reg.parse_registry(open(os.path.join(d3, "src", "targets.lst")).read())
                    except (OSError, reg.ParseError) as e:
                        return Result(False, "C36.after_others.targets_unreadable", "%s after %s: %s" % (cmd[1:], c["others"], e))
                    model = reg.empty_model()
                    if reg.union(model, r0) is None and reg.union(model, rb) is None:
                        mi, ex = reg.missing(r1, model), reg.extra(r1, model)
                        if mi or ex:
                            return Result(False, "C36.after_others.targets_union", "%s after %s: targets.lst lacks %s / holds undescribed %s" % (
                                cmd[1:], c["others"], mi[:4], ex[:4]))
                classes.append("after_others.%d" % len(c["others"]))
        # the same inputs in ONE mfront process ("previous runs" inside a process): what is generated for an input
        # must not depend on the inputs treated before it.  Only inputs of the same kind (they share the interfaces);
        # when the group is refused as a whole (library conflicts, an interface one of the others does not support)
        # nothing is concluded
        same = [o for o in c["others"] if kind_of(o) == kind_of(rel) and o != rel]
        if ok_base and same:
            t4, d4 = newdir("multi")
            tops.append(t4)
            cmd2 = cmd[:-1] + ["--search-path=" + os.path.dirname(os.path.join(REPO, o)) for o in same] + \
                [os.path.join(REPO, o) for o in same] + cmd[-1:]
            rc, so, se = prun(cmd2, cwd=d4, env=dict(base_env()), timeout=900)
            if rc != 0:
                classes.append("same_process.refused")
            else:
                mine = [n for n in b["tree"] if n != os.path.join("src", "targets.lst")]
                df = tree_diff(b["tree"], tree(d4), b["dir"], d4, only=mine)
                if df:
                    # a file that another input of the group also generates (same name) is not attributable
                    solo = set()
                    for o in same:
                        solo |= set(baseline(o, ifaces, opts)["tree"])
                    df = tree_diff(b["tree"], tree(d4), b["dir"], d4, only=[n for n in mine if n not in solo])
                if df:
                    return Result(False, "C36.same_process.differs", "%s: generated together with %s in one process: %s" % (
                        cmd[1:], same, df[:4]))
                classes.append("same_process.%d" % len(same))
        # a stale OLDER VERSION of the same input ("previous runs"): a variant of the target (same names, every k-th
        # floating-point literal changed) is generated first in the directory, whatever its exit status; the files then
        # generated for the target must be those of a fresh directory (nothing may be kept from the previous run)
        if ok_base and c.get("variant") is not None:
            vsrc = make_variant(src_text(rel), int(c["variant"]))
            if vsrc is None:
                classes.append("stale_variant.no_literal")
            else:
                t5, d5 = newdir("stale")
                tops.append(t5)
                vdir = t5 + "-variant"
                os.makedirs(vdir, exist_ok=True)
                tops.append(vdir)
                vp = os.path.join(vdir, os.path.basename(rel))
                with open(vp, "w") as fd:
                    fd.write(vsrc)
                rcv, so, se = prun(cmd[:-1] + [vp], cwd=d5, env=dict(base_env()), timeout=600)
                rc, so, se = prun(cmd, cwd=d5, env=dict(base_env()), timeout=600)
                if rc != 0:
                    if "unmatched library" in so + se or "can't merge description" in so + se:
                        classes.append("stale_variant.library_conflict")
                    else:
                        return Result(False, "C36.stale_variant.exit_status", "%s: exit 0 in a fresh directory, %d after a variant of the same file (variant %d, exit %d): %s" % (
                            cmd[1:], rc, c["variant"], rcv, (so + se)[-300:]))
                else:
                    mine = [n for n in b["tree"] if n != os.path.join("src", "targets.lst")]
                    df = tree_diff(b["tree"], tree(d5), b["dir"], d5, only=mine)
                    if df:
                        return Result(False, "C36.stale_variant.differs", "%s: generated after a variant of the same file (variant %d, exit %d): %s" % (
                            cmd[1:], c["variant"], rcv, df[:4]))
                    classes.append("stale_variant.%s" % ("variant_ok" if rcv == 0 else "variant_fails"))
        src = open(os.path.join(REPO, rel), errors="replace").read()
        nfiles = len(b["tree"])
        nt = ok_base and (nfiles >= 5 or re.search(r"@(Import|MaterialLaw|Model)\b", src) is not None)
        classes.append("files.%s" % ("ge5" if nfiles >= 5 else "lt5"))
        return Result(True, nontrivial=bool(nt), classes=classes)
    finally:
        for t in tops:
            shutil.rmtree(t, ignore_errors=True)


def strategies(files):
    kinds = {f: kind_of(f) for f in files}

    def ifaces_for(f):
        pool = PROPERTY_IFACES if kinds[f] == "p" else OTHER_IFACES
        return st.lists(st.sampled_from(pool), min_size=1, max_size=min(3, len(pool)), unique=True).map(sorted)
    opts = st.sampled_from([[], [], [], ["--debug"], ["--nomelt"], ["-D", "VERIF_X=1"], ["--pedantic"]])
    var = st.tuples(st.sampled_from(["VERIF_ZZ", "AAA_FIRST", "zz_last", "MFRONT_UNRELATED", "COLUMNS", "LINES", "TERM", "DISPLAY"]),
                    st.sampled_from(["1", "", "xterm", "a b", "é", ":0"]))
    env = st.fixed_dictionaries({
        "LC_ALL": st.sampled_from([None, "", "C.utf8", "POSIX", "fr_FR.UTF-8"]),
        "LANG": st.sampled_from([None, "C.utf8", "de_DE.UTF-8"]),
        "TZ": st.sampled_from([None, "", "Pacific/Kiritimati", "America/New_York", "Asia/Kolkata"]),
        "HOME": st.sampled_from([None, "missing", "other", "unset"]),
        "TMPDIR": st.sampled_from([None, "/tmp", "/nonexistent-verif-tmp"]),
        "USER": st.sampled_from([None, "someone"]),
        "timeshift": st.sampled_from([0, 1, 61, 86400 * 3 + 7, 86400 * 400, -86400 * 4000]),
        "extra": st.lists(var, max_size=5, unique_by=lambda x: x[0]).map(lambda l: [list(x) for x in l]),
        "rot": st.integers(0, 7)})
    # inputs that make the generator write auxiliary files of their own (slip systems header/implementation): 12 of 722
    # files, drawn one case in eight so that every quick run holds some
    aux = [f for f in files if re.search(r"@(SlidingSystems?|SlipSystems?|GlidingSystems?|CrystalStructure)\b", src_text(f))]
    pick = st.sampled_from(files) if not aux else st.one_of(*([st.sampled_from(files)] * 7 + [st.sampled_from(aux)]))
    return pick.flatmap(lambda f: st.fixed_dictionaries({
        "file": st.just(f), "ifaces": ifaces_for(f), "opts": opts,
        "others": st.lists(st.sampled_from(files), min_size=1, max_size=3, unique=True),
        "env": env, "depth": st.integers(0, 3), "variant": st.integers(0, 7)}))


def sweep_cases(files, nshards, shard):
    """deterministic enumeration of the corpus; the per-file history parameters are sampled with random.Random"""
    import random
    for i, f in enumerate(files):
        if i % nshards != shard:
            continue
        rnd = random.Random(SEED * 100003 + i)
        pool = PROPERTY_IFACES if kind_of(f) == "p" else OTHER_IFACES
        yield {"file": f, "ifaces": sorted(rnd.sample(pool, rnd.randint(1, min(3, len(pool))))),
               "opts": rnd.choice([[], [], ["--debug"], ["--nomelt"]]),
               "others": rnd.sample(files, rnd.randint(1, 2)),
               "env": {"LC_ALL": rnd.choice(["C.utf8", "POSIX", "", "fr_FR.UTF-8"]), "LANG": rnd.choice([None, "de_DE.UTF-8"]),
                       "TZ": rnd.choice(["Pacific/Kiritimati", "America/New_York", ""]), "HOME": rnd.choice(["missing", "other", "unset"]),
                       "TMPDIR": None, "USER": None, "timeshift": rnd.choice([61, 86400 * 400, -86400 * 4000]),
                       "extra": [["VERIF_ZZ", "1"], ["AAA_FIRST", "a b"]][:rnd.randint(0, 2)], "rot": rnd.randint(0, 7)},
               "depth": rnd.randint(0, 3), "variant": rnd.randint(0, 7)}


CHECKS = {"hyp": check_case, "sweep": check_case}

if __name__ == "__main__":
    replay_main(CHECKS)
    u = Unit("C36_determinism")
    files = corpus()
    u.extra["corpus_files"] = len(files)
    u.extra["timeshift_shim"] = bool(timeshift_lib())
    try:
        run_batched(u, "hyp", strategies(files), check_case, int(param("cases", 64)), batch=8)
        nsweep = param("sweep", 0)
        if nsweep:
            nshards = int(param("shards", 1))
            shard = (SEED % 1000) % nshards if nshards > 1 else 0
            cases = list(sweep_cases(files, nshards, shard))
            if nsweep != "all":
                cases = cases[:int(nsweep)]

            def one(c):
                try:
                    return c, check_case(c)
                except Reject:
                    return c, None
            for c, r in pmap(one, cases, jobs=JOBS):
                if r is None:
                    u.discard("sweep")
                elif r.ok:
                    u.case("sweep", c, r.nontrivial, r.classes)
                else:
                    u.fail("sweep", r.key, r.msg, c)
            u.top["exhaustive"] = {"what": "corpus files enumerated by the sweep (this shard)", "files": len(cases)}
    finally:
        for t in KEEP:
            shutil.rmtree(t, ignore_errors=True)
    sys.exit(u.finish())
