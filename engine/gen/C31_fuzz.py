#!/usr/bin/env python3
"""C31 robustness half: libFuzzer campaign on CxxTokenizer (asan tree)."""
import glob, os, random, sys
sys.path.insert(0, os.path.join(os.path.dirname(os.path.abspath(__file__)), "..", "common"))
from verifpy import *
import fuzzpy

SRC = os.path.join(VERIF, "engine", "fuzz", "C31_tokenizer_fuzz.cxx")
LIBS = ["TFELUtilities", "TFELException", "TFELUnicodeSupport", "TFELConfig"]


def build():
    libs = [l for l in LIBS if l in fuzzpy.asan_libdirs()]
    exe, err = fuzzpy.build_target(SRC, "C31_tokenizer_fuzz", libs)
    if exe is None:
        print("BUILD FAILED\n" + err)
        sys.exit(2)
    return exe


def confirm(exe, art):
    """3 fresh processes; returns (all three failed, summary)"""
    n, txt = 0, ""
    for _ in range(3):
        failed, txt = fuzzpy.rerun(exe, art, timeout=60)
        n += 1 if failed else 0
    return n == 3, fuzzpy.summarise(txt)


def main():
    exe = build()
    rp = replay_requested()
    if rp:
        failed, txt = fuzzpy.rerun(exe, rp, timeout=60)
        print(("REPLAY-FAILS " if failed else "REPLAY-PASSES ") + fuzzpy.summarise(txt))
        sys.exit(1 if failed else 0)
    u = Unit("C31_fuzz")
    rng = random.Random(SEED)
    corpus = sorted(glob.glob(os.path.join(REPO, "mfront", "tests", "**", "*.mfront"), recursive=True)) + \
        sorted(glob.glob(os.path.join(REPO, "mfront", "tests", "**", "*.mtest"), recursive=True))
    seeds = rng.sample(corpus, min(param("seeds", 40), len(corpus)))
    # prepend two option bytes to the seeds
    sdir = os.path.join(WORK, "seeds")
    os.makedirs(sdir, exist_ok=True)
    sfiles = []
    for i, s in enumerate(seeds):
        data = open(s, "rb").read()[:4000]
        p = os.path.join(sdir, "s%03d" % i)
        with open(p, "wb") as f:
            f.write(bytes([rng.randrange(256) if i % 2 else 0, rng.randrange(256) if i % 2 else 0]) + data)
        sfiles.append(p)
    # hand-written structural seeds (comment kinds at the start / end of the input)
    for i, txt in enumerate([b"// c\n//!< d", b"/* a */ //!< b\nx", b"//!< d", b"/*!< a */ x //! y\n/** z */",
                             b"\"a\" \"b\" 'c' 1.e-3f 0x1F ->* a::b", b"#include <x>\n#define A \\\n 1\nR\"(raw)\""]):
        for bits in (b"\x00\x00", b"\x01\x00", b"\x03\x10"):
            p = os.path.join(sdir, "h%02d_%s" % (i, bits.hex()))
            with open(p, "wb") as f:
                f.write(bits + txt)
            sfiles.append(p)
    dpath = os.path.join(WORK, "dict.txt")
    with open(dpath, "w") as f:
        for k in ['"/*"', '"*/"', '"//"', '"\\""', '"\'"', '"\\\\"', '"#"', '"->"', '"::"', '"<<"', '"R\\"("',
                  '")\\""', '"@Behaviour"', '"1.e-3"', '"0x1p3"', '"\\x0a"', '"`"', '"/*!"', '"//!<"']:
            f.write(k + "\n")
    r = fuzzpy.campaign(exe, sfiles, runs=param("runs", 20000), jobs=min(JOBS, param("jobs", 4)),
                        max_len=4096, timeout=25, dict_path=dpath, tag="tok")
    fuzzpy.merge_stats(u, "bytes", r["stats"], r["executions"])
    u.extra["executions"] = r["executions"]
    seen = set()
    for art in r["artifacts"]:
        kind = fuzzpy.artifact_kind(art)
        if kind in ("oom", "slow-unit", "other"):
            u.note("ignored artifact %s (load noise)" % os.path.basename(art))
            continue
        ok3, summary = confirm(exe, art)
        if not ok3:
            u.note("artifact %s did not reproduce 3/3: %s" % (os.path.basename(art), summary))
            continue
        key = "C31.fuzz." + (summary.split("ORACLE-FAILURE ")[1].split(":")[0].replace("C31.fuzz.", "")
                             if "ORACLE-FAILURE" in summary else kind)
        if key in seen:
            continue
        seen.add(key)
        dst = fuzzpy.save_artifact(u, art, REPLAY_DIR)
        if u.is_known(key):
            u.fail("bytes", key, summary, {"artifact": dst})
        else:
            u.failures.append({"sub": "bytes", "key": key, "msg": summary, "replay": dst})
            print("FALSIFIED key=%s %s replay=%s" % (key, summary, dst))
    sys.exit(u.finish())


main()
