#!/usr/bin/env python3-vt
"""C20 - physical quantities (tfel::math::qt): dimension checking is sound and
transparent.  Program-level property based test.

Hypothesis generates small *programs* over quantities: variables of named units
of include/TFEL/Math/Forward/Unit.hxx (held as qt, const qt, qt_ref,
const_qt_ref, spelled `unit::Name` or through the `quantity<double,...>`
alias), statements (=, +=, -=, *=, /=, comparisons) and an expression tree over
+ - * /, unary -, abs, power<N>, power<N,D>, scalar literals.  The generator has
its own unit arithmetic (exponent 7-vectors of Fractions, `unit_of`): it knows
whether a program is well dimensioned and the unit of every expression.

sub "positive" : well-dimensioned programs, batched in one translation unit;
                 for each program the unit of the result type must be the
                 expected one (exponents compared at compile time, reported at
                 run time) and the value, the values of all variables and the
                 outcomes of all comparisons must be bit-identical to the same
                 program on raw doubles.
sub "probe"    : fast negative oracle.  One TU with variable templates
                 `template<class A,class B> constexpr bool can_OP = requires(A
                 a,B b){a OP b;}` (inside a template, otherwise the deleted
                 overloads are hard errors) evaluated on generated pairs of
                 operand types: must be false for different units, true for the
                 same unit (controls).
sub "negative" : ground truth.  A well-dimensioned program in which the unit of
                 one variable is replaced so that the program becomes
                 ill-dimensioned (according to `unit_of`) is its own TU compiled
                 with -fsyntax-only: it must FAIL, while the original program
                 (the same text with the offending unit fixed) must compile.
sub "square_root": tfel::math::square_root(q) is the power 1/2.
sub "abs_view" : tfel::math::abs applied to a view (qt_ref / const_qt_ref); kept apart from "positive"
                 because one rejected program makes a whole batch uncompilable.

Replay files hold a single program / pair (JSON).
"""
import os
import sys
from fractions import Fraction

from verifpy import (Unit, Result, Reject, replay_main, SEED, TIER, WORK, REPO, BUILD, JOBS, KNOWN, param, run,
                     parallel_map, fnv, libdirs)

# classes that are only kept out of the main generator while they are listed as known findings
SQRT_KNOWN = "C20.unit.square_root" in KNOWN
ABS_VIEW_KNOWN = "C20.positive.rejected.abs_of_view" in KNOWN

# ------------------------------------------------------------------ units
NAMED = {
    "NoUnit": (0, 0, 0, 0, 0, 0, 0), "Mass": (1, 0, 0, 0, 0, 0, 0), "Length": (0, 1, 0, 0, 0, 0, 0),
    "Time": (0, 0, 1, 0, 0, 0, 0), "Ampere": (0, 0, 0, 1, 0, 0, 0), "Temperature": (0, 0, 0, 0, 1, 0, 0),
    "Kelvin": (0, 0, 0, 0, 1, 0, 0), "Candela": (0, 0, 0, 0, 0, 1, 0), "Mole": (0, 0, 0, 0, 0, 0, 1),
    "InvLength": (0, -1, 0, 0, 0, 0, 0), "InvTemperature": (0, 0, 0, 0, -1, 0, 0),
    "Frequency": (0, 0, -1, 0, 0, 0, 0), "Speed": (0, 1, -1, 0, 0, 0, 0), "Acceleration": (0, 1, -2, 0, 0, 0, 0),
    "Momentum": (1, 1, -1, 0, 0, 0, 0), "Force": (1, 1, -2, 0, 0, 0, 0), "Newton": (1, 1, -2, 0, 0, 0, 0),
    "Stress": (1, -1, -2, 0, 0, 0, 0), "StressRate": (1, -1, -3, 0, 0, 0, 0), "Pressure": (1, -1, -2, 0, 0, 0, 0),
    "Energy": (1, 2, -2, 0, 0, 0, 0), "EnergyDensity": (1, -1, -2, 0, 0, 0, 0), "Density": (1, -3, 0, 0, 0, 0, 0),
    "TemperatureGradient": (0, -1, 0, 0, 1, 0, 0), "ThermalConductivity": (1, 1, -3, 0, -1, 0, 0),
    "HeatFluxDensity": (1, 0, -3, 0, 0, 0, 0)}
NAMES = sorted(NAMED)
NOUNIT = tuple(Fraction(0) for _ in range(7))


def U(t):
    return tuple(Fraction(x) for x in t)


def uj(u):
    """JSON form of a unit: list of [num, den]"""
    return [[x.numerator, x.denominator] for x in u]


def ju(j):
    return tuple(Fraction(a, b) for a, b in j)


def umul(a, b):
    return tuple(x + y for x, y in zip(a, b))


def udiv(a, b):
    return tuple(x - y for x, y in zip(a, b))


def upow(a, n, d):
    return tuple(x * Fraction(n, d) for x in a)


def exps_cxx(u):
    return "unit::makeUnitExponents<%s, %s>()" % (", ".join(str(x.numerator) for x in u),
                                                  ", ".join("%du" % x.denominator for x in u))


def quantity_cxx(u):
    return "quantity<double, %s, %s>" % (", ".join(str(x.numerator) for x in u),
                                          ", ".join("%du" % x.denominator for x in u))


class Ill(Exception):
    def __init__(self, cls, msg):
        Exception.__init__(self, msg)
        self.cls = cls


# ------------------------------------------------------------------ the generator's own type checker
def var_unit(v):
    return U(NAMED[v["unit"]]) if "unit" in v else ju(v["exps"])


def unit_of(e, vs):
    """unit of an expression (None = raw scalar); raises Ill when ill dimensioned"""
    k = e["k"]
    if k == "v":
        return var_unit(vs[e["i"]])
    if k in ("s", "i"):
        return None
    if k in ("neg", "abs"):
        return unit_of(e["a"], vs)
    if k == "pow":
        u = unit_of(e["a"], vs)
        return None if u is None else upow(u, e["n"], e["d"])
    if k == "sqrt":
        u = unit_of(e["a"], vs)
        return None if u is None else upow(u, 1, 2)
    if k == "bin":
        a, b = unit_of(e["a"], vs), unit_of(e["b"], vs)
        op = e["op"]
        if op in "+-":
            return additive(a, b, "add" if op == "+" else "sub")
        if a is None and b is None:
            return None
        a2 = NOUNIT if a is None else a
        b2 = NOUNIT if b is None else b
        return umul(a2, b2) if op == "*" else udiv(a2, b2)
    raise ValueError(k)


def additive(a, b, cls):
    if a is None and b is None:
        return None
    if a is None or b is None:
        q = b if a is None else a
        if q != NOUNIT:
            raise Ill(cls, "raw scalar combined with a quantity that has a unit")
        return NOUNIT
    if a != b:
        raise Ill(cls, "different units")
    return a


def check_program(p):
    """raises Ill if the program is ill dimensioned; returns the unit of the result"""
    vs = p["vars"]
    for s in p["stmts"]:
        if s["k"] == "cmp":
            additive(unit_of(s["a"], vs), unit_of(s["b"], vs), "cmp")
        else:
            t = var_unit(vs[s["t"]])
            r = unit_of(s["e"], vs)
            if s["op"] in ("=", "+=", "-="):
                cls = "assign" if s["op"] == "=" else "compound"
                if r is None:
                    if t != NOUNIT:
                        raise Ill(cls, "raw scalar assigned to a quantity that has a unit")
                elif r != t:
                    raise Ill(cls, "different units")
            else:  # *= /= : only by something without unit
                if r is not None and r != NOUNIT:
                    raise Ill("scale", "scaling by a quantity that has a unit")
    return unit_of(p["result"], vs)


# ------------------------------------------------------------------ C++ emission
def lit(x):
    return float(x).hex()


def unit_type_cxx(v):
    if "unit" in v and v.get("spell", "name") == "name":
        return "unit::" + v["unit"]
    return "quantity_unit<%s>" % quantity_cxx(var_unit(v))


def decl(v, i):
    ut = unit_type_cxx(v)
    x = lit(v["value"])
    f = v["form"]
    if f == "qt":
        return "qt<%s> v%d(%s); double r%d = %s;" % (ut, i, x, i, x)
    if f == "const":
        return "const qt<%s> v%d(%s); const double r%d = %s;" % (ut, i, x, i, x)
    if f == "ref":
        return "double s%d = %s; qt_ref<%s> v%d(s%d); double r%d = %s;" % (i, x, ut, i, i, i, x)
    return "const double s%d = %s; const_qt_ref<%s> v%d(s%d); const double r%d = %s;" % (i, x, ut, i, i, i, x)


def ex(e, raw):
    k = e["k"]
    if k == "v":
        return ("r%d" if raw else "v%d") % e["i"]
    if k == "s":
        return lit(e["x"])
    if k == "i":
        return str(int(e["x"]))
    if k == "neg":
        return "(-(%s))" % ex(e["a"], raw)
    if k == "abs":
        return ("std::fabs(%s)" if raw else "tfel::math::abs(%s)") % ex(e["a"], raw)
    if k == "pow":
        t = "%d" % e["n"] if e.get("short") else "%d, %du" % (e["n"], e["d"])
        return "tfel::math::power<%s>(%s)" % (t, ex(e["a"], raw))
    if k == "sqrt":
        return ("tfel::math::power<1, 2u>(%s)" if raw else "tfel::math::square_root(%s)") % ex(e["a"], raw)
    return "(%s %s %s)" % (ex(e["a"], raw), e["op"], ex(e["b"], raw))


def stmt(s, raw):
    if s["k"] == "cmp":
        return "%s = (%s << 1) | ((%s %s %s) ? 1u : 0u);" % (
            ("mr" if raw else "mq",) * 2 + (ex(s["a"], raw), s["op"], ex(s["b"], raw)))
    return "%s %s %s;" % (("r%d" if raw else "v%d") % s["t"], s["op"], ex(s["e"], raw))


PREAMBLE = r'''
#include <cmath>
#include <cstdio>
#include <cstdint>
#include <cstring>
#include "TFEL/Math/qt.hxx"
using namespace tfel::math;
template <typename T>
constexpr bool unit_is(const unit::UnitExponents& e) {
  if constexpr (ImmutableQuantityConcept<T>) { return unit::exponents<quantity_unit<T>> == e; }
  else { return false; }
}
template <typename T>
double value_of(const T& v) {
  if constexpr (ImmutableQuantityConcept<T>) { return base_type_cast(v); } else { return v; }
}
static std::uint64_t bits(const double x) { std::uint64_t b; std::memcpy(&b, &x, sizeof b); return b; }
static std::uint64_t mix(std::uint64_t h, const double x) { return (h * 1099511628211ull) ^ bits(x); }
'''


def program_function(p, name, expected):
    """body of a function printing one result line for a positive program"""
    vs = p["vars"]
    l = ["static void %s() {" % name]
    l += ["  " + decl(v, i) for i, v in enumerate(vs)]
    l += ["  unsigned mq = 1u, mr = 1u;"]
    for s in p["stmts"]:
        l += ["  " + stmt(s, False), "  " + stmt(s, True)]
    l += ["  const auto res = %s;" % ex(p["result"], False),
          "  const double rres = %s;" % ex(p["result"], True),
          "  constexpr bool uok = unit_is<std::decay_t<decltype(res)>>(%s);" % exps_cxx(expected),
          "  constexpr bool isq = ImmutableQuantityConcept<std::decay_t<decltype(res)>>;",
          "  std::uint64_t hq = 1469598103934665603ull, hr = hq;"]
    for i in range(len(vs)):
        l += ["  hq = mix(hq, value_of(v%d)); hr = mix(hr, r%d);" % (i, i)]
    l += ['  std::printf("P %s %%d %%d %%016llx %%016llx %%x %%x %%016llx %%016llx\\n", int(uok), int(isq), '
          '(unsigned long long)bits(value_of(res)), (unsigned long long)bits(rres), mq, mr, '
          '(unsigned long long)hq, (unsigned long long)hr);' % name,
          "}"]
    return "\n".join(l)


def program_syntax_tu(p):
    """a TU holding only the statements of the program (for -fsyntax-only)"""
    vs = p["vars"]
    l = [PREAMBLE, "double f() {"]
    l += ["  " + decl(v, i) for i, v in enumerate(vs)]
    l += ["  unsigned mq = 1u;"]
    l += ["  " + stmt(s, False) for s in p["stmts"]]
    l += ["  const auto res = %s;" % ex(p["result"], False), "  return value_of(res) + mq;", "}"]
    return "\n".join(l)


CXX = ["g++", "-std=c++20", "-w", "-O0", "-ffp-contract=off"]


def includes():
    return ["-I" + os.path.join(REPO, "include"), "-I" + os.path.join(BUILD, "include")]


def write(name, txt):
    d = os.path.join(WORK, "tu")
    os.makedirs(d, exist_ok=True)
    p = os.path.join(d, name)
    with open(p, "w") as f:
        f.write(txt)
    return p


def syntax_ok(txt, tag):
    p = write(tag + ".cxx", txt)
    rc, so, se = run(CXX + ["-fsyntax-only"] + includes() + [p], timeout=900)
    errs = [l for l in se.splitlines() if "error" in l]
    return rc == 0, "\n".join(errs[:4])[:1200]


ERROR_LINES = {}


def build_and_run(txt, tag):
    """returns (stdout or None, error text)"""
    p = write(tag + ".cxx", txt)
    exe = p[:-4]
    cmd = CXX + includes() + [p, "-o", exe]
    ld = libdirs()
    for l in ("TFELMath", "TFELException"):
        if l in ld:
            cmd += ["-L" + ld[l], "-Wl,-rpath," + ld[l], "-l" + l]
    rc, so, se = run(cmd, timeout=1800)
    if rc != 0:
        errs = [l for l in se.splitlines() if "error" in l or "undefined" in l]
        # lines of this TU mentioned by the diagnostics (used to locate the offending programs of a batch)
        import re
        ERROR_LINES[tag] = sorted(set(int(m) for m in re.findall(re.escape(os.path.basename(p)) + r":(\d+):", se)))
        return None, "\n".join(errs[:6])[:2000]
    rc, so, se = run([exe], timeout=300)
    if rc != 0:
        return None, "execution failed (%d): %s" % (rc, se[-500:])
    return so, ""


# ------------------------------------------------------------------ program features
def walk(e):
    yield e
    for c in ("a", "b"):
        if c in e and isinstance(e[c], dict):
            for x in walk(e[c]):
                yield x


def depth(e):
    return 1 + max([depth(e[c]) for c in ("a", "b") if c in e and isinstance(e[c], dict)] + [0])


def program_exprs(p):
    for s in p["stmts"]:
        for c in ("a", "b", "e"):
            if c in s:
                yield s[c]
    yield p["result"]


def features(p):
    """(non trivial?, classes)"""
    used = set()
    ops = set()
    dmax = 0
    for e in program_exprs(p):
        dmax = max(dmax, depth(e))
        for n in walk(e):
            if n["k"] == "v":
                used.add(var_unit(p["vars"][n["i"]]))
            elif n["k"] == "bin":
                ops.add("op." + {"+": "add", "-": "sub", "*": "mul", "/": "div"}[n["op"]])
            else:
                ops.add("op." + n["k"])
    for s in p["stmts"]:
        ops.add("stmt." + (s["k"] if s["k"] == "cmp" else {"=": "assign", "+=": "pluseq", "-=": "minuseq",
                                                         "*=": "timeseq", "/=": "diveq"}[s["op"]]))
    forms = set("form." + v["form"] for v in p["vars"])
    # DESIGN 7/C20: tree depth >= 2 with >= 2 distinct units
    return (dmax >= 2 and len(used) >= 2), sorted(ops | forms)


# ------------------------------------------------------------------ checks of single cases (also used by --replay)
def expected_unit(p):
    u = check_program(p)
    return NOUNIT if u is None else u


def judge_positive_line(p, fields):
    uok, isq, bq, br, mq, mr, hq, hr = fields
    root = p["result"]["k"] if p["result"]["k"] != "bin" else {"+": "add", "-": "sub", "*": "mul", "/": "div"}[p["result"]["op"]]
    has_sqrt = any(n["k"] == "sqrt" for e in program_exprs(p) for n in walk(e))
    if uok != "1":
        key = "C20.unit.square_root" if has_sqrt else "C20.unit." + root
        return Result(False, key=key, msg="unit of the result type is not %s (result is %sa quantity): %s" % (
            exps_cxx(expected_unit(p)), "" if isq == "1" else "not ", ex(p["result"], False)))
    if bq != br:
        return Result(False, key="C20.value.result_bits", msg="value %s != raw %s for %s" % (bq, br, ex(p["result"], False)))
    if mq != mr:
        return Result(False, key="C20.value.comparisons", msg="comparison outcomes %s != raw %s" % (mq, mr))
    if hq != hr:
        return Result(False, key="C20.value.variables", msg="variables after the statements differ from the raw program")
    nt, cls = features(p)
    return Result(True, nontrivial=nt, classes=cls)


def check_positive(p):
    """one well-dimensioned program alone"""
    try:
        eu = expected_unit(p)
    except Ill as e:
        raise Reject()
    txt = PREAMBLE + program_function(p, "p0", eu) + "\nint main(){ p0(); return 0; }\n"
    out, err = build_and_run(txt, "pos_" + fnv(p))
    if out is None:
        view = any(n["k"] == "abs" and n["a"]["k"] == "v" and p["vars"][n["a"]["i"]]["form"] in ("ref", "cref")
                   for e in program_exprs(p) for n in walk(e))
        return Result(False, key="C20.positive.rejected" + (".abs_of_view" if view else ""),
                      msg="a well-dimensioned program does not compile: " + err)
    f = out.split()
    return judge_positive_line(p, f[2:10])


OPS = {"add": "+", "sub": "-", "lt": "<", "le": "<=", "gt": ">", "ge": ">=", "eq": "==", "ne": "!=",
       "assign": "=", "pluseq": "+=", "minuseq": "-="}


def operand_cxx(o):
    """type of a probe operand"""
    if o["form"] == "double":
        return "double"
    if o["form"] == "expr":  # type of a product / quotient / power of two named quantities
        a, b = "qt<unit::%s>" % o["a"], "qt<unit::%s>" % o["b"]
        if o["op"] == "pow":
            return "decltype(tfel::math::power<%d, %du>(std::declval<%s>()))" % (o["n"], o["d"], a)
        return "decltype(std::declval<%s>() %s std::declval<%s>())" % (a, o["op"], b)
    t = {"qt": "qt", "ref": "qt_ref", "cref": "const_qt_ref"}[o["form"]]
    return "%s<unit::%s>" % (t, o["unit"])


def operand_unit(o):
    if o["form"] == "double":
        return None
    if o["form"] == "expr":
        a, b = U(NAMED[o["a"]]), U(NAMED[o["b"]])
        return upow(a, o["n"], o["d"]) if o["op"] == "pow" else (umul(a, b) if o["op"] == "*" else udiv(a, b))
    return U(NAMED[o["unit"]])


def probe_expected(c):
    ua, ub = operand_unit(c["A"]), operand_unit(c["B"])
    if ub is None:
        return ua == NOUNIT
    if ua is None:
        return ub == NOUNIT
    return ua == ub


PROBES = "\n".join(
    ["template <class A, class B> constexpr bool can_%s = requires(A a, B b) { a %s b; };" % (n, o)
     for n, o in OPS.items() if n not in ("assign", "pluseq", "minuseq")] +
    ["template <class A, class B> constexpr bool can_%s = requires(A& a, B b) { a %s b; };" % (n, OPS[n])
     for n in ("assign", "pluseq", "minuseq")])


def probe_tu(cases):
    l = [PREAMBLE, "#include <utility>", PROBES, "int main() {"]
    for i, c in enumerate(cases):
        l.append('  std::printf("R %d %%d\\n", int(can_%s<%s, %s>));' % (i, c["op"], operand_cxx(c["A"]), operand_cxx(c["B"])))
    l.append("  return 0;\n}")
    return "\n".join(l)


def judge_probe(c, got):
    exp = probe_expected(c)
    desc = "%s %s %s" % (operand_cxx(c["A"]), OPS[c["op"]], operand_cxx(c["B"]))
    if got == exp:
        return Result(True, nontrivial=not exp, classes=["probe." + c["op"], "probe.expect_" + ("accept" if exp else "reject"),
                                                        "probe.A." + c["A"]["form"], "probe.B." + c["B"]["form"]])
    if exp:
        return Result(False, key="C20.probe.%s.rejects_same_unit" % c["op"], msg="well-dimensioned operation is not accepted: " + desc)
    return Result(False, key="C20.probe.%s.accepts_mismatch" % c["op"], msg="ill-dimensioned operation is accepted: " + desc)


def check_probe(c):
    out, err = build_and_run(probe_tu([c]), "probe_" + fnv(c))
    if out is None:
        return Result(False, key="C20.probe.hard_error", msg="the probe TU does not compile: " + err)
    return judge_probe(c, out.split()[2] == "1")


def check_negative(c):
    """c = {"program": well dimensioned program, "var": index, "unit": new unit name}"""
    p = c["program"]
    try:
        check_program(p)
    except Ill:
        raise Reject()
    bad = dict(p)
    bad["vars"] = [dict(v) for v in p["vars"]]
    bad["vars"][c["var"]] = dict(bad["vars"][c["var"]], unit=c["unit"])
    bad["vars"][c["var"]].pop("exps", None)
    try:
        check_program(bad)
        raise Reject()  # still well dimensioned
    except Ill as e:
        cls = e.cls
    tag = fnv(c)
    ok_bad, err_bad = syntax_ok(program_syntax_tu(bad), "neg_" + tag)
    if ok_bad:
        return Result(False, key="C20.negative.%s.compiles" % cls,
                      msg="ill-dimensioned program (%s) is accepted by the compiler; variable v%d: %s -> %s" % (
                          cls, c["var"], p["vars"][c["var"]].get("unit", "derived"), c["unit"]))
    ok_fix, err_fix = syntax_ok(program_syntax_tu(p), "fix_" + tag)
    if not ok_fix:
        return Result(False, key="C20.negative.control_rejected",
                      msg="the program with the offending unit fixed does not compile either: " + err_fix)
    nt, cls2 = features(p)
    return Result(True, nontrivial=nt, classes=["ill." + cls] + cls2)


def check_sqrt(p):
    return check_positive(p)


CHECKS = {"positive": check_positive, "probe": check_probe, "negative": check_negative, "square_root": check_sqrt,
          "abs_view": check_positive}
replay_main(CHECKS)

# ------------------------------------------------------------------ strategies
from hypothesis import strategies as st, given, settings, seed, HealthCheck, Phase

values = st.floats(min_value=0.25, max_value=4.0, allow_nan=False, width=64).map(lambda x: round(x, 3) or 0.5) | \
    st.sampled_from([0.5, 1.0, 1.5, 2.0, 3.0])
forms = st.sampled_from(["qt", "qt", "qt", "const", "ref", "cref"])
POWERS = [(2, 1), (3, 1), (-1, 1), (-2, 1), (1, 2), (3, 2), (-1, 2), (1, 3), (2, 3), (2, 4), (4, 2), (0, 1), (1, 1), (4, 1)]


class Builder:
    """builds a well-dimensioned program by construction; variables are created on demand"""

    def __init__(self, draw):
        self.draw = draw
        self.vars = []

    def new_var(self, unit=None, exps=None, mutable=False):
        d = self.draw
        v = {"value": d(values), "form": d(st.sampled_from(["qt", "ref"])) if mutable else d(forms)}
        if unit is not None:
            v["unit"] = unit
            v["spell"] = d(st.sampled_from(["name", "name", "quantity"]))
        else:
            named = [n for n in NAMES if U(NAMED[n]) == exps]
            if named and d(st.booleans()):
                v["unit"] = d(st.sampled_from(named))
                v["spell"] = d(st.sampled_from(["name", "quantity"]))
            else:
                v["exps"] = uj(exps)
        self.vars.append(v)
        return len(self.vars) - 1

    def var_of(self, u, mutable=False):
        """index of a variable of unit u (existing or new)"""
        ok = [i for i, v in enumerate(self.vars) if var_unit(v) == u and (not mutable or v["form"] in ("qt", "ref"))]
        if ok and self.draw(st.integers(0, 3)) > 0:
            return self.draw(st.sampled_from(ok))
        return self.new_var(exps=u, mutable=mutable)

    def no_bare_view(self, e):
        """tfel::math::abs cannot be instantiated for the views qt_ref / const_qt_ref (reported by the
        sub-check "abs_view"): elsewhere a bare view below abs is turned into a value by `1 * v` (exact)"""
        if ABS_VIEW_KNOWN and e["k"] == "v" and self.vars[e["i"]]["form"] in ("ref", "cref"):
            return {"k": "bin", "op": "*", "a": {"k": "i", "x": 1}, "b": e}
        return e

    def scalar(self):
        if self.draw(st.booleans()):
            return {"k": "i", "x": self.draw(st.sampled_from([1, 2, 3, 4]))}
        return {"k": "s", "x": self.draw(st.sampled_from([0.5, 1.5, 2.0, 2.5, 0.75]))}

    def any_expr(self, depth):
        """(expr, unit) of any unit"""
        d = self.draw
        if depth <= 0 or d(st.integers(0, 5)) == 0:
            if self.vars and d(st.integers(0, 2)) > 0:
                i = d(st.integers(0, len(self.vars) - 1))
            else:
                i = self.new_var(unit=d(st.sampled_from(NAMES)))
            return {"k": "v", "i": i}, var_unit(self.vars[i])
        c = d(st.sampled_from(["mul", "mul", "div", "div", "pow", "pow", "add", "add", "neg", "abs", "scal", "rdiv",
                               "ratio_scalar"] +
                              ([] if SQRT_KNOWN else ["sqrt"])))
        if c == "sqrt":
            # square_root is an ordinary operation unless it is a listed known finding (then only the
            # sub-check "square_root" produces it: one failing program spoils a whole batch)
            a, ua = self.any_expr(depth - 1)
            if max(x.denominator for x in ua) > 30:
                return a, ua
            return {"k": "sqrt", "a": {"k": "abs", "a": self.no_bare_view(a)}}, upow(ua, 1, 2)
        if c == "ratio_scalar":
            # `1 - a/b` with a and b of the same unit: a raw scalar combined, on either side, with a quantity
            # without unit
            a, ua = self.any_expr(depth - 1)
            q = {"k": "bin", "op": "/", "a": a, "b": self.expr_of(ua, depth - 1)}
            sc = self.scalar()
            op = d(st.sampled_from("+-"))
            if d(st.integers(0, 2)) > 0:
                return {"k": "bin", "op": op, "a": sc, "b": q}, NOUNIT
            return {"k": "bin", "op": op, "a": q, "b": sc}, NOUNIT
        if c in ("mul", "div"):
            a, ua = self.any_expr(depth - 1)
            b, ub = self.any_expr(depth - 1)
            op = "*" if c == "mul" else "/"
            return {"k": "bin", "op": op, "a": a, "b": b}, (umul(ua, ub) if op == "*" else udiv(ua, ub))
        if c == "pow":
            a, ua = self.any_expr(depth - 1)
            n, dd = d(st.sampled_from(POWERS))
            e = {"k": "pow", "n": n, "d": dd, "a": {"k": "abs", "a": self.no_bare_view(a)} if dd != 1 else a}
            if dd == 1 and d(st.booleans()):
                e["short"] = True
            # exponents stay small: the library's unit arithmetic is on int
            u = upow(ua, n, dd)
            if max(abs(x.numerator) for x in u) > 60 or max(x.denominator for x in u) > 60:
                return a, ua
            return e, u
        if c == "add":
            a, ua = self.any_expr(depth - 1)
            return {"k": "bin", "op": d(st.sampled_from("+-")), "a": a, "b": self.expr_of(ua, depth - 1)}, ua
        if c in ("neg", "abs"):
            a, ua = self.any_expr(depth - 1)
            return {"k": c, "a": self.no_bare_view(a) if c == "abs" else a}, ua
        a, ua = self.any_expr(depth - 1)
        if c == "scal":
            op = d(st.sampled_from("*/"))
            if op == "*" and d(st.booleans()):
                return {"k": "bin", "op": "*", "a": self.scalar(), "b": a}, ua
            return {"k": "bin", "op": op, "a": a, "b": self.scalar()}, ua
        return {"k": "bin", "op": "/", "a": self.scalar(), "b": a}, udiv(NOUNIT, ua)

    def expr_of(self, u, depth):
        """an expression of unit exactly u"""
        d = self.draw
        if depth <= 0 or d(st.integers(0, 3)) == 0:
            return {"k": "v", "i": self.var_of(u)}
        c = d(st.sampled_from(["factor", "factor", "quot", "add", "neg", "scal", "nounit_scalar"]))
        if c == "factor":
            a, ua = self.any_expr(depth - 1)
            return {"k": "bin", "op": "*", "a": a, "b": {"k": "v", "i": self.var_of(udiv(u, ua))}}
        if c == "quot":
            a, ua = self.any_expr(depth - 1)
            return {"k": "bin", "op": "/", "a": {"k": "v", "i": self.var_of(umul(u, ua))}, "b": a}
        if c == "add":
            return {"k": "bin", "op": d(st.sampled_from("+-")), "a": self.expr_of(u, depth - 1), "b": self.expr_of(u, depth - 1)}
        if c == "neg":
            return {"k": "neg", "a": self.expr_of(u, depth - 1)}
        if c == "nounit_scalar" and u == NOUNIT:
            # a quantity without unit may be combined with raw scalars
            # (on either side: `1 - d` is as common as `d - 1`)
            q, sc = self.expr_of(u, depth - 1), self.scalar()
            if d(st.booleans()):
                return {"k": "bin", "op": d(st.sampled_from("+-")), "a": sc, "b": q}
            return {"k": "bin", "op": d(st.sampled_from("+-")), "a": q, "b": sc}
        return {"k": "bin", "op": "*", "a": self.scalar(), "b": self.expr_of(u, depth - 1)}

    def statements(self, n, depth):
        d = self.draw
        out = []
        for _ in range(n):
            c = d(st.sampled_from(["cmp", "cmp", "assign", "pluseq", "minuseq", "scale"]))
            if c == "cmp":
                a, ua = self.any_expr(depth)
                out.append({"k": "cmp", "op": d(st.sampled_from(["<", "<=", ">", ">=", "==", "!="])), "a": a,
                            "b": self.expr_of(ua, depth)})
            elif c == "scale":
                _, u = self.any_expr(0)
                t = self.var_of(u, mutable=True)
                rhs = self.scalar() if d(st.booleans()) else self.expr_of(NOUNIT, 1)
                out.append({"k": "st", "op": d(st.sampled_from(["*=", "/="])), "t": t, "e": rhs})
            else:
                e, u = self.any_expr(depth)
                t = self.var_of(u, mutable=True)
                if e["k"] == "v" and self.vars[e["i"]]["form"] == "ref" and self.vars[t]["form"] == "ref":
                    # qt_ref = qt_ref of the very same type is the (deleted) copy assignment of a
                    # reference wrapper: a C++ matter, not a dimensional one
                    e = {"k": "neg", "a": {"k": "neg", "a": e}}
                out.append({"k": "st", "op": {"assign": "=", "pluseq": "+=", "minuseq": "-="}[c], "t": t, "e": e})
        return out


@st.composite
def programs(draw, max_depth=3, max_stmts=3):
    b = Builder(draw)
    stmts = b.statements(draw(st.integers(0, max_stmts)), draw(st.integers(1, 2)))
    res, _ = b.any_expr(draw(st.integers(1, max_depth)))
    return {"vars": b.vars, "stmts": stmts, "result": res}


@st.composite
def sqrt_programs(draw):
    b = Builder(draw)
    a, _ = b.any_expr(draw(st.integers(0, 1)))
    return {"vars": b.vars, "stmts": [], "result": {"k": "sqrt", "a": {"k": "abs", "a": b.no_bare_view(a)}}}


@st.composite
def abs_view_programs(draw):
    b = Builder(draw)
    i = b.new_var(unit=draw(st.sampled_from(NAMES)))
    b.vars[i]["form"] = draw(st.sampled_from(["ref", "cref"]))
    e = {"k": "abs", "a": {"k": "v", "i": i}}
    if draw(st.booleans()):
        e = {"k": "bin", "op": "*", "a": e, "b": {"k": "v", "i": b.new_var(unit=draw(st.sampled_from(NAMES)))}}
    return {"vars": b.vars, "stmts": [], "result": e}


@st.composite
def negatives(draw):
    p = draw(programs(max_depth=2, max_stmts=2))
    used = sorted(set(n["i"] for e in program_exprs(p) for n in walk(e) if n["k"] == "v") |
                  set(s["t"] for s in p["stmts"] if s["k"] == "st"))
    i = draw(st.sampled_from(used))
    old = var_unit(p["vars"][i])
    new = draw(st.sampled_from([n for n in NAMES if U(NAMED[n]) != old]))
    return {"program": p, "var": i, "unit": new}


@st.composite
def operands(draw, allow_double=True, unit=None):
    f = draw(st.sampled_from(["qt", "qt", "ref", "cref", "expr"] + (["double"] if allow_double else [])))
    if f == "double":
        return {"form": "double"}
    if f == "expr" and unit is None:
        op = draw(st.sampled_from(["*", "/", "pow"]))
        o = {"form": "expr", "op": op, "a": draw(st.sampled_from(NAMES)), "b": draw(st.sampled_from(NAMES))}
        if op == "pow":
            o["n"], o["d"] = draw(st.sampled_from(POWERS))
        return o
    return {"form": f if f != "expr" else "qt", "unit": unit or draw(st.sampled_from(NAMES))}


def fix_ref_copy(c):
    """qt_ref = qt_ref (same type) is the deleted copy assignment of a reference wrapper"""
    if c["op"] == "assign" and c["A"]["form"] == "ref" and c["B"]["form"] == "ref":
        c["B"] = dict(c["B"], form="qt")
    return c


@st.composite
def probes(draw):
    op = draw(st.sampled_from(sorted(OPS)))
    mut = op in ("assign", "pluseq", "minuseq")
    if draw(st.integers(0, 4)) == 0:
        # control: same unit on both sides (possibly through an expression type)
        B = draw(operands(allow_double=False))
        ub = operand_unit(B)
        named = [n for n in NAMES if U(NAMED[n]) == ub]
        if not named:
            B = draw(operands(allow_double=False, unit=draw(st.sampled_from(NAMES))))
            named = [n for n in NAMES if U(NAMED[n]) == operand_unit(B)]
        A = {"form": draw(st.sampled_from(["qt", "ref"] if mut else ["qt", "ref", "cref"])), "unit": draw(st.sampled_from(named))}
        return fix_ref_copy({"op": op, "A": A, "B": B})
    A = draw(operands(allow_double=not mut))
    if mut and A["form"] in ("cref", "expr"):
        A = {"form": "qt", "unit": A.get("unit") or A["a"]}
    B = draw(operands(allow_double=A["form"] != "double"))
    return fix_ref_copy({"op": op, "A": A, "B": B})


def collect(strategy, n, offset):
    """n distinct examples drawn by Hypothesis (generation only; the evaluation is batched)"""
    got = {}

    @seed(SEED * 7 + offset)
    @settings(max_examples=max(n * 3, 20), database=None, deadline=None, suppress_health_check=list(HealthCheck),
              phases=[Phase.generate])
    @given(strategy)
    def g(x):
        if len(got) < n:
            got.setdefault(fnv(x), x)

    g()
    return list(got.values())


def shrink_positive(p, key):
    """smallest failing sub-program (result replaced by one of its sub-expressions, statements dropped)"""
    best = p
    cands = []
    for e in walk(p["result"]):
        cands.append({"vars": p["vars"], "stmts": [], "result": e})
    cands.sort(key=lambda q: len(ex(q["result"], False)))
    for q in cands[:6]:
        try:
            r = check_positive(q)
        except Reject:
            continue
        if not r.ok and r.key == key:
            return q, r
    return best, None


# ------------------------------------------------------------------ main
u = Unit("C20_quantities")
npos = param("positive", 60)
nprobe = param("probes", 120)
nneg = param("negatives", 8)
nsqrt = param("square_roots", 4)
jobs = min(JOBS, param("jobs", 4))

pos = [p for p in collect(programs(), npos, 1)]
sq = collect(sqrt_programs(), nsqrt, 2)
prb = collect(probes(), nprobe, 3)


def is_negative(c):
    """the mutated program is ill dimensioned for the generator's checker (pure, no compilation)"""
    bad = dict(c["program"])
    bad["vars"] = [dict(v) for v in bad["vars"]]
    bad["vars"][c["var"]] = dict(bad["vars"][c["var"]], unit=c["unit"])
    bad["vars"][c["var"]].pop("exps", None)
    try:
        check_program(bad)
        return False
    except Ill:
        return True


neg = collect(negatives().filter(is_negative), nneg, 4)
absv = collect(abs_view_programs(), param("abs_views", 1), 5)


def run_positive_batch(batch):
    progs, tag = batch
    body = [PREAMBLE]
    for i, p in enumerate(progs):
        body.append(program_function(p, "p%d" % i, expected_unit(p)))
    body.append("int main(){\n" + "\n".join("  p%d();" % i for i in range(len(progs))) + "\n  return 0;\n}\n")
    out, err = build_and_run("\n".join(body), tag)
    if out is None:
        # locate the offending programs through the line numbers of the diagnostics, check (a few of)
        # them alone and evaluate the others in a batch without them
        starts, n = [], 0
        for b in body[:-1]:
            starts.append(n + 1)
            n += b.count("\n") + 1
        bad = set()
        for ln in ERROR_LINES.get(tag, []):
            k = max(i for i, st0 in enumerate(starts) if st0 <= ln) - 1  # body[0] is the preamble
            if 0 <= k < len(progs):
                bad.add(k)
        if not bad or len(bad) == len(progs) or tag.count("_r") >= 3:
            return [check_positive(p) for p in progs]
        res = {}
        for j, k in enumerate(sorted(bad)):
            res[k] = check_positive(progs[k]) if j < 3 else None
        good = [k for k in range(len(progs)) if k not in bad]
        for k, r in zip(good, run_positive_batch(([progs[k] for k in good], tag + "_r"))):
            res[k] = r
        return [res[k] for k in range(len(progs))]
    lines = {l.split()[1]: l.split()[2:10] for l in out.splitlines() if l.startswith("P ")}
    return [judge_positive_line(p, lines["p%d" % i]) for i, p in enumerate(progs)]


def run_probe_batch(batch):
    cases, tag = batch
    out, err = build_and_run(probe_tu(cases), tag)
    if out is None:
        return [check_probe(c) for c in cases]
    got = {int(l.split()[1]): l.split()[2] == "1" for l in out.splitlines() if l.startswith("R ")}
    return [judge_probe(c, got[i]) for i, c in enumerate(cases)]


def run_negative(c):
    try:
        return check_negative(c)
    except Reject:
        return None


tasks = []
nb = max(1, param("positive_batches", 2))
for k in range(nb):
    chunk = pos[k::nb]
    if chunk:
        tasks.append(("positive", chunk, run_positive_batch, (chunk, "positive_batch%d" % k)))
if sq:
    tasks.append(("square_root", sq, run_positive_batch, (sq, "sqrt_batch")))
for k in range(0, len(prb), 300):  # at most 300 probes per translation unit
    chunk = prb[k:k + 300]
    tasks.append(("probe", chunk, run_probe_batch, (chunk, "probe_batch%d" % (k // 300))))
for c in neg:
    tasks.append(("negative", [c], lambda a: [run_negative(a)], c))
for p in absv:
    tasks.append(("abs_view", [p], lambda a: [check_positive(a)], p))

results = parallel_map(lambda t: t[2](t[3]), tasks, jobs=jobs)
reported = set()
shrunk = []
for (sub, cases, fn, arg), rs in zip(tasks, results):
    for case, r in zip(cases, rs):
        if r is None:
            u.discard(sub)
            continue
        if r.ok:
            u.case(sub, case, r.nontrivial, r.classes)
            continue
        if not u.is_known(r.key) and r.key in reported:
            continue
        reported.add(r.key)
        if sub in ("positive", "square_root") and not u.is_known(r.key) and not shrunk:
            # only the first new failure is shrunk (each shrink step is a compilation)
            shrunk.append(r.key)
            small, r2 = shrink_positive(case, r.key)
            if r2 is not None:
                case, r = small, r2
        u.fail(sub, r.key, r.msg, case)
u.extra["generated"] = {"positive": len(pos), "square_root": len(sq), "probe": len(prb), "negative": len(neg)}
sys.exit(u.finish())
