#!/usr/bin/env python3-vt
"""C51 (tfel-check part) - verdicts of tfel-check comparisons are sound.

Generated .check files + data files (17 significant digits, `nan`/`inf`
spellings) are given to the real `tfel-check` executable of the hooks tree; the
verdict of every comparison is read back from the terminal output
(`** Compare-i ... [SUCCESS]|[ FAILED]`) and compared to an oracle that is
one-directional wherever docs/web/tfel-check.md is silent (DESIGN.md 3.3):

  sub "pointwise"  @TestType Absolute | Relative | RelativeAndAbsolute | Mixed, no interpolation
     SUCCESS  =>  both columns have the same length, every compared pair is finite and
                  |a-b| <= prec                       (Absolute; exactly the documented criterion)
                  |a-b| <= prec*max(|a|,|b|) (+prec2) (other types: necessary under any reading)
     identical columns / a file compared with itself (finite values)  =>  SUCCESS
     Absolute only (documented: "a difference of 100Pa is allowed"): all pairs finite and
                  within  =>  SUCCESS
     exit status != 0  <=>  at least one comparison FAILED
     metamorphic: each comparison is repeated in the same .check file with both data columns negated and must
                  get the same verdict (every type is a function of |a-b|, |a|, |b|); key C51.<type>.sign_flip_verdict
  sub "interp"     the same with `@Interpolation Linear|Spline|LocalSpline using 1` and a
     reference which is an affine function of the abscissa (every interpolation
     scheme reproduces it up to round-off), result abscissae inside the reference's range
     SUCCESS  =>  every result value is within tolerance (+1e-9 relative slack) of the affine
                  reference taken at the *result's* abscissa
     file compared with itself / same grid and identical values  =>  SUCCESS
  sub "area"       `@TestType Area interpolation <I> using 1`
     identical curves => SUCCESS ; integral(|a-b|)/N > 10*prec for every plausible
     normalisation N  =>  FAILED

A case is a pure JSON description of the files (all strings), so the replay file
is self-contained; the command line is `tfel-check` (no argument) in the directory
holding the generated files.
"""
import math
import os
import re
import shutil
import sys
from fractions import Fraction

from verifpy import (Unit, Result, Reject, run_hypothesis, replay_main, WORK, SEED, KNOWN, param, tool, run)

ANSI = re.compile(r"\x1b\[[0-9;]*m|\x0f")
POINTWISE = ["Absolute", "Relative", "RelativeAndAbsolute", "Mixed"]
KEYNAME = {"Absolute": "absolute", "Relative": "relative", "RelativeAndAbsolute": "relabs", "Mixed": "mixed"}
EPS_REL = 100. * sys.float_info.min  # the `eps` of RelativeComparison.cxx (denominator floor)
_counter = [0]


def fmt(x):
    if math.isnan(x):
        return "nan"
    if math.isinf(x):
        return "inf" if x > 0 else "-inf"
    return "%.17g" % x


def val(s):
    return float(s)


def ulp(x):
    return math.ulp(x) if math.isfinite(x) else float("inf")


# ------------------------------------------------------------------ running the tool
def write_data(path, t, v, legend):
    with open(path, "w") as f:
        if legend:
            f.write("T A\n")
        for ti, vi in zip(t, v):
            f.write("%s %s\n" % (ti, vi))


def build_check(d, cmps, area=False):
    """writes the data files and case.check in directory d; returns the text of the .check file"""
    lines = []
    for i, c in enumerate(cmps):
        legend = c.get("legend", False)
        col = "'A'" if legend else "2"
        tcol = "'T'" if legend else "1"
        fa = "c%d.res" % i
        fb = fa if c.get("self") else "c%d.ref" % i
        write_data(os.path.join(d, fa), c["ta"], c["a"], legend)
        if not c.get("self"):
            write_data(os.path.join(d, fb), c["tb"], c["b"], legend)
        if area:
            lines.append("@TestType Area interpolation %s using %s;" % (c["interp"], tcol))
            lines.append("@Precision %s;" % c["prec"])
        else:
            if not (c.get("reuse") and i > 0 and cmps[i - 1]["type"] == c["type"]):
                lines.append("@TestType %s;" % c["type"])  # otherwise: declared under the previous @TestType
            if c.get("prec2") is not None:
                lines.append("@Precision %s %s;" % (c["prec"], c["prec2"]))
            else:
                lines.append("@Precision %s 0;" % c["prec"])
            it = c.get("interp", "None")
            if it == "None":
                lines.append("@Interpolation None;")
            else:
                lines.append("@Interpolation %s using %s;" % (it, tcol))
        f1, f2 = (fb, fa) if c.get("swap") else (fa, fb)
        lines.append("@Test '%s' '%s' %s;" % (f1, f2, col))
    txt = "\n".join(lines) + "\n"
    with open(os.path.join(d, "case.check"), "w") as f:
        f.write(txt)
    return txt


def run_tfel_check(cmps, sub, area=False):
    """returns (exit code, list of verdicts (True/False) or None when unreadable, output, .check text)"""
    _counter[0] += 1
    d = os.path.join(WORK, "%s_%d_%d" % (sub, os.getpid(), _counter[0]))
    shutil.rmtree(d, ignore_errors=True)
    os.makedirs(d)
    txt = build_check(d, cmps, area)
    rc, so, se = run([tool("tfel-check")], cwd=d, timeout=300)
    out = ANSI.sub("", so + se)
    verdicts = {}
    for m in re.finditer(r"^\*\* Compare-(\d+) .*\[\s*(SUCCESS|FAILED)\]\s*$", out, re.M):
        verdicts[int(m.group(1))] = (m.group(2) == "SUCCESS")
    v = [verdicts.get(i + 1) for i in range(len(cmps))]
    endv = re.search(r"^\* end of test '\./case\.check'\s*\[\s*(SUCCESS|FAILED)\]", out, re.M)
    shutil.rmtree(d, ignore_errors=True)
    return rc, v, (endv.group(1) if endv else None), out, txt


def negated(c, first):
    """the same comparison with both data columns negated (abscissae unchanged)"""
    d = dict(c)
    d["a"] = [fmt(-val(x)) for x in c["a"]]
    d["b"] = [fmt(-val(x)) for x in c["b"]]
    if first:
        d["reuse"] = False  # the mirrored group starts under its own @TestType statement
    return d


# ------------------------------------------------------------------ oracles
def pair_bound(typ, a, b, prec, prec2):
    """exact upper bound (Fraction) on |a-b| that is necessary for SUCCESS under any reading"""
    if typ == "Absolute":
        return Fraction(prec)
    m = max(abs(Fraction(a)), abs(Fraction(b))) + Fraction(EPS_REL)
    bd = Fraction(prec) * m * (1 + Fraction(1, 10 ** 12))
    if typ in ("RelativeAndAbsolute", "Mixed"):
        bd += Fraction(prec2)
    return bd


def analyse_pointwise(c):
    """returns dict(nonfinite, outside(list of rows), lengths_differ, identical, near) from the data itself"""
    a = [val(x) for x in c["a"]]
    b = a if c.get("self") else [val(x) for x in c["b"]]
    prec = val(c["prec"])
    prec2 = val(c["prec2"]) if c.get("prec2") is not None else 0.
    r = {"nonfinite": False, "outside": [], "lengths_differ": len(a) != len(b), "near": False,
         "identical": c.get("self", False) or ([fmt(x) for x in a] == [fmt(x) for x in b]),
         "negative": any(x < 0 for x in b if math.isfinite(x)), "n": min(len(a), len(b)), "grey": False}
    for i, (x, y) in enumerate(zip(a, b)):
        if not (math.isfinite(x) and math.isfinite(y)):
            r["nonfinite"] = True
            continue
        err = abs(Fraction(x) - Fraction(y))
        bd = pair_bound(c["type"], x, y, prec, prec2)
        if c["type"] == "Absolute":
            # the documented criterion itself: abs(x - y) > prec in binary64 implies |x-y| > prec exactly
            # (rounding is monotone); exact |x-y| <= prec implies the binary64 test passes
            if abs(x - y) > prec:
                r["outside"].append(i)
            elif err > bd:
                r["grey"] = True
        elif err > bd:
            r["outside"].append(i)
        # non-trivial: within 2 ulp (of the larger operand) of the threshold of the tool's own formula
        tol = {"Absolute": prec, "Relative": prec * min(abs(x), abs(y)),
               "RelativeAndAbsolute": max(prec * min(abs(x), abs(y)), prec2),
               "Mixed": prec * abs(y) + prec2}[c["type"]]
        if abs(abs(x - y) - tol) <= 2 * max(ulp(x), ulp(y), ulp(tol)):
            r["near"] = True
    return r


def check_pointwise(case):
    # metamorphic sub-claim: every comparison type is a function of |a-b|, |a| and |b| only, so the verdicts must
    # not change when both data columns are negated.  The mirrored comparisons are appended to the same .check
    # file (they also go through the one-directional oracle below)
    n0 = len(case["cmps"])
    cmps = list(case["cmps"]) + [negated(c, i == 0) for i, c in enumerate(case["cmps"])]
    rc, verdicts, endv, out, txt = run_tfel_check(cmps, "pw")
    classes = []
    nontrivial = False
    fails = []
    if rc < 0 or rc > 1 or any(v is None for v in verdicts):
        return Result(False, "C51.pointwise.no_verdict",
                      "tfel-check gave no verdict (exit %s) for\n%s\n%s" % (rc, txt, out[-1500:]))
    sticky = False
    stickies = []
    for i, (c, v) in enumerate(zip(cmps, verdicts)):
        k = KEYNAME[c["type"]]
        an = analyse_pointwise(c)
        if i < n0:
            classes.append("type." + k)
        shared = bool(c.get("reuse") and i > 0 and cmps[i - 1]["type"] == c["type"])
        sticky = shared and (sticky or not verdicts[i - 1])  # an earlier comparison under the same @TestType failed
        stickies.append(sticky)
        if shared and i < n0:
            classes.append("shared_testtype" + (".after_failure" if sticky else ""))
        where = "comparison %d (%s, prec %s %s) of\n%s" % (i + 1, c["type"], c["prec"], c.get("prec2"), txt)
        if an["nonfinite"]:
            classes.append("nonfinite")
            nontrivial = True
            if v:
                fails.append(("C51.%s.nonfinite_success" % k,
                              "SUCCESS although a compared value is NaN/Inf: a=%s b=%s; %s" % (
                                  c["a"], c.get("b"), where)))
            continue
        if an["near"]:
            nontrivial = True
            classes.append("near_threshold")
        if an["lengths_differ"]:
            classes.append("lengths_differ")
            if v:
                fails.append(("C51.%s.length_mismatch_success" % k,
                              "SUCCESS although the columns have %d and %d rows; %s" % (
                                  len(c["a"]), len(c["b"]), where)))
            continue
        if an["outside"]:
            classes.append("outside")
            if v:
                j = an["outside"][0]
                fails.append(("C51.%s.outside_success" % k,
                              "SUCCESS although row %d (a=%s, b=%s) is out of tolerance; %s" % (
                                  j + 1, c["a"][j], (c["a"] if c.get("self") else c["b"])[j], where)))
            continue
        if an["identical"]:
            classes.append("identical" + (".negative" if an["negative"] else ""))
            if not v:
                key = "C51.%s.identical_failed" % k
                if sticky:
                    key = "C51.shared_testtype.failed_after_failure"
                elif c["type"] == "Mixed" and an["negative"]:
                    key = "C51.mixed.identical_negative_reference_failed"
                fails.append((key, "FAILED although %s; %s" % (
                    "the file is compared with itself" if c.get("self") else "both columns are identical", where)))
            continue
        if an["grey"]:
            classes.append("grey")
            continue
        classes.append("within")
        if c["type"] == "Absolute" and not v:
            fails.append(("C51.shared_testtype.failed_after_failure" if sticky else "C51.absolute.within_failed",
                          "FAILED although every |a-b| <= prec: a=%s b=%s; %s" % (c["a"], c["b"], where)))
    for i in range(n0):
        c = cmps[i]
        if stickies[i] or stickies[n0 + i]:
            continue  # verdict forced by the (known) sticky failure flag of a shared Comparison object
        if any(val(x) != 0 and math.isfinite(val(x)) for x in c["a"] + c["b"]):
            classes.append("sign_flip")
        if verdicts[i] != verdicts[n0 + i]:
            fails.append(("C51.%s.sign_flip_verdict" % KEYNAME[c["type"]],
                          "comparison %d (%s, prec %s %s, a=%s b=%s) is %s but the same comparison with both columns "
                          "negated (comparison %d) is %s:\n%s" % (
                              i + 1, c["type"], c["prec"], c.get("prec2"), c["a"], c["a"] if c.get("self") else c["b"],
                              "SUCCESS" if verdicts[i] else "FAILED", n0 + i + 1,
                              "SUCCESS" if verdicts[n0 + i] else "FAILED", txt)))
    anyfail = any(not v for v in verdicts)
    if (rc != 0) != anyfail or (endv == "SUCCESS") == anyfail:
        fails.append(("C51.exit_status",
                      "exit status %d / end of test %s but comparisons %s for\n%s" % (rc, endv, verdicts, txt)))
    if fails:
        unknown = [f for f in fails if f[0] not in KNOWN]
        key, msg = (unknown or fails)[0]
        return Result(False, key, msg)
    return Result(True, nontrivial=nontrivial, classes=sorted(set(classes)),
                  sample={"check": txt, "verdicts": verdicts})


def affine_ref(c):
    return Fraction(val(c["alpha"])), Fraction(val(c["beta"]))


def check_interp(case):
    c = case
    k = KEYNAME[c["type"]]
    rc, verdicts, endv, out, txt = run_tfel_check([c], "ip")
    if rc < 0 or rc > 1 or verdicts[0] is None:
        return Result(False, "C51.interp.no_verdict", "tfel-check gave no verdict (exit %s) for\n%s\n%s" % (rc, txt, out[-1500:]))
    v = verdicts[0]
    classes = ["interp." + c["interp"], "type." + k, "class." + c["cls"]]
    ta = [val(x) for x in c["ta"]]
    a = [val(x) for x in c["a"]]
    where = "(%s, %s, prec %s %s, result t=%s a=%s; reference t=%s b=%s) %s" % (
        c["type"], c["interp"], c["prec"], c.get("prec2"), c["ta"], c["a"], c.get("tb"), c.get("b"), txt)
    if c.get("self") or (c["ta"] == c["tb"] and c["a"] == c["b"]):
        if not v:
            return Result(False, "C51.interp.identical_failed", "FAILED although the curves are identical " + where)
        return Result(True, nontrivial=False, classes=classes)
    # the reference is b(t) = alpha + beta t exactly representable at its knots: any interpolation
    # scheme gives alpha + beta t (+ round-off <= 1e-9 * range) inside the range of the knots
    al, be = affine_ref(c)
    prec = val(c["prec"])
    prec2 = val(c["prec2"]) if c.get("prec2") is not None else 0.
    scale = max(abs(Fraction(val(x))) for x in c["b"]) + 1
    outside = []
    for i, (t, x) in enumerate(zip(ta, a)):
        ref = al + be * Fraction(t)
        err = abs(Fraction(x) - ref)
        bd = pair_bound(c["type"], x, float(ref), prec, prec2) + scale / 10 ** 9
        if err > 4 * bd:
            outside.append((i, float(ref)))
    if outside and v:
        i, ref = outside[0]
        indexwise = len(c["a"]) == len(c["b"]) and all(
            abs(Fraction(val(x)) - Fraction(val(y))) <= pair_bound(c["type"], val(x), val(y), prec, prec2)
            for x, y in zip(c["a"], c["b"]))
        key = "C51.interp.ignored_indexwise_success" if indexwise else "C51.interp.outside_success"
        return Result(False, key, "SUCCESS although the result at t=%s is %s and the interpolated reference is %.17g %s" % (
            c["ta"][i], c["a"][i], ref, where))
    if (rc != 0) != (not v):
        return Result(False, "C51.exit_status", "exit status %d but comparison %s for %s" % (rc, v, txt))
    return Result(True, nontrivial=bool(outside) or c["cls"] in ("right_time",), classes=classes,
                  sample={"check": txt, "verdict": v})


def trapz(t, y):
    return sum((t[i + 1] - t[i]) * (y[i + 1] + y[i]) / 2 for i in range(len(t) - 1))


def check_area(case):
    c = case
    rc, verdicts, endv, out, txt = run_tfel_check([c, negated(c, True)], "ar", area=True)
    classes = ["area." + c["interp"], "class." + c["cls"]]
    where = "(Area, %s, prec %s, t=%s a=%s; t=%s b=%s) %s" % (c["interp"], c["prec"], c["ta"], c["a"], c.get("tb"), c.get("b"), txt)
    if rc < 0 or rc > 1 or verdicts[0] is None or verdicts[1] is None:
        return Result(False, "C51.area.crash", "tfel-check died (exit %s) on an Area comparison %s %s" % (rc, where, out[-600:]))
    v = verdicts[0]
    flip = None
    if verdicts[0] != verdicts[1]:
        # while the signed normalisation is a listed finding, its sign dependence is that very defect
        key = "C51.area.nonpositive_reference_success" if "C51.area.nonpositive_reference_success" in KNOWN \
            else "C51.area.sign_flip_verdict"
        flip = Result(False, key, "Area comparison is %s but the same curves negated are %s %s" % (
            "SUCCESS" if verdicts[0] else "FAILED", "SUCCESS" if verdicts[1] else "FAILED", where))
    if c.get("self") or (c["ta"] == c["tb"] and c["a"] == c["b"]):
        if not v or not verdicts[1]:
            return Result(False, "C51.area.identical_failed", "FAILED although the curves are identical " + where)
        return Result(True, nontrivial=False, classes=classes)
    # same grid, finite values: the area between the curves does not depend on the interpolation
    t = [Fraction(val(x)) for x in c["ta"]]
    a = [Fraction(val(x)) for x in c["a"]]
    b = [Fraction(val(x)) for x in c["b"]]
    area = trapz(t, [abs(x - y) for x, y in zip(a, b)])
    norms = [max(abs(x) for x in a), max(abs(x) for x in b), trapz(t, [abs(x) for x in a]), trapz(t, [abs(x) for x in b]),
             (t[-1] - t[0]) * max(abs(x) for x in a + b), Fraction(1)]
    far = all(area > 10 * Fraction(val(c["prec"])) * n for n in norms)
    if far:
        classes.append("far_outside" + (".negative" if max(a) < 0 or max(b) < 0 else ""))
        for neg, vv in ((False, v), (True, verdicts[1])):
            if vv:
                key = "C51.area.outside_success"
                if (min(a) >= 0 or min(b) >= 0) if neg else (max(a) <= 0 or max(b) <= 0):
                    key = "C51.area.nonpositive_reference_success"
                return Result(False, key, "SUCCESS although the area between the curves%s is %g (smallest normalised value %g) %s" % (
                    " (both negated)" if neg else "", float(area), float(min(area / n for n in norms)), where))
    if flip is not None:
        return flip
    if (rc != 0) != (not (v and verdicts[1])):
        return Result(False, "C51.exit_status", "exit status %d but comparisons %s for %s" % (rc, verdicts, txt))
    return Result(True, nontrivial=far, classes=classes + ["sign_flip"], sample={"check": txt, "verdicts": verdicts})


# ------------------------------------------------------------------ generators
def strategies():
    from hypothesis import strategies as st

    dyadic = st.integers(-2 ** 24, 2 ** 24).map(lambda m: m / 2. ** 12)
    anyval = st.one_of(
        st.builds(lambda m, e, s: s * m * 10. ** e, st.floats(0.1, 10.), st.integers(-6, 9), st.sampled_from([-1., 1.])),
        dyadic, st.sampled_from([0., 1., -1., 100., -2.5e8]))
    prec_s = st.one_of(st.builds(lambda m, e: m * 10. ** e, st.sampled_from([1., 2., 5., 1.5]), st.integers(-14, 2)),
                       st.integers(1, 2 ** 16).map(lambda m: m / 2. ** 12))
    ROWCLS = ["identical", "within", "at", "ulp", "just_outside", "far", "flip", "min_straddle", "opp", "zero_a", "zero_b", "zero_both",
              "nan_a", "nan_b", "nan_both", "inf_a", "inf_b", "inf_both", "inf_opp"]

    def make_row(typ, prec, prec2, cls, b, theta, sgn, k):
        tol = {"Absolute": prec, "Relative": prec * abs(b), "RelativeAndAbsolute": max(prec * abs(b), prec2),
               "Mixed": prec * abs(b) + prec2}[typ]
        nan, inf = float("nan"), float("inf")
        if cls == "identical":
            return b, b
        if cls == "within":
            return b + sgn * 0.9 * theta * tol, b
        if cls == "at":
            return b + sgn * tol, b
        if cls == "ulp":
            x = b + sgn * tol
            for _ in range(abs(k)):
                x = math.nextafter(x, inf if k > 0 else -inf)
            return x, b
        if cls == "just_outside":
            return b + sgn * tol * (1.01 + 2 * theta) + sgn * 4 * ulp(b), b
        if cls == "far":
            return b + sgn * (tol + 1e-3 * abs(b) + 1e-12) * 10. ** (1 + 5 * theta), b
        if cls == "flip":
            return -b, b
        if cls == "min_straddle":
            # same sign, |a| > |b|, relative error (min normalisation) just above prec but below prec under a
            # normalisation by the larger magnitude: |a-b|/|b| = prec (1+eta), eta <= prec/(1-prec)
            eta = 1e-12 + theta * 0.9 * (prec / (1 - prec) if prec < 0.5 else 1.)
            return b * (1 + prec * (1 + eta)), b
        if cls == "opp":
            # opposite signs: |a-b|/min(|a|,|b|) = 1 + max/min straddles prec when prec > 2
            r = (prec - 1) * (1 + sgn * (1e-9 + 0.05 * theta)) if prec > 2 else 1 + 3 * theta
            return -b * r, b
        if cls == "zero_a":
            return 0., b
        if cls == "zero_b":
            return sgn * theta * 2 * max(prec, prec2), 0.
        if cls == "zero_both":
            return 0., 0.
        return {"nan_a": (nan, b), "nan_b": (b, nan), "nan_both": (nan, nan), "inf_a": (sgn * inf, b),
                "inf_b": (b, sgn * inf), "inf_both": (sgn * inf, sgn * inf), "inf_opp": (inf, -inf)}[cls]

    @st.composite
    def comparison(draw):
        typ = draw(st.sampled_from(POINTWISE))
        prec = draw(prec_s)
        prec2 = draw(st.one_of(st.just(0.), prec_s)) if typ in ("RelativeAndAbsolute", "Mixed") else None
        mode = draw(st.sampled_from(["self", "identical", "good", "exact", "exact", "one_bad", "one_bad", "one_bad",
                                     "mixed", "mixed", "lengths"]))
        if mode == "exact":  # dyadic values: b +- prec is exact, the pair sits exactly on the Absolute threshold
            prec = draw(st.integers(1, 2 ** 16).map(lambda m: m / 2. ** 12))
        n = draw(st.integers(1, 12 if mode != "lengths" else 6))
        sign = draw(st.sampled_from(["any", "any", "negative", "positive"]))
        rowcls = ROWCLS if draw(st.integers(0, 2)) == 0 else ROWCLS[:12]
        rows = []
        bad = draw(st.integers(0, n - 1))
        for i in range(n):
            if mode in ("self", "identical"):
                cls = "identical"
            elif mode == "one_bad":  # a single row out of tolerance, on one side: one-sided / sign errors show
                cls = draw(st.sampled_from(["just_outside", "far", "far", "flip", "min_straddle", "min_straddle", "opp"])) if i == bad else draw(
                    st.sampled_from(["identical", "within"]))
            elif mode == "good":
                cls = draw(st.sampled_from(["identical", "within", "at", "ulp", "zero_both"]))
            elif mode == "exact":
                cls = draw(st.sampled_from(["identical", "within", "at", "at"]))
            else:
                cls = draw(st.sampled_from(rowcls))
            b = draw(dyadic if mode == "exact" else anyval)
            if sign == "negative":
                b = -abs(b)
            elif sign == "positive":
                b = abs(b)
            theta = draw(st.floats(0., 1.))
            sgn = draw(st.sampled_from([-1., 1.]))
            k = draw(st.sampled_from([-2, -1, 1, 2]))
            x, y = make_row(typ, prec, prec2 or 0., cls, b, theta, sgn, k)
            if math.isfinite(x) and (abs(x) > 1e300 or (x != 0 and abs(x) < 1e-300)):
                x = b  # overflow / subnormal spellings are rejected by std::stod: outside the input domain
            rows.append((x, y))
        t = [fmt(float(i)) for i in range(n)]
        c = {"type": typ, "prec": fmt(prec), "prec2": None if prec2 is None else fmt(prec2),
             "self": mode == "self", "swap": draw(st.booleans()), "legend": draw(st.booleans()),
             "ta": t, "a": [fmt(r[0]) for r in rows], "tb": t, "b": [fmt(r[1]) for r in rows]}
        if mode == "self":
            c["a"] = c["b"]
        if mode == "lengths":
            m = draw(st.integers(1, n + 3).filter(lambda q: q != n))
            c["tb"] = [fmt(float(i)) for i in range(m)]
            c["b"] = (c["b"] * (m // n + 1))[:m]
        return c

    def finish(args):
        l, same, reuse = args
        for i, c in enumerate(l):
            if same:  # several comparisons of one type (the data keep their classes only approximately: the oracle
                c["type"] = l[0]["type"]  # is computed from the data)
                if c["type"] in ("RelativeAndAbsolute", "Mixed") and c["prec2"] is None:
                    c["prec2"] = "0"
            c["reuse"] = bool(reuse[i % len(reuse)])
        return {"cmps": l}

    pointwise = st.tuples(st.lists(comparison(), min_size=1, max_size=4), st.sampled_from([False, False, True]),
                          st.lists(st.sampled_from([False, True, True]), min_size=4, max_size=4)).map(finish)

    @st.composite
    def interp(draw, area=False):
        typ = draw(st.sampled_from(POINTWISE))
        it = draw(st.sampled_from(["Linear", "Spline", "LocalSpline"] + (["None"] if area else [])))
        cls = draw(st.sampled_from(["self", "same_grid", "wrong_time", "right_time", "far_outside", "more_rows", "less_rows"]
                                   if not area else ["self", "same_grid", "far", "far", "far_negative", "within"]))
        alpha = draw(st.integers(-64, 64).map(float))
        beta = draw(st.integers(-16, 16).filter(lambda q: q != 0).map(float))
        nb = draw(st.integers(4, 10))
        # strictly increasing dyadic abscissae
        steps = draw(st.lists(st.integers(1, 16), min_size=nb - 1, max_size=nb - 1))
        tb = [0.]
        for s in steps:
            tb.append(tb[-1] + s / 4.)
        b = [alpha + beta * t for t in tb]
        small = area or cls == "wrong_time"
        prec = draw(st.sampled_from([1e-6, 1e-3, 0.015625] + ([] if small else [0.5])))
        prec2 = draw(st.sampled_from([0., 1e-6] + ([] if small else [0.25]))) if typ in ("RelativeAndAbsolute", "Mixed") else None
        c = {"type": typ, "interp": it, "cls": cls, "prec": fmt(prec), "prec2": None if prec2 is None else fmt(prec2),
             "alpha": fmt(alpha), "beta": fmt(beta), "legend": draw(st.booleans()), "swap": False, "self": cls == "self",
             "tb": [fmt(t) for t in tb], "b": [fmt(x) for x in b]}
        if area:
            # same grid (the area is then independent of the interpolation); curves shifted to be of one sign
            shift = draw(st.sampled_from([0., 1000., -1000.]))
            if cls == "far_negative":
                shift = -1000.
            b = [x + shift for x in b]
            c["b"] = [fmt(x) for x in b]
            c["ta"] = c["tb"]
            if cls in ("self", "same_grid"):
                c["a"] = c["b"]
            elif cls == "within":
                c["a"] = [fmt(x + prec * 1e-3) for x in b]
            else:
                big = (max(abs(x) for x in b) + 1) * (1 + 20 * prec) * 2
                sg = -1. if cls == "far_negative" else draw(st.sampled_from([-1., 1.]))
                c["a"] = [fmt(x + big * sg) for x in b]
            return c
        if cls in ("self", "same_grid"):
            c["ta"], c["a"] = c["tb"], c["b"]
            return c
        rng = max(abs(x) for x in b) + 1.
        big = rng * (2 + 4 * prec) + 4 * (prec2 or 0.) + 1.
        if cls == "wrong_time":
            # same number of rows, other abscissae inside the reference's range, values equal index-wise
            f = draw(st.sampled_from([0.5, 0.25, 0.75]))
            ta = [t * f for t in tb]
            c["ta"], c["a"] = [fmt(t) for t in ta], c["b"]
            # make sure the deviation from the interpolated reference is decisive
            c["beta"] = fmt(beta * 1.)
            return c
        if cls in ("right_time", "far_outside"):
            n = nb
        elif cls == "more_rows":
            n = nb + draw(st.integers(1, 4))
        else:
            n = nb - draw(st.integers(1, 2))
        ta = sorted(set(draw(st.lists(st.integers(0, int(tb[-1] * 8)), min_size=n, max_size=n, unique=True))))
        ta = [q / 8. for q in ta]
        off = big if cls != "right_time" else 0.
        sg = draw(st.sampled_from([-1., 1.]))
        a = [alpha + beta * t + sg * off for t in ta]
        c["ta"], c["a"] = [fmt(t) for t in ta], [fmt(x) for x in a]
        return c

    return pointwise, interp(), interp(area=True)


def main():
    replay_main({"pointwise": check_pointwise, "interp": check_interp, "area": check_area})
    u = Unit("C51_tfelcheck")
    pw, ip, ar = strategies()
    n = param("cases", 60)
    only = os.environ.get("VERIF_ONLY")
    if only in (None, "", "pointwise"):
        run_hypothesis(u, "pointwise", pw, check_pointwise, max_examples=n)
    if only in (None, "", "interp"):
        run_hypothesis(u, "interp", ip, check_interp, max_examples=max(8, n // 3), seed_offset=1)
    if only in (None, "", "area"):
        run_hypothesis(u, "area", ar, check_area, max_examples=max(6, n // 6), seed_offset=2)
    sys.exit(u.finish())


if __name__ == "__main__":
    main()
