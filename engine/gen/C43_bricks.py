#!/usr/bin/env python3-vt
"""C43  Brick-generated implicit Jacobians are exact.

Generated programs: StandardElastoViscoPlasticity / StandardElasticity brick
configurations (C43_catalog.py), Tridimensional only, with
`@CompareToNumericalJacobian true; @JacobianComparisonCriterion 0;` so that the
behaviour prints *every* block of the analytical and of the (centered finite
difference) numerical Jacobian at every Newton iterate (and once more after
convergence), in full precision (a user code block sets std::cout.precision(17)
and a marker line `C43IT iter residual converged (increments)` is printed by an
`@AdditionalConvergenceChecks` block).

Each program is driven, in a worker subprocess (one per program, C-level stdout
captured through its file descriptor), by random proportional and non-proportional
strain histories through the generic interface, twice: with the perturbation
1e-7 and 1e-8 (run-time parameter `numerical_jacobian_epsilon`; the Newton path
does not depend on it, so the iterates of both runs coincide).

Oracle (our own criterion, per block and per iterate):
    e_h = ||Ja - Jn_h||_F / max(1, ||Ja||_F, ||Jn_h||_F)
a block is wrong iff  min(e_1e-7, e_1e-8) > TOL (1e-5)  *and* the two numerical
estimates agree with each other: ||Jn_1 - Jn_2||_F / S <= 0.02 * min(e).  When they do
not agree, the finite differences are unreliable at that iterate (round-off, or a
switching surface - yield surface of a viscoplastic flow, `seps` regularisation,
porosity bound, knot of a piecewise hardening curve - within the stencil): the
iterate is excluded and counted (`excluded.fd_inconsistent`), as are blocks with
non finite entries (`excluded.nonfinite`: iterates outside the domain of a formula,
e.g. (p+p0)^n with p+p0<0).

Non trivial iterate: every inelastic flow is active (its row of the analytical
Jacobian w.r.t. the elastic strain is not zero) and every increment group of the
unknown vector is non zero (all kinematic / damage / porosity variables moving).

A case = one program + its loadings; it is self-contained in the replay file.
"""
import ctypes as C
import json
import math
import os
import random
import re
import sys
import tempfile
import time

sys.path.insert(0, os.path.join(os.path.dirname(os.path.abspath(__file__)), "..", "common"))
sys.path.insert(0, os.path.dirname(os.path.abspath(__file__)))
import numpy as np  # noqa: E402

from verifpy import (Unit, Result, SEED, TIER, WORK, JOBS, param, run, parallel_map, replay_requested,  # noqa: E402
                     load_replay)
import C43_catalog as K  # noqa: E402
import verifpy as _V  # noqa: E402

K.KNOWN_KEYS = set(_V.KNOWN)

TOL = 1.0e-5
HS = [1.0e-7, 1.0e-8]
PY = sys.executable
NOT_SCALED = {"epsilon", "theta", "jacobianComparisonCriterion", "numerical_jacobian_epsilon", "iterMax",
              "minimal_time_step_scaling_factor", "maximal_time_step_scaling_factor",
              "RelativeValueForTheEquivalentStressLowerBoundDefinition"}

# genuine defects already analysed: (predicate(cfg, block name) -> bool, key)
KNOWN_CLASSES = []


# ======================================================================= worker
_NUM = r"[-+]?(?:nan|inf|(?:\d+\.?\d*|\.\d+)(?:[eE][-+]?\d+)?)"
_num_re = re.compile(_NUM)
_hdr_re = re.compile(r"^(n?)df(\w+?)_dd(\w+?)(\([\d,]+\))? :$")
_hdr_diff_re = re.compile(r"^df\w+ - ndf\w+(\([\d,]+\))? :$")


def parse_stream(lines):
    """returns list of steps: {"tag":{...}, "res":{...}, "iters":[{"it","err","conv","zeros",blocks:{name:[Ja,Jn]}}]}"""
    steps = []
    cur = None
    it = None
    blk = None  # (name, which) currently filled

    def fl(tok):
        t = tok.lower()
        if "nan" in t:
            return float("nan")
        if "inf" in t:
            return float("-inf") if t.startswith("-") else float("inf")
        return float(tok)

    for ln in lines:
        ln = ln.rstrip("\n")
        if ln.startswith("C43STEP "):
            cur = {"tag": json.loads(ln[8:]), "iters": [], "res": None}
            steps.append(cur)
            it, blk = None, None
            continue
        if ln.startswith("C43END "):
            if cur is not None:
                cur["res"] = json.loads(ln[7:])
            it, blk = None, None
            continue
        if cur is None:
            continue
        if ln.startswith("C43IT "):
            p = ln.split("(", 1)
            h = p[0].split()
            z = [fl(x) for x in _num_re.findall(p[1])] if len(p) > 1 else []
            it = {"it": int(h[1]), "err": fl(h[2]), "conv": int(h[3]), "zeros": z, "blocks": {}}
            cur["iters"].append(it)
            blk = None
            continue
        if it is None:
            continue
        m = _hdr_re.match(ln)
        if m:
            name = "df%s_dd%s%s" % (m.group(2), m.group(3), m.group(4) or "")
            b = it["blocks"].setdefault(name, [[], []])
            if m.group(1) == "" and b[0] and b[1]:
                # same block printed again for the same marker: post-convergence comparison
                it = {"it": it["it"], "err": it["err"], "conv": 2, "zeros": it["zeros"], "blocks": {}}
                cur["iters"].append(it)
                b = it["blocks"].setdefault(name, [[], []])
            blk = b[1] if m.group(1) == "n" else b[0]
            continue
        if _hdr_diff_re.match(ln):
            blk = None
            continue
        if blk is not None and ln.strip():
            blk.extend(fl(x) for x in _num_re.findall(ln))
    return steps


SWITCH = 1.0e-6
WILD = 1.0e-2
FD_AGREE = 0.02  # the two numerical Jacobians must agree within 2 % of the mismatch they both show


def judge(steps_by_h, groups, pnames, pvars=(), fvar=None):
    """steps_by_h: [steps(h0), steps(h1)]; groups: sizes of the increment groups of the unknown vector; pnames: brick
    names of the equivalent strains (p, p0, ...); pvars: [(offset in the unknowns, offset in the state variables)] of
    the equivalent strains.  returns summary dict"""
    out = {"iterates": 0, "nontrivial": 0, "blocks": 0, "bad": [], "excluded": {}, "maxerr": {}, "misaligned": 0,
           "inelastic": 0, "nonconverged": 0, "steps": 0}
    a, b = steps_by_h
    if len(a) != len(b):
        out["misaligned"] += 1
    for sa, sb in zip(a, b):
        out["steps"] += 1
        if sa["res"] is None or sa["res"].get("r", -1) < 0:
            out["nonconverged"] += 1
        if len(sa["iters"]) != len(sb["iters"]):
            out["misaligned"] += 1
        for ia, ib in zip(sa["iters"], sb["iters"]):
            if ia["it"] != ib["it"] or ia["zeros"] != ib["zeros"]:
                out["misaligned"] += 1
                continue
            out["iterates"] += 1
            # non triviality
            z = ia["zeros"]
            moving = True
            o = 0
            for g in groups:
                if not any(v != 0 for v in z[o:o + g]):
                    moving = False
                o += g
            active = True
            for p in pnames:
                blk = ia["blocks"].get("df%s_ddeel" % p)
                if not blk or not any(v != 0 for v in blk[0]):
                    active = False
            if pnames and active:
                out["inelastic"] += 1
            # ---- switching surfaces (excluded and counted)
            why = None
            for p in pnames:
                blk, blk2 = ia["blocks"].get("df%s_ddeel" % p), ib["blocks"].get("df%s_ddeel" % p)
                act_a = bool(blk) and any(v != 0 for v in blk[0])
                act_n = bool(blk) and any(v != 0 for v in blk[1])
                if act_a != act_n:
                    why = "status_switch"  # the status of the flow was changed between the analytical and the numerical evaluation
            th = sa["tag"].get("theta", 1.0)
            iv0 = sa["tag"].get("iv0")
            for zo, so in pvars:
                if zo < len(z) and iv0 is not None:
                    if abs(z[zo]) <= SWITCH:
                        why = why or "switching.dp=0"  # `dp > 0` tests (Chaboche 2012, nucleation models), first iterate
                    elif iv0[so] + th * z[zo] <= SWITCH:
                        why = why or "switching.p<=0"  # hardening rules clamp the equivalent strain at 0
            if fvar is not None and iv0 is not None and fvar[0] < len(z):
                fmid = iv0[fvar[1]] + th * z[fvar[0]]
                ff = ia["blocks"].get("dff_ddf")
                if fmid <= SWITCH or (ff and len(ff[0]) == 1 and ff[0][0] == 1.0 and z[fvar[0]] != 0):
                    # the porosity is clamped to [0, upper bound] (f equation replaced by f + df = bound)
                    why = why or "switching.porosity_bound"
            if ia["err"] * max(1, len(z)) > WILD:
                # round-off of the centered differences is ~ u*|f|/h: with |f| > 1e-2 (strain units; a converging iterate
                # has |f| <~ 1e-3) it reaches the 1e-5 tolerance for h = 1e-8.  Counted, not judged.
                why = why or "fd_noise.large_residual"
            if why:
                out["excluded"][why] = out["excluded"].get(why, 0) + 1
                continue
            out["checked_iterates"] = out.get("checked_iterates", 0) + 1
            if moving and active:
                out["nontrivial"] += 1
            for name, (ja, jn1) in ia["blocks"].items():
                bb = ib["blocks"].get(name)
                if bb is None or len(ja) == 0 or len(ja) != len(jn1) or len(bb[1]) != len(ja):
                    out["excluded"]["unpaired_block"] = out["excluded"].get("unpaired_block", 0) + 1
                    continue
                Ja, J1, J2 = np.array(ja), np.array(jn1), np.array(bb[1])
                if not (np.all(np.isfinite(Ja)) and np.all(np.isfinite(J1)) and np.all(np.isfinite(J2))):
                    out["excluded"]["nonfinite"] = out["excluded"].get("nonfinite", 0) + 1
                    continue
                out["blocks"] += 1
                nja = float(np.linalg.norm(Ja))
                S = max(1.0, nja, float(np.linalg.norm(J1)), float(np.linalg.norm(J2)))
                e1 = float(np.linalg.norm(Ja - J1)) / S
                e2 = float(np.linalg.norm(Ja - J2)) / S
                e = min(e1, e2)
                d12 = float(np.linalg.norm(J1 - J2)) / S
                if e > TOL and d12 > FD_AGREE * e:
                    out["excluded"]["fd_inconsistent"] = out["excluded"].get("fd_inconsistent", 0) + 1
                    continue
                if d12 <= 0.1 * e or e <= 1.0e-8:
                    # calibration record: only mismatches that both finite differences confirm (the rest is FD noise,
                    # recorded apart)
                    if e > out["maxerr"].get(name, -1.0):
                        out["maxerr"][name] = e
                elif d12 > out.get("fd_noise_max", 0.0):
                    out["fd_noise_max"] = d12
                if e > TOL:
                    k = int(np.argmax(np.abs(Ja - J2)))
                    if len(out["bad"]) < 8:
                        out["bad"].append({"block": name, "tag": sa["tag"], "it": ia["it"], "conv": ia["conv"], "e1": e1, "e2": e2,
                                           "d12": d12, "S": S, "idx": k, "Ja": float(Ja[k]), "Jn1": float(J1[k]),
                                           "Jn2": float(J2[k]), "nontrivial": bool(moving and active),
                                           "zeros": z})
                    out.setdefault("nbad", 0)
                    out["nbad"] += 1
                    bn = out.setdefault("bad_blocks", [])
                    if name not in bn:
                        bn.append(name)
    return out


def build_mutated(G, prog, mut):
    """sensitivity runs only (mutants/C43.md): emulate a mutant of mfront/src/*.cxx by rewriting the code it emits.
    VERIF_C43_MUTATE_EMITTED = 'regex=>replacement' applied (first match per line, every line) to the generated header"""
    from verifpy import mfront_generate, compile_generated
    import hashlib
    pat, rep = mut.split("=>", 1)
    wd = os.path.join(WORK, "prog_mut", prog["name"] + "_" + hashlib.sha1(mut.encode()).hexdigest()[:8])
    os.makedirs(wd, exist_ok=True)
    src = os.path.join(wd, prog["name"] + ".mfront")
    open(src, "w").write(prog["src"])
    rc, so, se = mfront_generate(src, wd)
    if rc != 0:
        return None, "mfront failed: " + (so + se)[-1500:]
    hx = os.path.join(wd, "include", "TFEL", "Material", prog["name"] + ".hxx")
    txt = open(hx).read()
    new, n = re.subn(pat, rep, txt)
    open(hx, "w").write(new)
    open(os.path.join(wd, "mutation.txt"), "w").write("%s\n%d substitutions\n" % (mut, n))
    path, err = compile_generated(wd, prog["name"] + "_mut")
    if path is None:
        return None, "g++ failed: " + err
    return G.Library(path, prog["name"], prog["hyps"]), ""


def worker(case_path, out_path):
    sys.path.insert(0, os.path.dirname(os.path.abspath(__file__)))
    import gb_iface as G
    case = json.load(open(case_path))
    prog = case["prog"]
    res = {"ok": False, "error": "", "stage": "build"}
    t0 = time.time()
    mut = os.environ.get("VERIF_C43_MUTATE_EMITTED", "")
    if mut:
        lib, err = build_mutated(G, prog, mut)
    else:
        lib, err = G.build({"name": prog["name"], "src": prog["src"], "hyps": prog["hyps"]})
    res["build_s"] = time.time() - t0
    if lib is None:
        res["error"] = err
        json.dump(res, open(out_path, "w"))
        return
    h = "Tridimensional"
    name = prog["name"]
    setp = getattr(lib.lib, "%s_%s_setParameter" % (name, h))
    setp.restype = C.c_int
    setp.argtypes = [C.c_char_p, C.c_double]
    npar = C.c_ushort.in_dll(lib.lib, "%s_%s_nParameters" % (name, h)).value
    pnames = [x.decode() for x in (C.c_char_p * npar).in_dll(lib.lib, "%s_%s_Parameters" % (name, h))]
    ptypes = list((C.c_int * npar).in_dll(lib.lib, "%s_%s_ParametersTypes" % (name, h)))
    defaults = {}
    for n, t in zip(pnames, ptypes):
        if t == 0:
            for sym in ("%s_%s_%s_ParameterDefaultValue" % (name, h, n), "%s_%s_ParameterDefaultValue" % (name, n)):
                try:
                    defaults[n] = C.c_double.in_dll(lib.lib, sym).value
                    break
                except ValueError:
                    pass
    m = lib.meta[h]
    isv = m["InternalStateVariables"]
    off = lib.offsets(h, "InternalStateVariables")
    nesv = m["ExternalStateVariables"]["size"] + 1  # + temperature (removed from the list, still first in the array)
    libc = C.CDLL(None)
    expand_scales(case, sorted(defaults))
    # ---- capture of the C level stdout
    cap = tempfile.NamedTemporaryFile(prefix="c43out", dir=os.path.dirname(out_path), delete=False)
    cap.close()
    sys.stdout.flush()
    saved = os.dup(1)
    fd = os.open(cap.name, os.O_WRONLY | os.O_TRUNC)
    os.dup2(fd, 1)
    os.close(fd)

    def emit(s):
        libc.fflush(None)
        os.write(1, (s + "\n").encode())

    nzeros = None
    try:
        for hi, hv in enumerate(case["hs"]):
            for li, L in enumerate(case["loadings"]):
                for n, v in defaults.items():
                    setp(n.encode(), v)
                setp(b"numerical_jacobian_epsilon", hv)
                setp(b"theta", L.get("theta", 1.0))
                for n, f in L.get("scale", {}).items():
                    if n in defaults:
                        setp(n.encode(), defaults[n] * f)
                b = G.Buffers(lib, h)
                ev0, ev1 = np.zeros(nesv + 1), np.zeros(nesv + 1)
                for s, ev in ((b.d.s0, ev0), (b.d.s1, ev1)):
                    s.external_state_variables = G.dptr(ev)
                T = L.get("T0", 293.15)
                ev0[0] = T
                dmg = 0.0
                if "Porosity" in off:
                    b.iv0[off["Porosity"][0]] = L.get("f0", 0.01)
                if "Damage" in off:
                    pass
                eto = np.zeros(6)
                for si, st in enumerate(L["steps"]):
                    eto1 = eto + np.array(st["de"])
                    b.g0[:6], b.g1[:6] = eto, eto1
                    ev0[0], ev1[0] = T, T + st.get("dT", 0.0)
                    if nesv > 1:
                        ev0[1], ev1[1] = dmg, dmg + st.get("dd", 0.0)
                        if "Damage" in off and si == 0:
                            b.iv0[off["Damage"][0]] = dmg
                    b.K[:] = 0
                    b.K[0] = 4
                    b.rdt[0] = 1
                    b.iv1[:] = b.iv0
                    b.tf1[:] = b.tf0
                    emit("C43STEP " + json.dumps({"h": hi, "l": li, "s": si, "theta": L.get("theta", 1.0),
                                                   "iv0": [float(x) for x in b.iv0]}))
                    r = G.call(lib, h, b, dt=st["dt"])
                    ok = r >= 0 and bool(np.all(np.isfinite(b.tf1[:6]))) and bool(np.all(np.isfinite(b.iv1)))
                    emit("C43END " + json.dumps({"r": r if ok else -2, "msg": b.message()[:200],
                                                  "sig": [float(x) for x in b.tf1[:6]] if ok else None}))
                    if ok:
                        eto = eto1
                        T = T + st.get("dT", 0.0)
                        dmg = dmg + st.get("dd", 0.0)
                        b.tf0[:] = b.tf1
                        b.iv0[:] = b.iv1
        res["stage"] = "run"
    finally:
        libc.fflush(None)
        os.dup2(saved, 1)
        os.close(saved)
    with open(cap.name, errors="replace") as f:
        steps = parse_stream(f)
    size = os.path.getsize(cap.name)
    if not case.get("keep_output"):
        os.unlink(cap.name)
    else:
        res["output"] = cap.name
    by_h = [[s for s in steps if s["tag"]["h"] == hi] for hi in range(len(case["hs"]))]
    # groups of the unknown vector: the integration variables are the first state variables
    nz = 0
    for s in steps:
        for it in s["iters"]:
            nz = len(it["zeros"])
            break
        if nz:
            break
    groups, tot = [], 0
    for sz in isv["sizes"]:
        if tot + sz > nz:
            break
        groups.append(sz)
        tot += sz
    if tot != nz:
        groups = [nz] if nz else []
    pn = K.int_variables(prog["cfg"]) if prog.get("cfg") and prog["cfg"].get("flows") else []
    pvars, zo, so, fvar = [], 0, 0, None
    for n_, sz in zip(isv["names"], isv["sizes"]):
        if n_.startswith(("EquivalentPlasticStrain", "EquivalentViscoplasticStrain")) and sz == 1 and zo < tot:
            pvars.append((zo, so))
        if n_ == "Porosity" and zo < tot:
            fvar = (zo, so)
        zo += sz
        so += sz
    summ = judge(by_h[:2], groups, pn, pvars, fvar)
    res.update({"ok": True, "summary": summ, "output_bytes": size, "run_s": time.time() - t0 - res["build_s"],
                "isv": isv["names"], "parameters": sorted(defaults)})
    json.dump(res, open(out_path, "w"))


# ======================================================================= generation
def rnd_dir(rng, kind):
    """a unit (Frobenius, in the sqrt(2) storage) symmetric tensor direction"""
    if kind == "uniaxial":
        ax = rng.randrange(3)
        nu = 0.3
        v = [-nu, -nu, -nu, 0.0, 0.0, 0.0]
        v[ax] = 1.0
        if rng.random() < 0.5:
            v = [-x for x in v]
    elif kind == "shear":
        v = [0.0] * 6
        v[3 + rng.randrange(3)] = 1.0 if rng.random() < 0.5 else -1.0
        v[rng.randrange(3)] = rng.uniform(-0.2, 0.2)
    else:
        v = [rng.gauss(0, 1) for _ in range(6)]
    n = math.sqrt(sum(x * x for x in v))
    return [x / n for x in v]


def gen_loading(rng, cfg, li, force_theta=None):
    """strain history: list of steps {"de":[6], "dt":, "dT":, "dd":}"""
    ey = 1.0e-3  # ~ yield strain (sigma_y/E)
    visc = any(fl["flow"] != "Plastic" for fl in cfg.get("flows", []))
    nsteps = rng.choice([3, 4])
    prop = (li % 2 == 0)
    steps = []
    if prop:
        d = rnd_dir(rng, rng.choice(["generic", "generic", "uniaxial", "shear"]))
        amps = [rng.uniform(0.5, 1.1), rng.uniform(0.8, 1.6), rng.uniform(0.6, 1.5), -rng.uniform(0.5, 2.5)]
        for k in range(nsteps):
            steps.append({"de": [amps[k] * ey * 1.5 * x for x in d]})
    else:
        for k in range(nsteps):
            d = rnd_dir(rng, "generic")
            a = rng.uniform(0.8, 2.2) * ey
            steps.append({"de": [a * x for x in d]})
    for st in steps:
        st["dt"] = 10 ** rng.uniform(-2, 2) if visc else rng.choice([1.0, 10 ** rng.uniform(-3, 1)])
        if cfg["sp"] == "hooke_T":
            st["dT"] = rng.uniform(-40, 60)
        if cfg["sp"] == "damage":
            st["dd"] = rng.uniform(0.02, 0.12)
    L = {"steps": steps, "theta": rng.choice([1.0, 1.0, 0.5, 0.75, rng.uniform(0.5, 1.0)])}
    if force_theta is not None:
        L["theta"] = force_theta
    elif K.needs_theta1(cfg):
        L["theta"] = 1.0  # known findings C43.jacobian.theta.*: theta != 1 is left to the probes
    if K.is_porous(cfg):
        L["f0"] = rng.choice([1e-3, 5e-3, 2e-2])
    if li >= 2:
        L["scale_seed"] = rng.randrange(1 << 30)  # run-time rescaling of the material coefficients in [0.8,1.25]
    return L


def _pool(prefix, names):
    return [n for n in names if prefix + n not in K.not_in_pool()]


def sample_flow(rng, porous_ok=True):
    crit = rng.choice(_pool("crit:", K.CRITERIA))
    fl = {"flow": rng.choice(list(K.FLOWS)), "crit": crit, "fcrit": None,
          "iso": rng.choice(list(K.ISO_CHOICES)), "kin": rng.choice(_pool("kin:", K.KIN_CHOICES))}
    if rng.random() < 0.15 and not K.CRITERIA[crit][1]:
        fl["fcrit"] = rng.choice(K.FLOW_CRITERIA)
    return fl


def sample_config(rng):
    for _ in range(1000):
        cfg = {"sp": rng.choice(K.STRESS_POTENTIALS + ["hooke", "hooke"]), "flows": [sample_flow(rng)], "nuc": None,
               "variant": rng.randrange(4)}
        if rng.random() < 0.12:
            cfg["flows"].append(sample_flow(rng))
        if rng.random() < 0.25:
            cfg["nuc"] = rng.choice(_pool("nuc:", K.NUCLEATION))
        if K.is_porous(cfg) and rng.random() < 0.15:
            cfg["elastic_porosity"] = True
        if K.valid(cfg):
            return cfg
    raise RuntimeError("no valid configuration")


def config_values(cfg):
    vals = {"sp:" + cfg["sp"]}
    for fl in cfg["flows"]:
        vals |= {"crit:" + fl["crit"], "flow:" + fl["flow"], "iso:" + fl["iso"], "kin:" + fl["kin"]}
        if fl.get("fcrit"):
            vals.add("fcrit:" + fl["fcrit"])
    vals.add("nuc:" + str(cfg.get("nuc")))
    if cfg.get("palgo"):
        vals.add("palgo:" + cfg["palgo"])
    if cfg.get("elastic_porosity"):
        vals.add("elastic_porosity")
    if len(cfg["flows"]) > 1:
        vals.add("flows:2")
    return vals


def all_values():
    v = {"sp:" + s for s in K.STRESS_POTENTIALS} | {"crit:" + c for c in K.CRITERIA} | {"flow:" + f for f in K.FLOWS}
    v |= {"iso:" + i for i in K.ISO_CHOICES} | {"kin:" + k for k in K.KIN_CHOICES} | {"nuc:" + n for n in K.NUCLEATION}
    v |= {"nuc:None", "flows:2", "elastic_porosity"} | {"fcrit:" + c for c in K.FLOW_CRITERIA}
    return v - K.not_in_pool()


def covering_configs(n, seed):
    """greedy: n configurations covering every component value, then as many pairs of values as possible.
    Deterministic function of (n, seed)."""
    rng = random.Random(seed)
    chosen, cov1, cov2 = [], set(), set()
    target1 = all_values()
    while len(chosen) < n:
        best, bs = None, -1
        for _ in range(200):
            c = sample_config(rng)
            vs = sorted(config_values(c))
            s1 = len([v for v in vs if v in target1 and v not in cov1])
            s2 = len([1 for i in range(len(vs)) for j in range(i + 1, len(vs)) if (vs[i], vs[j]) not in cov2])
            sc = 1000 * s1 + s2
            if sc > bs:
                best, bs = c, sc
        vs = sorted(config_values(best))
        cov1 |= set(vs)
        cov2 |= {(vs[i], vs[j]) for i in range(len(vs)) for j in range(i + 1, len(vs))}
        chosen.append(best)
    return chosen, sorted(target1 - cov1), len(cov2)


def make_case(cfg, seed, nload, probe=None):
    prog = K.program(cfg)
    rng = random.Random("%s/%d" % (prog["name"], seed))
    case = {"prog": prog, "hs": HS,
            "loadings": [gen_loading(rng, cfg, li, (probe or {}).get("theta")) for li in range(nload)]}
    if probe:
        case["probe"] = probe
    return case


def _flow(**kw):
    return dict({"flow": "Plastic", "crit": "Mises", "fcrit": None, "iso": "Linear", "kin": "none"}, **kw)


# one dedicated program per known finding (the component is kept out of the pool, or restricted to the sub-domain
# where it is right); `blocks`: the only blocks the defect may affect - anything else is reported under its own key
PROBES = [
    {"key": "C43.jacobian.Drucker1949_c_ne_1", "blocks": r"^dfeel_ddeel$",
     "cfg": {"sp": "hooke", "flows": [_flow(crit="Drucker1949_probe")], "nuc": None, "variant": 0}},
    {"key": "C43.jacobian.Cazacu2001_c_ne_1", "blocks": r"^dfeel_ddeel$",
     "cfg": {"sp": "hooke", "flows": [_flow(crit="Cazacu2001_probe")], "nuc": None, "variant": 0}},
    {"key": "C43.jacobian.theta.Power_p0", "blocks": r"^dfp_ddp$", "theta": 0.5,
     "cfg": {"sp": "hooke", "flows": [_flow(flow="Norton", iso="Power")], "nuc": None, "variant": 0}},
    {"key": "C43.jacobian.theta.UserDefinedIsotropicHardening", "blocks": r"^dfp_ddp$", "theta": 0.5,
     "cfg": {"sp": "hooke", "flows": [_flow(iso="UserDefined")], "nuc": None, "variant": 1}},
    {"key": "C43.jacobian.theta.StrainRateSensitive", "blocks": r"^dfp_ddp$", "theta": 0.5,
     "cfg": {"sp": "hooke", "flows": [_flow(iso="SRS_CowperSymonds")], "nuc": None, "variant": 0}},
    {"key": "C43.jacobian.theta.UserDefinedViscoplasticity_dvp_dp", "blocks": r"^dfp_ddp$", "theta": 0.5,
     "cfg": {"sp": "hooke", "flows": [_flow(flow="UserDefinedVP", iso="Linear")], "nuc": None, "variant": 1}},
    {"key": "C43.jacobian.nucleation.ChuNeedleman1980_strain", "blocks": r"^dff_ddp$",
     "cfg": {"sp": "hooke", "flows": [_flow()], "nuc": "CN_strain", "variant": 0}},
    {"key": "C43.jacobian.nucleation.ChuNeedleman1980_stress", "blocks": r"^dff_ddeel$",
     "cfg": {"sp": "hooke", "flows": [_flow()], "nuc": "CN_stress", "variant": 0}},
    {"key": "C43.jacobian.nucleation.PowerLaw_stress", "blocks": r"^dff_ddeel$",
     "cfg": {"sp": "hooke", "flows": [_flow()], "nuc": "PL_stress", "variant": 0}},
    {"key": "C43.emitted_code.Chaboche2012_Phi", "blocks": r"^$", "build_error": "expected",
     "cfg": {"sp": "hooke", "flows": [_flow(kin="Chaboche2012_Phi")], "nuc": None, "variant": 0}},
]


def expand_scales(case, parameters):
    """scale_seed -> explicit factors (needs the parameter list of the built library)"""
    cfg = case["prog"].get("cfg", {})
    # Drucker 1949 / Cazacu 2001 stay at c = 1 in the pool (known findings for c != 1)
    drucker = K.c_is_frozen(cfg)
    for L in case["loadings"]:
        if "scale_seed" in L and "scale" not in L:
            r = random.Random(L["scale_seed"])
            L["scale"] = {n: round(math.exp(r.uniform(math.log(0.8), math.log(1.25))), 6)
                          for n in sorted(parameters) if n not in NOT_SCALED and not (drucker and re.match(r"^(sc|fc)\w*_c\d*$", n))}
    return case


# ======================================================================= check
def run_worker(case, tag):
    d = os.path.join(WORK, "cases")
    os.makedirs(d, exist_ok=True)
    cp = os.path.join(d, "%s.%s.in.json" % (case["prog"]["name"], tag))
    op = os.path.join(d, "%s.%s.out.json" % (case["prog"]["name"], tag))
    json.dump(case, open(cp, "w"))
    if os.path.exists(op):
        os.unlink(op)
    rc, so, se = run([PY, os.path.abspath(__file__), "--worker", cp, op], timeout=param("case_timeout", 1500))
    if not os.path.exists(op):
        return {"ok": False, "error": "worker died rc=%s: %s" % (rc, (so + se)[-800:]), "stage": "crash", "rc": rc}
    return json.load(open(op))


def key_of(cfg, block):
    for pred, key in KNOWN_CLASSES:
        if pred(cfg, block):
            return key
    return "C43.jacobian." + re.sub(r"\W", "_", block)


def check_case(case):
    cfg = case["prog"].get("cfg", {})
    r = run_worker(case, "run")
    probe = case.get("probe")
    if not r.get("ok"):
        res = _res_build_failure(case, r)
        if probe and probe.get("build_error") and probe["build_error"] in r.get("error", "") and r.get("stage") == "build":
            res.key = probe["key"]
            res.msg = "the code emitted for this configuration does not compile: " + res.msg
        return res
    expand_scales(case, r["parameters"])  # what the worker did: make it explicit in the case (replay file)
    s = r["summary"]
    classes = ["programs"]
    res = Result(True, nontrivial=s["nontrivial"] > 0, classes=classes, errs={"jac." + k: v / TOL for k, v in s["maxerr"].items()})
    res.summary, res.worker = s, r
    if s["bad"]:
        b = s["bad"][0]
        res.ok = False
        res.key = key_of(cfg, b["block"])
        if probe and all(re.match(probe["blocks"], n) for n in s.get("bad_blocks", [])):
            res.key = probe["key"]
        res.msg = ("block %s of %s differs from the numerical Jacobian for both perturbations: e(1e-7)=%.3g e(1e-8)=%.3g "
                   "(tol %.0e, |Jn1-Jn2|/S=%.2g) at loading %d step %d iterate %d, entry %d: Ja=%.10g Jn=%.10g / %.10g; %d bad blocks; cfg=%s"
                   % (b["block"], case["prog"]["name"], b["e1"], b["e2"], TOL, b["d12"], b["tag"]["l"], b["tag"]["s"], b["it"],
                      b["idx"], b["Ja"], b["Jn1"], b["Jn2"], s.get("nbad", 0), json.dumps(cfg, sort_keys=True)))
        res.bad = b
    return res


def _res_build_failure(case, r):
    res = Result(False, key="C43.harness." + r.get("stage", "build"),
                 msg="program %s: %s" % (case["prog"]["name"], r.get("error", "")[:1500]))
    res.summary, res.worker = None, r
    return res


def shrink(case, res):
    """keep only the failing loading, truncated at the failing step"""
    b = getattr(res, "bad", None)
    if b is None:
        return case
    L = dict(case["loadings"][b["tag"]["l"]])
    L["steps"] = L["steps"][:b["tag"]["s"] + 1]
    small = dict(case, loadings=[L])
    r2 = check_case(small)
    if not r2.ok and r2.key == res.key:
        return small
    return case


# ======================================================================= main
def main():
    if len(sys.argv) >= 4 and sys.argv[1] == "--worker":
        worker(sys.argv[2], sys.argv[3])
        return 0
    rp = replay_requested()
    if rp:
        d = load_replay(rp)
        r = check_case(d["case"])
        if r.ok:
            print("REPLAY-PASSES")
            return 0
        print("REPLAY-FAILS key=%s msg=%s" % (r.key, str(r.msg)[:2000]))
        return 1
    u = Unit("C43_bricks")
    ncore = int(param("core", 16))
    nextra = int(param("cases", 6))
    nload = int(param("loadings", 4))
    t0 = time.time()
    core, missing, npairs = covering_configs(ncore, 43)  # fixed core: identical for every seed (cache)
    rng = random.Random(SEED * 7919 + 1)
    extra, miss2, np2 = covering_configs(nextra, SEED * 104729 + 7) if nextra else ([], [], 0)
    el = [{"brick": "elasticity", "sp": sp, "flows": [], "nuc": None, "variant": 0} for sp in ("hooke", "hooke_T", "hooke_ortho")]
    cfgs, seen = [], set()
    for c in core + extra + el[:int(param("elasticity", 3))]:
        n = K.config_name(c)
        if n not in seen:
            seen.add(n)
            cfgs.append(c)
    u.note("fixed core %d configurations (values never covered: %s; %d value pairs), %d seed dependent, %d StandardElasticity; "
           "%d loadings each" % (len(core), missing, npairs, len(extra), len(el), nload))
    cases = [make_case(c, SEED, nload) for c in cfgs]
    if int(param("probes", 1)):
        cases += [make_case(p["cfg"], SEED, nload, probe={k: v for k, v in p.items() if k != "cfg"}) for p in PROBES]

    def go(case):
        try:
            return check_case(case)
        except Exception as e:  # harness trouble must be visible, not a pass
            import traceback
            r = Result(False, key="C43.harness.exception", msg="%s: %s" % (type(e).__name__, traceback.format_exc()[-1200:]))
            r.summary, r.worker = None, {}
            return r

    results = parallel_map(go, cases, jobs=min(JOBS, int(param("jobs", 16))))
    tot = {"iterates": 0, "nontrivial": 0, "blocks": 0, "inelastic": 0, "steps": 0, "nonconverged": 0, "misaligned": 0}
    exc = {}
    covered = set()
    for case, r in zip(cases, results):
        cfg = case["prog"]["cfg"]
        sub = "elasticity" if cfg.get("brick") == "elasticity" else ("probes" if case.get("probe") else "sevp")
        s = r.summary
        if s:
            for k in tot:
                if k != "fd_noise_max":
                    tot[k] += s[k]
            for k, v in s["excluded"].items():
                exc[k] = exc.get(k, 0) + v
            tot["fd_noise_max"] = max(tot.get("fd_noise_max", 0.0), s.get("fd_noise_max", 0.0))
            sd = u._sub(sub)
            for k in ("iterates", "blocks", "inelastic", "steps", "nonconverged"):
                sd["classes"]["n." + k] = sd["classes"].get("n." + k, 0) + s[k]
            sd["classes"]["n.nontrivial_iterates"] = sd["classes"].get("n.nontrivial_iterates", 0) + s["nontrivial"]
            for k, v in s["excluded"].items():
                sd["classes"]["excluded." + k] = sd["classes"].get("excluded." + k, 0) + v
        if r.ok:
            nt = r.nontrivial or (sub == "elasticity" and s["iterates"] > 0)
            if nt and sub != "probes":
                covered |= config_values(cfg)
            u.case(sub, {"cfg": cfg}, nt, sorted(config_values(cfg)) if sub != "elasticity" else ["sp:" + cfg["sp"]], r.errs,
                   sample={"cfg": cfg, "nontrivial_iterates": s["nontrivial"], "iterates": s["iterates"]})
        else:
            if r.key.startswith("C43.harness"):
                u.fail(sub, r.key, r.msg, case)
                continue
            small = case if u.is_known(r.key) else shrink(case, r)
            u.fail(sub, r.key, r.msg, small)
    u.extra.update({"totals": tot, "excluded": exc, "programs": len(cases), "wall_s": time.time() - t0,
                    "values_with_nontrivial_iterates": sorted(covered),
                    "values_without_nontrivial_iterates": sorted(all_values() - covered)})
    print("C43: %d programs, %d steps (%d not converged), %d iterates (%d inelastic, %d non trivial), %d blocks compared, excluded %s, %.0f s"
          % (len(cases), tot["steps"], tot["nonconverged"], tot["iterates"], tot["inelastic"], tot["nontrivial"], tot["blocks"],
             exc, time.time() - t0), flush=True)
    print("C43: component values without a non trivial iterate in this run: %s" % sorted(all_values() - covered), flush=True)
    if tot["misaligned"]:
        u.note("misaligned iterates between the two perturbation runs: %d" % tot["misaligned"])
    return u.finish()


if __name__ == "__main__":
    sys.exit(main())
