#!/usr/bin/env python3-vt
"""C47  The build-target registry (src/targets.lst) survives histories and crashes.

sub `history` (Hypothesis): a sequence of 2..6 mfront runs in one directory,
each over 1..4 files of a validated pool (corpus properties / behaviours /
models + synthetic properties) x interface subset x -D defines.
  oracle: every run exits 0; after every run the registry, parsed by the
  independent parser below, equals the *union* of the descriptions of the runs
  made so far, where the description of a run is the registry written by the
  same command in a fresh directory; no list holds a duplicate; a further run
  of an already registered command leaves targets.lst byte-identical
  (write -> read -> write is the identity).

sub `crash` (fault enumeration inside each generated history): history = bulk
run(s) making the registry larger than one 8191-byte stream buffer, then a
run which is killed.  The killed run is traced once with
`strace -f -P src/targets.lst` to list every system call touching the
registry; it is then re-executed from the same snapshot once for every
(syscall name, k) with `-e inject=<name>:signal=KILL:when=k` (the signal is
delivered on *entering* the k-th such call on that path).  After each crash a
final normal mfront run over a new file is made.
  oracle: the final run exits != 0, or its output names `targets.lst`
  (damaged registry reported), or the final registry contains everything
  registered by the runs completed before the crash (and the final run's own
  description).  exit 0 + no message + entries missing = violation.
"""
import os
import re
import shutil
import sys
import ctypes

sys.path.insert(0, os.path.join(os.path.dirname(os.path.abspath(__file__)), "..", "common"))
from verifpy import *  # noqa
import verifpy
from verifpy_batch import prun, pmap, run_batched
from hypothesis import strategies as st

MFRONT = tool("mfront")
LIST_FIELDS = ("sources", "cppflags", "include_directories", "ldflags", "link_directories",
               "link_libraries", "epts", "deps")
BEHAVIOUR_IFACES = ["generic"]
MODEL_IFACES = ["generic"]
PROPERTY_IFACES = ["generic", "c", "c++", "excel", "octave", "mfront", "generic-parallel", "excel-internal"]


# ------------------------------------------------------------------ independent reader of targets.lst
class ParseError(Exception):
    pass


_TOK = re.compile(r'\s*(?:("(?:[^"\\]|\\.)*")|([A-Za-z_][A-Za-z_0-9]*)|([{}:;,]))')


def tokenize(txt):
    pos, out = 0, []
    n = len(txt)
    while True:
        while pos < n and txt[pos].isspace():
            pos += 1
        if pos >= n:
            return out
        m = _TOK.match(txt, pos)
        if not m:
            raise ParseError("bad token at offset %d: %r" % (pos, txt[pos:pos + 30]))
        if m.group(1) is not None:
            out.append(("s", m.group(1)[1:-1].replace('\\"', '"')))
        elif m.group(2) is not None:
            out.append(("i", m.group(2)))
        else:
            out.append(("p", m.group(3)))
        pos = m.end()


class P:
    def __init__(self, toks):
        self.t, self.i = toks, 0

    def peek(self):
        if self.i >= len(self.t):
            raise ParseError("unexpected end of file")
        return self.t[self.i]

    def next(self):
        x = self.peek()
        self.i += 1
        return x

    def expect(self, v):
        k, x = self.next()
        if x != v or k == "s":
            raise ParseError("expected %r, read %r" % (v, x))

    def string(self):
        k, x = self.next()
        if k != "s":
            raise ParseError("expected a string, read %r" % x)
        return x

    def strings(self):
        self.expect(":")
        self.expect("{")
        v = []
        if self.peek() != ("p", "}"):
            v.append(self.string())
            while self.peek() == ("p", ","):
                self.next()
                v.append(self.string())
        self.expect("}")
        self.expect(";")
        return v


def parse_registry(txt):
    """-> {"libraries": {name: {...}}, "headers": [...], "targets": {name: {...}}}"""
    p = P(tokenize(txt))
    r = {"libraries": {}, "headers": [], "targets": {}}
    p.expect("{")
    while p.peek() != ("p", "}"):
        k, tag = p.next()
        if k != "i":
            raise ParseError("unexpected %r" % tag)
        if tag == "library":
            p.expect(":")
            p.expect("{")
            lib = {f: [] for f in LIST_FIELDS}
            while p.peek() != ("p", "}"):
                k2, f = p.next()
                if f in ("name", "prefix", "suffix", "install_path"):
                    p.expect(":")
                    lib[f] = p.string()
                    p.expect(";")
                elif f == "type":
                    p.expect(":")
                    lib[f] = p.next()[1]
                    p.expect(";")
                elif f in LIST_FIELDS:
                    if lib[f]:
                        raise ParseError("field %s given twice" % f)
                    lib[f] = p.strings()
                else:
                    raise ParseError("unknown library field %r" % f)
            p.expect("}")
            p.expect(";")
            if lib.get("name") in r["libraries"] or "name" not in lib:
                raise ParseError("library %r given twice / unnamed" % lib.get("name"))
            r["libraries"][lib["name"]] = lib
        elif tag == "headers":
            if r["headers"]:
                raise ParseError("headers given twice")
            r["headers"] = p.strings()
        elif tag == "target":
            p.expect(":")
            p.expect("{")
            t = {"dependencies": [], "commands": [], "sources": [], "libraries": []}
            name = None
            while p.peek() != ("p", "}"):
                k2, f = p.next()
                if f == "name":
                    p.expect(":")
                    name = p.string()
                    p.expect(";")
                elif f in t:
                    t[f] = p.strings()
                else:
                    raise ParseError("unknown target field %r" % f)
            p.expect("}")
            p.expect(";")
            if name is None or name in r["targets"]:
                raise ParseError("target %r unnamed / given twice" % name)
            r["targets"][name] = t
        else:
            raise ParseError("unknown tag %r" % tag)
    p.expect("}")
    p.expect(";")
    if p.i != len(p.t):
        raise ParseError("trailing tokens")
    return r


# ------------------------------------------------------------------ model: union of descriptions
def empty_model():
    return {"libraries": {}, "headers": [], "targets": {}}


def union(model, d):
    """in place: model := model U d ; returns a conflict message or None"""
    for n, l in d["libraries"].items():
        m = model["libraries"].get(n)
        if m is None:
            model["libraries"][n] = {k: (list(v) if isinstance(v, list) else v) for k, v in l.items()}
            continue
        for f in ("type", "prefix", "suffix"):
            if m.get(f) != l.get(f):
                return "library %s: %s differs between runs (%r / %r)" % (n, f, m.get(f), l.get(f))
        if l.get("install_path"):
            m["install_path"] = l["install_path"]
        for f in LIST_FIELDS:
            for x in l[f]:
                if x not in m[f]:
                    m[f].append(x)
    for h in d["headers"]:
        if h not in model["headers"]:
            model["headers"].append(h)
    for n, t in d["targets"].items():
        if n == "all":
            a = model["targets"].setdefault("all", {"dependencies": [], "commands": [], "sources": [], "libraries": []})
            for x in t["dependencies"]:
                if x not in a["dependencies"]:
                    a["dependencies"].append(x)
        else:
            # same name from two runs: only "one of the runs' versions" is demanded, see contains()
            model["targets"].setdefault(n, [])
            if t not in model["targets"][n]:
                model["targets"][n].append(t)
    return None


def dups(reg):
    out = []
    for n, l in reg["libraries"].items():
        for f in LIST_FIELDS:
            if len(set(l[f])) != len(l[f]):
                out.append("library %s field %s" % (n, f))
    if len(set(reg["headers"])) != len(reg["headers"]):
        out.append("headers")
    return out


def missing(reg, model):
    """entries of the model that the registry lacks (list of strings)"""
    out = []
    for n, m in model["libraries"].items():
        l = reg["libraries"].get(n)
        if l is None:
            out.append("library " + n)
            continue
        for f in ("type", "prefix", "suffix"):
            if l.get(f) != m.get(f):
                out.append("library %s: %s" % (n, f))
        for f in LIST_FIELDS:
            for x in m[f]:
                if x not in l[f]:
                    out.append("library %s: %s entry %s" % (n, f, x))
    for h in model["headers"]:
        if h not in reg["headers"]:
            out.append("header " + h)
    for n, ts in model["targets"].items():
        t = reg["targets"].get(n)
        if t is None:
            out.append("target " + n)
        elif n == "all":
            for x in ts["dependencies"]:
                if x not in t["dependencies"]:
                    out.append("target all: dependency " + x)
        elif t not in ts:
            out.append("target %s: content is none of the runs' versions" % n)
    return out


def extra(reg, model):
    """entries of the registry that no run described"""
    out = []
    for n, l in reg["libraries"].items():
        m = model["libraries"].get(n)
        if m is None:
            out.append("library " + n)
            continue
        for f in LIST_FIELDS:
            for x in l[f]:
                if x not in m[f]:
                    out.append("library %s: %s entry %s" % (n, f, x))
    for h in reg["headers"]:
        if h not in model["headers"]:
            out.append("header " + h)
    for n in reg["targets"]:
        if n not in model["targets"]:
            out.append("target " + n)
    return out


# ------------------------------------------------------------------ running mfront
def run_cmd(r):
    cmd = [MFRONT, "--interface=" + ",".join(r["ifaces"])]
    for d in r.get("defs", []):
        cmd += ["-D", d]
    for f in r["files"]:
        p = f if os.path.isabs(f) else (os.path.join(REPO, f) if not f.startswith("@") else synth_path(f))
        cmd += ["--search-path=" + os.path.dirname(p)] if not f.startswith("@") else []
        cmd.append(p)
    return cmd


SYNTH_DIR = os.path.join(WORK, "c47-synth")


def synth_path(tag):
    """@P<i> : synthetic material property with a long name (deterministic content)"""
    i = int(tag[2:])
    os.makedirs(SYNTH_DIR, exist_ok=True)
    p = os.path.join(SYNTH_DIR, "Synth%03d.mfront" % i)
    if not os.path.exists(p):
        tmp = p + ".%d" % os.getpid()
        with open(tmp, "w") as f:
            f.write("@DSL MaterialLaw;\n@Law SyntheticPropertyWithARatherLongNameNumber%03d;\n"
                    "@Material Material%d;\n@Output y;\n@Input T;\n@Function{\n y = %d.5*T;\n}\n" % (i, i % 5, i))
        os.replace(tmp, p)
    return p


import itertools
import threading
_dirs = itertools.count(1)
_lock = threading.Lock()


def newdir(tag):
    d = os.path.join(WORK, "c47-%s-%d-%d" % (tag, os.getpid(), next(_dirs)))
    shutil.rmtree(d, ignore_errors=True)
    os.makedirs(d)
    return d


def mfront(r, cwd, timeout=300):
    rc, so, se = prun(run_cmd(r), cwd=cwd, timeout=timeout)
    return rc, so + se


def read_registry(d):
    p = os.path.join(d, "src", "targets.lst")
    if not os.path.exists(p):
        return None
    return open(p, "rb").read()


_fresh = {}


def fresh_description(r):
    """registry written by the command in a fresh directory (= the description of the run)"""
    k = canonical(r)
    if k not in _fresh:
        d = newdir("fresh")
        rc, out = mfront(r, d)
        raw = read_registry(d)
        if rc != 0 or raw is None:
            _fresh[k] = None
        else:
            try:
                _fresh[k] = parse_registry(raw.decode(errors="replace"))
            except ParseError as e:
                # what does mfront's own reader say?  run the same command again in that directory
                rc2, out2 = mfront(r, d)
                own = [l for l in out2.splitlines() if "targets.lst" in l]
                _fresh[k] = ("unparsable", "independent reader: %s; mfront re-run (exit %d) says: %s" % (
                    e, rc2, " | ".join(own)[:300] if own else "nothing"), bool(own))
        shutil.rmtree(d, ignore_errors=True)
    return _fresh[k]


def known_backslash_class(r):
    """a -D value with a backslash right before a double quote or at its end: the
    writer escapes '"' but not '\\' so the written string is not what the reader reads"""
    return any(re.search(r'\\+("|$)', d) for d in r.get("defs", []))


# ------------------------------------------------------------------ sub history
def check_history(case):
    runs = case["runs"]
    model = empty_model()
    d = newdir("hist")
    classes = set()
    shared = False
    try:
        bs = any(known_backslash_class(r) for r in runs)
        for i, r in enumerate(runs):
            fd = fresh_description(r)
            if fd is None:
                raise Reject()
            if isinstance(fd, tuple):
                if not fd[2]:
                    return Result(False, "C47.harness.reader_disagrees", "single run %s: %s" % (run_cmd(r)[1:], fd[1]))
                if known_backslash_class(r):
                    return Result(False, "C47.roundtrip.backslash_in_define",
                                  "registry written by a single run %s cannot be read back: %s" % (run_cmd(r)[1:], fd[1]))
                return Result(False, "C47.roundtrip.unparsable", "single run %s: %s" % (run_cmd(r)[1:], fd[1]))
            before = set(model["libraries"])
            c = union(model, fd)
            if c is not None:
                raise Reject()   # two runs describing one library with different kinds: mfront refuses, outside the domain
            if before & set(fd["libraries"]):
                shared = True
            rc, out = mfront(r, d)
            key_sfx = ".backslash_in_define" if bs else ""
            if rc != 0:
                return Result(False, "C47.history.run_fails" + key_sfx, "run %d %s exits %d in the shared directory but 0 in a fresh one: %s" % (
                    i, run_cmd(r)[1:], rc, out[-600:]))
            raw = read_registry(d)
            try:
                reg = parse_registry(raw.decode(errors="replace"))
            except ParseError as e:
                return Result(False, "C47.roundtrip" + (key_sfx or ".unparsable"), "registry after run %d unreadable: %s" % (i, e))
            mi, ex, du = missing(reg, model), extra(reg, model), dups(reg)
            if mi:
                return Result(False, "C47.history.union_missing" + key_sfx, "after run %d the registry lacks %s (mfront said: %s)" % (
                    i, mi[:6], out[-300:]))
            if ex:
                return Result(False, "C47.history.union_extra" + key_sfx, "after run %d the registry holds undescribed %s" % (i, ex[:6]))
            if du:
                return Result(False, "C47.history.duplicates" + key_sfx, "after run %d duplicates in %s" % (i, du[:6]))
            if "targets.lst" in out:
                return Result(False, "C47.history.complains" + key_sfx, "run %d complains about an intact registry: %s" % (i, out[-400:]))
        # idempotence: run an already registered command again
        raw0 = read_registry(d)
        j = case["again"] % len(runs)
        rc, out = mfront(runs[j], d)
        raw1 = read_registry(d)
        if rc != 0 or raw1 != raw0:
            return Result(False, "C47.history.not_idempotent" + (".backslash_in_define" if bs else ""),
                          "re-running run %d %s changes targets.lst (rc=%d, %d -> %d bytes)" % (
                              j, run_cmd(runs[j])[1:], rc, len(raw0), len(raw1 or b"")))
        classes.add("runs.%d" % len(runs))
        classes.add("size.%s" % ("gt8k" if len(raw0) > 8191 else "le8k"))
        if model["targets"]:
            classes.add("specific_targets")
        if any(r.get("defs") for r in runs):
            classes.add("defines")
        if shared:
            classes.add("shared_library")
        return Result(True, nontrivial=(len(runs) >= 2 and shared), classes=sorted(classes))
    finally:
        shutil.rmtree(d, ignore_errors=True)


# ------------------------------------------------------------------ sub crash
_libc = ctypes.CDLL("libc.so.6", use_errno=True)
_libc.sem_open.restype = ctypes.c_void_p


def sem_repost():
    """a kill inside MFrontLockGuard leaves the named semaphore decremented: give the token back so
    that the harness can never starve the other mfront users of this uid"""
    s = _libc.sem_open(("/mfront-%d" % os.geteuid()).encode(), 0)
    if s and s != ctypes.c_void_p(-1).value:
        _libc.sem_post(ctypes.c_void_p(s))
        _libc.sem_close(ctypes.c_void_p(s))


_SYS = re.compile(r"^\d+\s+([a-z_0-9]+)\(")


def trace_calls(r, snap):
    """names of the syscalls touching src/targets.lst, in order, for run r started from snapshot snap"""
    d = newdir("trace")
    shutil.rmtree(d)
    shutil.copytree(snap, d)
    log = os.path.join(d, "strace.log")
    rc, so, se = prun(["strace", "-f", "-o", log, "-P", "src/targets.lst"] + run_cmd(r), cwd=d, timeout=300)
    calls = []
    if os.path.exists(log):
        for l in open(log, errors="replace"):
            m = _SYS.match(l)
            if m:
                calls.append((m.group(1), "O_TRUNC" in l))
    raw = read_registry(d)
    shutil.rmtree(d, ignore_errors=True)
    return rc, calls, raw


def crash_point(args):
    snap, r, name, k, final, pre_model, final_fd, full_size, after_trunc = args
    d = newdir("crash")
    shutil.rmtree(d)
    shutil.copytree(snap, d)
    try:
        log = os.path.join(d, "strace.log")
        rc, so, se = prun(["strace", "-f", "-o", log, "-P", "src/targets.lst",
                          "-e", "inject=%s:signal=KILL:when=%d" % (name, k)] + run_cmd(r), cwd=d, timeout=300)
        killed = os.path.exists(log) and "killed by SIGKILL" in open(log, errors="replace").read()
        if killed:
            sem_repost()
        raw = read_registry(d)
        size = len(raw) if raw is not None else -1
        if not killed:
            return {"point": (name, k), "state": "inject_missed", "outcome": "n/a", "fail": None}
        if size == 0:
            state = "empty"
        elif after_trunc and 0 < size < full_size:
            state = "partial"
        elif after_trunc:
            state = "complete"
        else:
            state = "untouched"
        try:
            parse_registry((raw or b"").decode(errors="replace"))
            readable = True
        except ParseError:
            readable = False
        rc2, out2 = mfront(final, d)
        raw2 = read_registry(d)
        lost = None
        try:
            reg2 = parse_registry((raw2 or b"").decode(errors="replace"))
            want = empty_model()
            union(want, pre_model_copy(pre_model))
            union(want, final_fd)
            lost = missing(reg2, want)
        except ParseError as e:
            lost = ["final registry unreadable: %s" % e]
        if rc2 != 0:
            outcome = "reported.exit"
        elif "targets.lst" in out2:
            outcome = "reported.log_exit0" + (".entries_lost" if lost else "")
        elif not lost:
            outcome = "superset"
        else:
            outcome = "silent_loss"
        fail = None
        if outcome == "silent_loss":
            fail = "kill on entering %s #%d (registry left %s, %d of %d bytes, readable=%s): final run exits 0 without naming targets.lst but the registry lost %s" % (
                name, k, state, size, full_size, readable, lost[:5])
        return {"point": (name, k), "state": state, "outcome": outcome, "fail": fail}
    finally:
        shutil.rmtree(d, ignore_errors=True)


def pre_model_copy(m):
    # union() expects a description (targets: name -> dict); the model stores lists of versions
    d = {"libraries": m["libraries"], "headers": m["headers"], "targets": {}}
    for n, t in m["targets"].items():
        d["targets"][n] = t if n == "all" else t[-1]
    return d


def check_crash(case):
    pre, r, final = case["pre"], case["crashed"], case["final"]
    snap = newdir("snap")
    try:
        model = empty_model()
        for i, p in enumerate(pre):
            fd = fresh_description(p)
            if fd is None or isinstance(fd, tuple):
                raise Reject()
            if union(model, fd) is not None:
                raise Reject()
            rc, out = mfront(p, snap)
            if rc != 0:
                raise Reject()   # the history sub owns this
        ffd, cfd = fresh_description(final), fresh_description(r)
        if ffd is None or isinstance(ffd, tuple) or cfd is None or isinstance(cfd, tuple):
            raise Reject()
        t = empty_model()
        union(t, pre_model_copy(model))
        if union(t, cfd) is not None or union(t, ffd) is not None:
            raise Reject()
        raw_pre = read_registry(snap)
        reg_pre = parse_registry(raw_pre.decode(errors="replace"))
        if missing(reg_pre, model):
            raise Reject()       # the history sub owns this
        rc, calls, raw_full = trace_calls(r, snap)
        if rc != 0 or raw_full is None:
            raise Reject()
        full = len(raw_full)
        points, cnt, trunc_seen = [], {}, False
        for name, trunc in calls:
            cnt[name] = cnt.get(name, 0) + 1
            if name not in INJECTED and not name.startswith(("write", "pwrite", "open", "close", "rename", "unlink", "ftruncate", "truncate")):
                trunc_seen = trunc_seen or trunc
                continue      # read-only calls (read, fstat, lseek...): thorough tier only
            # the kill is delivered on entering the call: the truncating open itself is still "before"
            points.append((snap, r, name, cnt[name], final, model, ffd, full, trunc_seen))
            trunc_seen = trunc_seen or trunc
        if not trunc_seen:
            return Result(False, "C47.harness.no_truncating_open", "trace shows no O_TRUNC open of the registry: %s" % calls)
        res = pmap(crash_point, points)
        classes = {}
        for x in res:
            for c in ("state." + x["state"], "outcome." + x["outcome"], "call." + x["point"][0]):
                classes[c] = classes.get(c, 0) + 1
        fails = [x["fail"] for x in res if x["fail"]]
        cl = sorted(classes) + ["points.%d" % len(points)]
        with _lock:
            CRASH_TOTALS["points"] += len(points)
            for c, n in classes.items():
                CRASH_TOTALS[c] = CRASH_TOTALS.get(c, 0) + n
        if fails:
            return Result(False, "C47.crash.silent_loss", "; ".join(fails[:3]))
        nt = len(pre) >= 2 and classes.get("state.partial", 0) >= 1 and classes.get("state.inject_missed", 0) == 0
        return Result(True, nontrivial=nt, classes=cl)
    finally:
        shutil.rmtree(snap, ignore_errors=True)


CRASH_TOTALS = {"points": 0}
INJECTED = ("read", "readv", "pread64", "fstat", "newfstatat", "lseek", "statx") if int(param("inject_reads", 0)) else ()


# ------------------------------------------------------------------ pool and strategies
def corpus_pool():
    import glob as g
    props = sorted(os.path.relpath(p, REPO) for p in g.glob(os.path.join(REPO, "mfront/tests/properties/*.mfront")))
    behs = sorted(os.path.relpath(p, REPO) for p in g.glob(os.path.join(REPO, "mfront/tests/behaviours/*.mfront")))
    mods = sorted(os.path.relpath(p, REPO) for p in g.glob(os.path.join(REPO, "mfront/tests/models/*.mfront")))
    return props, behs, mods


def validated_pool():
    """keep the files that mfront treats successfully on their own (every admissible interface at once)"""
    import random
    rnd = random.Random(SEED)
    props, behs, mods = corpus_pool()
    nb = int(param("pool_behaviours", 24))
    behs = rnd.sample(behs, min(nb, len(behs)))
    cands = [(f, "p", PROPERTY_IFACES) for f in props] + [(f, "b", BEHAVIOUR_IFACES) for f in sorted(behs)] + \
            [(f, "m", MODEL_IFACES) for f in mods] + [("@P%d" % i, "p", PROPERTY_IFACES) for i in range(40)]

    def ok(c):
        fd = fresh_description({"files": [c[0]], "ifaces": c[2], "defs": []})
        return fd is not None and not isinstance(fd, tuple)
    good = pmap(ok, cands)
    return [c for c, g_ in zip(cands, good) if g_]


DEF_ALPHABET = 'ab1_ "\\=/'


def strategies(pool):
    props = [c[0] for c in pool if c[1] == "p"]
    behs = [c[0] for c in pool if c[1] == "b"]
    mods = [c[0] for c in pool if c[1] == "m"]
    define = st.builds(lambda n, v: "%s=%s" % (n, v) if v is not None else n,
                       st.sampled_from(["A", "VERIF_X", "NDEBUG2"]),
                       st.one_of(st.none(), st.sampled_from(["1", "x y", '"q"', "a\\\\b", "a\\nb", "'c'"]),
                                 st.text(alphabet=DEF_ALPHABET, min_size=0, max_size=6)))
    defs = st.one_of(st.just([]), st.just([]), st.lists(define, min_size=1, max_size=2, unique=True))

    def runs_of(kind_files, ifaces, lo, hi):
        return st.fixed_dictionaries({
            "files": st.lists(st.sampled_from(kind_files), min_size=lo, max_size=hi, unique=True),
            "ifaces": st.lists(st.sampled_from(ifaces), min_size=1, max_size=min(4, len(ifaces)), unique=True).map(sorted),
            "defs": defs})
    kinds = [runs_of(props, PROPERTY_IFACES, 1, 4)]
    if behs:
        kinds.append(runs_of(behs, BEHAVIOUR_IFACES, 1, 3))
    if mods:
        kinds.append(runs_of(mods, MODEL_IFACES, 1, 2))
    mixed = st.fixed_dictionaries({   # one command over files of several kinds: only `generic` exists for all of them
        "files": st.lists(st.sampled_from(props + behs + mods), min_size=2, max_size=4, unique=True),
        "ifaces": st.just(["generic"]), "defs": defs})
    one_run = st.one_of(kinds + [mixed])
    history = st.fixed_dictionaries({"runs": st.lists(one_run, min_size=2, max_size=6),
                                     "again": st.integers(0, 5)})
    bulk = st.fixed_dictionaries({
        "files": st.builds(lambda n, o: sorted(props[(o + i) % len(props)] for i in range(min(n, len(props)))),
                           st.integers(25, 50), st.integers(0, len(props) - 1)),
        "ifaces": st.lists(st.sampled_from(PROPERTY_IFACES), min_size=3, max_size=6, unique=True).map(sorted),
        "defs": st.just([])})
    nodef = one_run.map(lambda r: dict(r, defs=[]))
    crash = st.fixed_dictionaries({
        "pre": st.builds(lambda b, more: [b] + more, bulk, st.lists(nodef, min_size=1, max_size=3)),
        "crashed": nodef, "final": nodef})
    return history, crash


CHECKS = {"history": check_history, "crash": check_crash}

if __name__ == "__main__":
    replay_main(CHECKS)
    u = Unit("C47_registry")
    only = os.environ.get("VERIF_ONLY", "")
    pool = validated_pool()
    u.extra["pool"] = {"properties": sum(1 for c in pool if c[1] == "p"), "behaviours": sum(1 for c in pool if c[1] == "b"),
                       "models": sum(1 for c in pool if c[1] == "m")}
    hist, crash = strategies(pool)
    if not only or "history" in only:
        run_batched(u, "history", hist, check_history, int(param("cases", 40)), batch=8)
    if not only or "crash" in only:
        run_batched(u, "crash", crash, check_crash, int(param("crash_histories", 10)), batch=4, seed_offset=7)
    u.extra["crash_totals"] = CRASH_TOTALS
    u.top["exhaustive"] = {"what": "every system call touching src/targets.lst in the killed run (listed by a strace of that run) "
                                   "x every generated history", "points": CRASH_TOTALS["points"]}
    sys.exit(u.finish())
