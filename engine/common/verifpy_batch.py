"""Batched Hypothesis driver for py units whose cases cost several process runs
(mfront + g++ ...): Hypothesis is sequential, so a generated example is a
fixed-size *batch* of independent elements which are checked in parallel.

  run_batched(unit, sub, elem_strategy, check_fn, n, batch=8)

* `check_fn(elem) -> Result` (or raises Reject) is a pure function of the JSON
  serialisable element, exactly as for verifpy.run_hypothesis; accounting
  (evaluations, classes, non-trivial, discards, known findings) is per element.
* On a failure Hypothesis shrinks the batch; results are memoised by element,
  so passing siblings (which shrink to the simplest element) cost nothing.
  The replay file holds the single shrunk failing *element*, so
  verifpy.replay_main({sub: check_fn}) replays it unchanged.
* prun(cmd, ...) = verifpy.run under a global semaphore of JOBS slots, so nested
  parallel_map calls never start more than JOBS processes at once.
"""
import threading

import verifpy
from verifpy import Reject, canonical, SEED, JOBS

_slots = threading.BoundedSemaphore(max(1, JOBS))


def prun(cmd, cwd=None, timeout=300, env=None, input=None):
    with _slots:
        return verifpy.run(cmd, cwd=cwd, timeout=timeout, env=env, input=input)


def pmap(fn, items, jobs=None):
    """thread map; the threads only wait for processes started through prun"""
    import concurrent.futures as cf
    items = list(items)
    if not items:
        return []
    with cf.ThreadPoolExecutor(max_workers=jobs or max(1, min(len(items), 2 * JOBS))) as ex:
        return list(ex.map(fn, items))


def run_batched(unit, sub, elem_strategy, check_fn, n, batch=8, seed_offset=0):
    from hypothesis import given, settings, seed, HealthCheck, Phase, strategies as st
    memo = {}
    lock = threading.Lock()
    last = {}

    def ev(e):
        k = canonical(e)
        with lock:
            if k in memo:
                return memo[k]
        try:
            r = check_fn(e)
        except Reject:
            r = None
        with lock:
            memo[k] = r
        return r

    nb = max(1, (int(n) + batch - 1) // batch)

    @seed(SEED + seed_offset)
    @settings(max_examples=nb, database=None, deadline=None, derandomize=False,
              report_multiple_bugs=False, suppress_health_check=list(HealthCheck),
              phases=[Phase.generate, Phase.shrink])
    @given(st.lists(elem_strategy, min_size=batch, max_size=batch))
    def prop(es):
        rs = pmap(ev, es, jobs=batch)
        shrinking = "case" in last
        bad = None
        for e, r in zip(es, rs):
            if r is None:
                if not shrinking:
                    unit.discard(sub)
            elif r.ok:
                if not shrinking:
                    unit.case(sub, e, r.nontrivial, r.classes, r.errs, r.sample)
            elif unit.is_known(r.key):
                if not shrinking:
                    unit.fail(sub, r.key, r.msg, e)
            elif bad is None:
                bad = (e, r)
        if bad is not None:
            last["case"], last["key"], last["msg"] = bad[0], bad[1].key, bad[1].msg
            raise AssertionError(bad[1].key)

    try:
        prop()
    except AssertionError:
        pass
    except Exception as e:
        if "case" not in last:
            unit.note("hypothesis: %s: %s" % (type(e).__name__, str(e)[:300]))
    if "case" in last:
        unit.fail(sub, last["key"], last["msg"], last["case"])
