"""libFuzzer campaigns as py units (see engine/README.md).

A fuzz target is a C++ file with LLVMFuzzerTestOneInput (+ optional custom
mutator).  It is linked against the clang ASan+UBSan+fuzzer-no-link build of
/repo (/verif/build/asan, no NDEBUG so asserts join the oracle).  The semantic
oracle sits inside the target; the target includes engine/common/fuzzstats.hxx
to count evaluations / non-trivial inputs and dump them at exit and on sanitizer
death.

Only `crash-*` and `leak-*` artifacts (and `timeout-*` confirmed 3x out of
process) are candidate violations; `oom-*`/`slow-unit-*` are load noise.
"""
import glob
import hashlib
import json
import os
import shutil
import subprocess
import sys

from verifpy import REPO, VERIF, WORK, JOBS, SEED, run

ASAN = os.environ.get("VERIF_BUILD_ASAN", os.path.join(VERIF, "build", "asan"))

SAN_FLAGS = ["-fsanitize=address,undefined", "-fno-sanitize-recover=undefined", "-fno-omit-frame-pointer"]


def asan_libdirs():
    d = {}
    for p in glob.glob(os.path.join(ASAN, "**", "lib*.so"), recursive=True):
        d[os.path.basename(p)[3:-3]] = os.path.dirname(p)
    return d


def asan_env(extra=None):
    e = dict(os.environ)
    e["LD_LIBRARY_PATH"] = ":".join(sorted(set(asan_libdirs().values())))
    e["ASAN_OPTIONS"] = "detect_leaks=1:abort_on_error=0:symbolize=1:detect_odr_violation=0:handle_abort=1"
    e["UBSAN_OPTIONS"] = "print_stacktrace=1:halt_on_error=1"
    e["TFELHOME"] = ASAN
    if extra:
        e.update(extra)
    return e


def asan_tool(name):
    m = {"mfront": "mfront/src/mfront", "mtest": "mtest/src/mtest",
         "mfront-query": "mfront-query/src/mfront-query", "tfel-check": "tfel-check/src/tfel-check"}
    return os.path.join(ASAN, m[name])


def build_target(src, name, libs, includes=(), extra_flags=(), fuzzer=True):
    """compile a libFuzzer target (or a plain ASan tool when fuzzer=False) against the asan tree"""
    out = os.path.join(VERIF, "build", "bin", name)
    os.makedirs(os.path.dirname(out), exist_ok=True)
    ld = asan_libdirs()
    san = ["-fsanitize=fuzzer,address,undefined"] + SAN_FLAGS[1:] if fuzzer else SAN_FLAGS
    cmd = ["clang++", "-std=gnu++20", "-g", "-O1", "-w"] + san + list(extra_flags) + [
        "-I" + os.path.join(REPO, "include"), "-I" + os.path.join(ASAN, "include"),
        "-I" + os.path.join(REPO, "mfront", "include"), "-I" + os.path.join(REPO, "mtest", "include"),
        "-I" + os.path.join(VERIF, "engine", "common")]
    cmd += ["-I" + i for i in includes]
    cmd += [src, "-o", out]
    for l in libs:
        if l not in ld:
            return None, "library %s not built in %s (add it to ninja_asan in the spec)" % (l, ASAN)
        cmd += ["-L" + ld[l], "-Wl,-rpath," + ld[l], "-l" + l]
    rc, so, se = run(cmd, timeout=1800)
    if rc != 0:
        errs = [l for l in se.splitlines() if "error" in l or "undefined" in l]
        return None, "\n".join(errs[:30])[:6000]
    return out, ""


def campaign(exe, seeds, runs, jobs=None, seed=None, max_len=4096, timeout=25, rss_mb=2048,
             dict_path=None, extra_args=(), tag="c", wall_timeout=None, env=None):
    """Run `jobs` independent libFuzzer processes of `runs` executions each on a fresh
    corpus seeded from `seeds` (list of files).  A process that finds a crash stops;
    the others continue.  Returns dict(artifacts=[paths], executions=int, stats=[...],
    corpus=dir, logs=[...])."""
    jobs = jobs or JOBS
    seed = SEED if seed is None else seed
    base = os.path.join(WORK, "fuzz-" + tag)
    shutil.rmtree(base, ignore_errors=True)
    corpus = os.path.join(base, "corpus")
    arts = os.path.join(base, "artifacts")
    os.makedirs(corpus)
    os.makedirs(arts)
    for i, s in enumerate(seeds):
        try:
            data = open(s, "rb").read()
        except OSError:
            continue
        if len(data) <= max_len:
            with open(os.path.join(corpus, "seed%04d" % i), "wb") as f:
                f.write(data)
    stats_files = []
    import threading

    def job(j):
        """one libFuzzer process; restarted (remaining budget, same corpus) when it
        stopped on a timeout/oom/slow-unit artifact, which are load noise"""
        sf = os.path.join(base, "stats-%d.json" % j)
        stats_files.append(sf)
        jc = os.path.join(base, "corpus-%d" % j)
        os.makedirs(jc, exist_ok=True)
        done = 0
        for attempt in range(6):
            remaining = runs - done
            if remaining <= 0:
                break
            cmd = [exe, jc, corpus, "-runs=%d" % remaining, "-seed=%d" % (seed * 131 + j + 1 + 1000 * attempt),
                   "-max_len=%d" % max_len, "-timeout=%d" % timeout, "-rss_limit_mb=%d" % rss_mb,
                   "-artifact_prefix=%s/" % arts, "-print_final_stats=1", "-verbosity=0",
                   "-entropic=0", "-reload=0"]
            if dict_path:
                cmd.append("-dict=" + dict_path)
            cmd += list(extra_args)
            e = asan_env(env)
            e["VERIF_FUZZ_STATS"] = sf
            logp = os.path.join(base, "log-%d-%d.txt" % (j, attempt))
            with open(logp, "wb") as log:
                p = subprocess.Popen(cmd, stdout=log, stderr=subprocess.STDOUT, env=e, cwd=base)
                try:
                    p.wait(timeout=wall_timeout)
                except subprocess.TimeoutExpired:
                    p.kill()
                    p.wait()
                    return
            txt = open(logp, errors="replace").read()
            n = 0
            for line in txt.splitlines():
                if line.startswith("stat::number_of_executed_units:"):
                    n = int(line.split()[1])
            done += n
            if p.returncode == 0:
                break
            # stopped on an artifact: only timeout/oom/slow-unit justify a restart
            if "Test unit written to" in txt and not any(
                    ("/%s-" % k) in txt for k in ("timeout", "oom", "slow-unit")):
                break
            if "/crash-" in txt or "/leak-" in txt:
                break

    threads = [threading.Thread(target=job, args=(j,)) for j in range(jobs)]
    for t in threads:
        t.start()
    for t in threads:
        t.join()
    executions = 0
    logs = sorted(glob.glob(os.path.join(base, "log-*.txt")))
    for l in logs:
        for line in open(l, errors="replace"):
            if line.startswith("stat::number_of_executed_units:"):
                executions += int(line.split()[1])
    stats = []
    for sf in stats_files:
        if os.path.exists(sf):
            for line in open(sf):
                try:
                    stats.append(json.loads(line))
                except ValueError:
                    pass
    artifacts = sorted(glob.glob(os.path.join(arts, "*")))
    return {"artifacts": artifacts, "executions": executions, "stats": stats, "corpus": corpus,
            "logs": logs, "base": base}


def artifact_kind(path):
    b = os.path.basename(path)
    for k in ("crash", "leak", "timeout", "oom", "slow-unit"):
        if b.startswith(k + "-"):
            return k
    return "other"


def rerun(exe, artifact, timeout=120, env=None):
    """run the target once on a saved input in a fresh process; returns (failed, text)"""
    rc, so, se = run([exe, artifact, "-timeout=%d" % timeout], timeout=timeout + 60, env=asan_env(env))
    txt = (so + se)[-6000:]
    failed = rc != 0
    return failed, txt


def summarise(text):
    """first interesting line of a sanitizer / libFuzzer report"""
    for line in text.splitlines():
        if "ERROR: AddressSanitizer" in line or "runtime error:" in line or "ERROR: libFuzzer" in line \
                or "Assertion" in line or "ORACLE" in line or "LeakSanitizer" in line:
            return line.strip()[:400]
    return text.strip().splitlines()[-1][:400] if text.strip() else "(no output)"


def merge_stats(unit, sub, stats, executions):
    """fold the side counters dumped by fuzzstats.hxx into the unit result"""
    s = unit._sub(sub)
    ev = sum(x.get("evaluations", 0) for x in stats)
    s["evaluations"] += max(ev, executions)
    s["nontrivial"] += sum(x.get("nontrivial", 0) for x in stats)
    for x in stats:
        for h in x.get("hashes", []):
            s["hashes"].add(h)
        for k, v in x.get("classes", {}).items():
            s["classes"][k] = s["classes"].get(k, 0) + v
        for smp in x.get("samples", []):
            if len(s["samples"]) < 4:
                s["samples"].append(smp)
    return s


def save_artifact(unit, artifact, replay_dir):
    os.makedirs(replay_dir, exist_ok=True)
    data = open(artifact, "rb").read()
    name = "%s.%s-%s.bin" % (unit.name, artifact_kind(artifact), hashlib.sha1(data).hexdigest()[:16])
    dst = os.path.join(replay_dir, name)
    shutil.copyfile(artifact, dst)
    return dst
