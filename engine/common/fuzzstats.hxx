/*!
 * \file fuzzstats.hxx
 * \brief Side counters for libFuzzer targets: evaluations, non-trivial inputs
 * (distinct by FNV-1a hash), class counters and a few samples.  Dumped as one
 * JSON line appended to $VERIF_FUZZ_STATS at exit *and* on sanitizer death
 * (atexit does not run on a sanitizer abort).
 *
 *   #include "fuzzstats.hxx"
 *   extern "C" int LLVMFuzzerTestOneInput(const uint8_t* d, size_t n) {
 *     fuzzstats::Scope sc(d, n);          // counts one evaluation
 *     ...
 *     sc.nontrivial();                    // by the property's stated rule
 *     sc.tag("parsed");
 *     if (oracle_violated) fuzzstats::oracle_failure("C13.value_mismatch: ...");  // prints + traps
 *     return 0;
 *   }
 */
#ifndef VERIF_FUZZSTATS_HXX
#define VERIF_FUZZSTATS_HXX

#include <cstdint>
#include <cstdio>
#include <cstdlib>
#include <cstring>
#include <map>
#include <string>
#include <unordered_set>
#include <vector>

extern "C" void __sanitizer_set_death_callback(void (*)(void));

// libFuzzer registers its own death callback (the one which writes the crash-<sha1> artifact and the final
// stats) in the same, single, user slot of the sanitizer runtime.  Ours must hand over to it, otherwise no
// artifact is ever written for a sanitizer report.  Weak: absent when this file is used without libFuzzer.
namespace fuzzer {
  class Fuzzer {
   public:
    __attribute__((weak)) static void StaticDeathCallback();
  };
}  // namespace fuzzer

namespace fuzzstats {

  struct State {
    std::uint64_t evaluations = 0;
    std::uint64_t nontrivial = 0;
    std::unordered_set<std::uint64_t> hashes;
    std::map<std::string, std::uint64_t> classes;
    std::vector<std::string> samples;
    bool dumped = false;
    bool registered = false;
  };
  inline State& state() {
    static State s;
    return s;
  }
  inline std::string escape(const std::uint8_t* d, std::size_t n) {
    std::string r;
    for (std::size_t i = 0; i < n && r.size() < 400; ++i) {
      const unsigned char ch = d[i];
      if (ch == '"' || ch == '\\') {
        r += '\\';
        r += static_cast<char>(ch);
      } else if (ch == '\n') {
        r += "\\n";
      } else if (ch < 0x20 || ch >= 0x7f) {
        char b[8];
        std::snprintf(b, sizeof b, "\\u%04x", ch);
        r += b;
      } else {
        r += static_cast<char>(ch);
      }
    }
    return r;
  }
  inline void dump() {
    auto& s = state();
    if (s.dumped) return;
    s.dumped = true;
    const char* p = std::getenv("VERIF_FUZZ_STATS");
    if (p == nullptr) return;
    FILE* f = std::fopen(p, "a");
    if (f == nullptr) return;
    std::fprintf(f, "{\"evaluations\":%llu,\"nontrivial\":%llu,\"classes\":{",
                 static_cast<unsigned long long>(s.evaluations),
                 static_cast<unsigned long long>(s.nontrivial));
    bool first = true;
    for (const auto& c : s.classes) {
      std::fprintf(f, "%s\"%s\":%llu", first ? "" : ",", c.first.c_str(),
                   static_cast<unsigned long long>(c.second));
      first = false;
    }
    std::fprintf(f, "},\"samples\":[");
    first = true;
    for (const auto& x : s.samples) {
      std::fprintf(f, "%s\"%s\"", first ? "" : ",", x.c_str());
      first = false;
    }
    std::fprintf(f, "],\"hashes\":[");
    first = true;
    std::size_t n = 0;
    for (const auto h : s.hashes) {
      if (++n > 200000) break;
      std::fprintf(f, "%s\"%llx\"", first ? "" : ",", static_cast<unsigned long long>(h));
      first = false;
    }
    std::fprintf(f, "]}\n");
    std::fclose(f);
  }
  inline void ensureRegistered() {
    auto& s = state();
    if (s.registered) return;
    s.registered = true;
    std::atexit(dump);
    __sanitizer_set_death_callback(+[] {
      dump();
      if (&fuzzer::Fuzzer::StaticDeathCallback != nullptr) fuzzer::Fuzzer::StaticDeathCallback();
    });
  }
  struct Scope {
    const std::uint8_t* d;
    std::size_t n;
    bool nt = false;
    Scope(const std::uint8_t* data, std::size_t size) : d(data), n(size) {
      ensureRegistered();
      ++state().evaluations;
    }
    void tag(const char* c) { ++state().classes[c]; }
    void nontrivial() {
      if (nt) return;
      nt = true;
      auto& s = state();
      ++s.nontrivial;
      std::uint64_t h = 1469598103934665603ull;
      for (std::size_t i = 0; i != n; ++i) {
        h ^= d[i];
        h *= 1099511628211ull;
      }
      if (s.hashes.insert(h).second && s.samples.size() < 4) {
        s.samples.push_back(escape(d, n));
      }
    }
  };
  //! semantic oracle violated: report, flush counters, trap (libFuzzer saves the input)
  [[noreturn]] inline void oracle_failure(const std::string& msg) {
    std::fprintf(stderr, "ORACLE-FAILURE %s\n", msg.c_str());
    std::fflush(stderr);
    dump();
    __builtin_trap();
  }

}  // namespace fuzzstats

#endif /* VERIF_FUZZSTATS_HXX */
