/*!
 * \file forkcase.hxx
 * \brief Run the body of one generated case in a forked child process.
 *
 * Used by the schedule checks (C29, C30): the code under test creates threads,
 * installs signal handlers, forks children and may dead-lock or crash.  The
 * case is executed in a child of the (single threaded) rapidcheck process; the
 * child reports through a pipe, the parent enforces a time limit and turns
 * "hung", "killed by a signal" and "unexpected exit code" into values the
 * harness can assert on.
 *
 * The child is made a process-group leader so that everything it spawned is
 * killed with it.
 */
#ifndef VERIF_FORKCASE_HXX
#define VERIF_FORKCASE_HXX

#include <cerrno>
#include <csignal>
#include <cstdio>
#include <cstdlib>
#include <cstring>
#include <ctime>
#include <dirent.h>
#include <fcntl.h>
#include <poll.h>
#include <string>
#include <sys/types.h>
#include <sys/wait.h>
#include <unistd.h>

namespace verif {

  struct ForkOutcome {
    //! DEADLOCK: every thread of the child sleeps in a futex wait without
    //! time-out and none was scheduled between two samples (load independent);
    //! TIMEOUT: the time budget was hit (inconclusive, never a verdict)
    enum How { EXITED, SIGNALED, TIMEOUT, FORK_FAILED, DEADLOCK } how = EXITED;
    int code = 0;      //!< exit code or signal number
    std::string text;  //!< everything the child wrote to the report fd (and stderr)
    double seconds = 0;
    std::string states;  //!< per-thread system calls when the child was killed (TIMEOUT, DEADLOCK)
  };

  inline double monotonicSeconds() {
    timespec ts;
    ::clock_gettime(CLOCK_MONOTONIC, &ts);
    return static_cast<double>(ts.tv_sec) + 1e-9 * static_cast<double>(ts.tv_nsec);
  }

  //! write a whole string to a file descriptor (async-signal-safe)
  inline void fdWrite(const int fd, const std::string& s) {
    const char* p = s.data();
    std::size_t n = s.size();
    while (n != 0) {
      const auto w = ::write(fd, p, n);
      if (w == -1) {
        if (errno == EINTR) continue;
        return;
      }
      p += w;
      n -= static_cast<std::size_t>(w);
    }
  }

  /*!
   * \return true (and the total number of context switches) when every thread
   * of `pid` is blocked in futex(FUTEX_WAIT[_BITSET]) with a null time-out
   */
  inline bool allThreadsInInfiniteFutexWait(const pid_t pid, unsigned long long& switches) {
    char path[128];
    std::snprintf(path, sizeof path, "/proc/%ld/task", static_cast<long>(pid));
    DIR* d = ::opendir(path);
    if (d == nullptr) return false;
    bool all = true;
    int n = 0;
    switches = 0;
    while (const dirent* e = ::readdir(d)) {
      if (e->d_name[0] == '.') continue;
      ++n;
      char buf[512];
      std::snprintf(path, sizeof path, "/proc/%ld/task/%s/syscall", static_cast<long>(pid), e->d_name);
      FILE* f = std::fopen(path, "r");
      if (f == nullptr) {
        all = false;
        break;
      }
      const bool got = std::fgets(buf, sizeof buf, f) != nullptr;
      std::fclose(f);
      unsigned long long nr = 0, a0 = 0, a1 = 0, a2 = 0, a3 = 1;
      if (!got || std::sscanf(buf, "%llu %llx %llx %llx %llx", &nr, &a0, &a1, &a2, &a3) != 5) {
        all = false;  // "running" or unreadable
        break;
      }
      const auto op = a1 & 0x7f;
      if (!(nr == 202 && (op == 0 || op == 9) && a3 == 0)) {
        all = false;
        break;
      }
      std::snprintf(path, sizeof path, "/proc/%ld/task/%s/status", static_cast<long>(pid), e->d_name);
      f = std::fopen(path, "r");
      if (f == nullptr) {
        all = false;
        break;
      }
      while (std::fgets(buf, sizeof buf, f) != nullptr) {
        unsigned long long v;
        if (std::sscanf(buf, "voluntary_ctxt_switches: %llu", &v) == 1) switches += v;
        if (std::sscanf(buf, "nonvoluntary_ctxt_switches: %llu", &v) == 1) switches += v;
      }
      std::fclose(f);
    }
    ::closedir(d);
    return all && n > 0;
  }

  //! one line per thread of `pid`: its current system call (diagnostics of a hang)
  inline std::string threadStates(const pid_t pid) {
    std::string r;
    char path[128];
    std::snprintf(path, sizeof path, "/proc/%ld/task", static_cast<long>(pid));
    DIR* d = ::opendir(path);
    if (d == nullptr) return r;
    while (const dirent* e = ::readdir(d)) {
      if (e->d_name[0] == '.') continue;
      char buf[256];
      std::snprintf(path, sizeof path, "/proc/%ld/task/%s/syscall", static_cast<long>(pid), e->d_name);
      FILE* f = std::fopen(path, "r");
      if (f == nullptr) continue;
      if (std::fgets(buf, sizeof buf, f) != nullptr) {
        unsigned long long nr = 0, a0 = 0, a1 = 0;
        if (std::sscanf(buf, "%llu %llx %llx", &nr, &a0, &a1) == 3) {
          std::snprintf(buf, sizeof buf, "syscall %llu(0x%llx,0x%llx)", nr, a0, a1);
        } else if (char* nl = std::strchr(buf, '\n')) {
          *nl = 0;
        }
        r += std::string("[tid ") + e->d_name + ": " + buf + "]";
      }
      std::fclose(f);
    }
    ::closedir(d);
    return r;
  }

  /*!
   * \param child: callable `void(int report_fd)`; run in the child, which then
   *        `_exit(0)`s.  stderr of the child is redirected to the report pipe.
   * \param timeout: seconds after which the child's group is killed
   * \param detectDeadlock: sample the threads of the child (see DEADLOCK)
   */
  template <typename F>
  ForkOutcome runForked(F&& child, const double timeout, const bool detectDeadlock = false) {
    ForkOutcome o;
    int fds[2];
    if (::pipe2(fds, O_CLOEXEC) == -1) {
      o.how = ForkOutcome::FORK_FAILED;
      o.text = std::string("pipe2: ") + std::strerror(errno);
      return o;
    }
    std::fflush(stdout);
    std::fflush(stderr);
    const double t0 = monotonicSeconds();
    const pid_t pid = ::fork();
    if (pid == -1) {
      ::close(fds[0]);
      ::close(fds[1]);
      o.how = ForkOutcome::FORK_FAILED;
      o.text = std::string("fork: ") + std::strerror(errno);
      return o;
    }
    if (pid == 0) {
      ::setpgid(0, 0);
      ::close(fds[0]);
      ::dup2(fds[1], STDERR_FILENO);
      for (int sig : {SIGSEGV, SIGBUS, SIGFPE, SIGILL, SIGABRT, SIGCHLD, SIGPIPE, SIGTERM})
        ::signal(sig, SIG_DFL);
      child(fds[1]);
      ::_exit(0);
    }
    ::setpgid(pid, pid);
    ::close(fds[1]);
    bool timed_out = false, deadlock = false;
    char buf[4096];
    int same = 0;
    unsigned long long lastSwitches = 0;
    for (;;) {
      const double left = timeout - (monotonicSeconds() - t0);
      if (left <= 0) {
        timed_out = true;
        break;
      }
      pollfd pf{fds[0], POLLIN, 0};
      const int slice = detectDeadlock ? 300 : static_cast<int>(left * 1000) + 1;
      const int r = ::poll(&pf, 1, slice);
      if (r == -1) {
        if (errno == EINTR) continue;
        break;
      }
      if (r == 0) {
        if (detectDeadlock) {
          unsigned long long sw = 0;
          if (allThreadsInInfiniteFutexWait(pid, sw) && (same == 0 || sw == lastSwitches)) {
            lastSwitches = sw;
            if (++same >= 4) {  // 4 identical samples, 0.3 s apart
              timed_out = deadlock = true;
              break;
            }
          } else {
            same = 0;
          }
        }
        continue;
      }
      same = 0;
      const auto n = ::read(fds[0], buf, sizeof buf);
      if (n == -1) {
        if (errno == EINTR) continue;
        break;
      }
      if (n == 0) break;  // EOF: the child (and whatever kept the pipe) is gone
      if (o.text.size() < (1u << 20)) o.text.append(buf, static_cast<std::size_t>(n));
    }
    int status = 0;
    if (timed_out) {
      o.states = threadStates(pid);
      ::kill(-pid, SIGKILL);
      ::kill(pid, SIGKILL);
      while (::waitpid(pid, &status, 0) == -1 && errno == EINTR) {
      }
      // drain what was written before the kill
      for (;;) {
        const auto n = ::read(fds[0], buf, sizeof buf);
        if (n <= 0) break;
        if (o.text.size() < (1u << 20)) o.text.append(buf, static_cast<std::size_t>(n));
      }
      o.how = deadlock ? ForkOutcome::DEADLOCK : ForkOutcome::TIMEOUT;
    } else {
      // EOF seen: the child is exiting; a short grace period, then kill
      const double t1 = monotonicSeconds();
      for (;;) {
        const auto w = ::waitpid(pid, &status, WNOHANG);
        if (w == pid) break;
        if (w == -1 && errno != EINTR) break;
        if (monotonicSeconds() - t1 > 5.) {
          ::kill(pid, SIGKILL);
          while (::waitpid(pid, &status, 0) == -1 && errno == EINTR) {
          }
          break;
        }
        timespec ts{0, 200000};
        ::nanosleep(&ts, nullptr);
      }
      ::kill(-pid, SIGKILL);  // stragglers of the group, if any
      if (WIFSIGNALED(status)) {
        o.how = ForkOutcome::SIGNALED;
        o.code = WTERMSIG(status);
      } else {
        o.how = ForkOutcome::EXITED;
        o.code = WEXITSTATUS(status);
      }
    }
    ::close(fds[0]);
    o.seconds = monotonicSeconds() - t0;
    return o;
  }

}  // namespace verif

#endif /* VERIF_FORKCASE_HXX */
