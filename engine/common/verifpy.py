"""Protocol layer shared by the python ("py") units of /verif.

A py unit is a script started by /verif/check with this environment:
  VERIF_SEED  VERIF_TIER  VERIF_OUT  VERIF_KNOWN  VERIF_REPLAY_DIR  VERIF_WORK
  VERIF_REPO  VERIF_BUILD  VERIF_DIR  VERIF_JOBS  VERIF_PARAMS (json of the
  tier's parameters in the spec)   LD_LIBRARY_PATH (TFEL libs of the hooks tree)
and, for a replay,  `script.py --replay <file>` which must exit 1 iff the saved
case fails again (0 otherwise).

It must write the unit result JSON to $VERIF_OUT (Unit.finish does it) and exit
0 (no failure) or 1 (failures recorded).  Every random choice must come from
Hypothesis strategies (or from random.Random(SEED) for plain enumerations that
only *sample* an otherwise deterministic space).
"""
import glob
import hashlib
import json
import os
import shutil
import subprocess
import sys
import time

VERIF = os.environ.get("VERIF_DIR", "/verif")
REPO = os.environ.get("VERIF_REPO", "/repo")
BUILD = os.environ.get("VERIF_BUILD", os.path.join(VERIF, "build", "hooks"))
SEED = int(os.environ.get("VERIF_SEED", "1") or 1) or 1
TIER = os.environ.get("VERIF_TIER", "quick")
WORK = os.environ.get("VERIF_WORK", os.path.join(VERIF, "build", "work", "manual"))
JOBS = int(os.environ.get("VERIF_JOBS", str(os.cpu_count() or 4)))
KNOWN = set(k for k in os.environ.get("VERIF_KNOWN", "").split(",") if k)
PARAMS = json.loads(os.environ.get("VERIF_PARAMS", "{}") or "{}")
REPLAY_DIR = os.environ.get("VERIF_REPLAY_DIR", WORK)
os.makedirs(WORK, exist_ok=True)


def param(name, default):
    return PARAMS.get(name, default)


def tool(name):
    """path of an executable of the hooks tree"""
    m = {"mfront": "mfront/src/mfront", "mtest": "mtest/src/mtest",
         "tfel-check": "tfel-check/src/tfel-check",
         "mfront-query": "mfront-query/src/mfront-query",
         "tfel-unicode-filt": "tfel-unicode-filt/src/tfel-unicode-filt",
         "tfel-config": "tfel-config/tfel-config"}
    return os.path.join(BUILD, m[name])


def libdirs():
    d = {}
    for p in glob.glob(os.path.join(BUILD, "**", "lib*.so"), recursive=True):
        d[os.path.basename(p)[3:-3]] = os.path.dirname(p)
    return d


def canonical(obj):
    return json.dumps(obj, sort_keys=True, default=str)


def fnv(obj):
    return hashlib.sha1(canonical(obj).encode()).hexdigest()[:16]


class Unit:
    def __init__(self, name):
        self.name = name
        self.subs = {}
        self.failures = []
        self.known_hits = {}
        self.notes = []
        self.extra = {}
        self.top = {}
        self.t0 = time.time()

    def _sub(self, sub):
        return self.subs.setdefault(sub, {
            "evaluations": 0, "nontrivial": 0, "discarded": 0, "excluded_known": 0,
            "classes": {}, "max_normalised_error": {}, "samples": [], "hashes": set()})

    def case(self, sub, case, nontrivial=False, classes=(), errs=None, sample=None):
        """account one generated case that passed"""
        s = self._sub(sub)
        s["evaluations"] += 1
        for c in classes:
            s["classes"][c] = s["classes"].get(c, 0) + 1
        for k, v in (errs or {}).items():
            if k not in s["max_normalised_error"] or v > s["max_normalised_error"][k]:
                s["max_normalised_error"][k] = v
        if nontrivial:
            s["nontrivial"] += 1
            h = fnv(case)
            if h not in s["hashes"]:
                s["hashes"].add(h)
                if len(s["samples"]) < 3:
                    s["samples"].append(sample if sample is not None else case)

    def discard(self, sub):
        self._sub(sub)["discarded"] += 1

    def is_known(self, key):
        return key in KNOWN

    def fail(self, sub, key, msg, case, ext=".json"):
        """record a failing case.  Returns True when it is a new failure, False
        when it is a listed known finding (then counted as excluded)."""
        self._sub(sub)
        safe = "".join(ch if ch.isalnum() or ch in "._-" else "_" for ch in key)
        if key in KNOWN:
            self.subs[sub]["excluded_known"] += 1
            kh = self.known_hits.setdefault(key, {"sub": sub, "key": key, "msg": str(msg)[:2000], "count": 0,
                                                  "replay": ""})
            if kh["count"] == 0:
                kh["replay"] = self.write_replay(sub, key, msg, case, "known." + self.name + "." + sub + "." + safe + ".seed%d" % SEED + ext)
            kh["count"] += 1
            return False
        path = self.write_replay(sub, key, msg, case, self.name + "." + sub + "." + safe + ".seed%d" % SEED + ext)
        self.failures.append({"sub": sub, "key": key, "msg": str(msg)[:4000], "replay": path})
        print("FALSIFIED sub=%s key=%s msg=%s replay=%s" % (sub, key, str(msg)[:500], path), flush=True)
        return True

    def write_replay(self, sub, key, msg, case, fname):
        os.makedirs(REPLAY_DIR, exist_ok=True)
        path = os.path.join(REPLAY_DIR, fname)
        with open(path, "w") as f:
            f.write("# unit %s\n# key %s\n# msg %s\n" % (self.name, key, str(msg).replace("\n", " ")[:2000]))
            f.write(json.dumps({"sub": sub, "key": key, "case": case}, indent=1, default=str))
            f.write("\n")
        return path

    def note(self, s):
        self.notes.append(s)

    def finish(self):
        out = {"unit": self.name, "seed": SEED, "subs": {}, "failures": self.failures,
               "known_hits": list(self.known_hits.values()), "notes": self.notes, "extra": self.extra}
        out.update(self.top)
        for k, s in self.subs.items():
            d = dict(s)
            d["hashes"] = sorted(s["hashes"])
            d["distinct_nontrivial"] = len(s["hashes"])
            d["samples"] = [x if isinstance(x, (str, int, float, list, dict)) else str(x) for x in s["samples"]]
            out["subs"][k] = d
        p = os.environ.get("VERIF_OUT")
        if p:
            with open(p, "w") as f:
                json.dump(out, f, default=str)
        for k, s in self.subs.items():
            print("sub %s: evaluations=%d nontrivial=%d distinct=%d discarded=%d excluded_known=%d %s" % (
                k, s["evaluations"], s["nontrivial"], len(s["hashes"]), s["discarded"], s["excluded_known"],
                " ".join("%s=%d" % kv for kv in sorted(s["classes"].items()))), flush=True)
            for e, v in sorted(s["max_normalised_error"].items()):
                print("    maxerr %s = %g" % (e, v))
        return 1 if self.failures else 0


def load_replay(path):
    txt = "".join(l for l in open(path) if not l.startswith("#"))
    return json.loads(txt)


def replay_requested():
    if len(sys.argv) >= 3 and sys.argv[-2] == "--replay":
        return sys.argv[-1]
    return None


class Result:
    """outcome of checking one case"""

    def __init__(self, ok=True, key="", msg="", nontrivial=False, classes=(), errs=None, sample=None):
        self.ok, self.key, self.msg = ok, key, msg
        self.nontrivial, self.classes, self.errs, self.sample = nontrivial, classes, errs, sample


class Reject(Exception):
    """the case is outside the domain"""


def run_hypothesis(unit, sub, strategy, check_fn, max_examples, seed_offset=0):
    """Drive `check_fn(case) -> Result` with Hypothesis.  `case` must be JSON
    serialisable (it is what goes to the replay file).  Known findings are
    excluded (counted) and the search continues; the first other failure is
    shrunk by Hypothesis and recorded."""
    from hypothesis import given, settings, seed, HealthCheck, Phase, assume
    last = {}

    @seed(SEED + seed_offset)
    @settings(max_examples=max_examples, database=None, deadline=None, derandomize=False,
              report_multiple_bugs=False, suppress_health_check=list(HealthCheck),
              phases=[Phase.generate, Phase.shrink])
    @given(strategy)
    def prop(case):
        try:
            r = check_fn(case)
        except Reject:
            if "case" not in last:
                unit.discard(sub)
            assume(False)
            return
        if r.ok:
            if "case" not in last:  # executions made while shrinking are not generated cases
                unit.case(sub, case, r.nontrivial, r.classes, r.errs, r.sample)
            return
        if unit.is_known(r.key):
            unit.fail(sub, r.key, r.msg, case)
            return
        last["case"], last["key"], last["msg"] = case, r.key, r.msg
        raise AssertionError(r.key + ": " + str(r.msg))

    try:
        prop()
    except AssertionError:
        pass
    except Exception as e:  # Hypothesis wraps/raises other things (Flaky, Unsatisfiable...)
        if "case" not in last:
            unit.note("hypothesis: %s: %s" % (type(e).__name__, str(e)[:300]))
    if "case" in last:
        unit.fail(sub, last["key"], last["msg"], last["case"])


def replay_main(check_fn_by_sub):
    """standard handling of --replay for hypothesis-style units"""
    p = replay_requested()
    if p is None:
        return None
    d = load_replay(p)
    fn = check_fn_by_sub[d["sub"]] if isinstance(check_fn_by_sub, dict) else check_fn_by_sub
    try:
        r = fn(d["case"])
    except Reject:
        print("REPLAY-DISCARDED")
        sys.exit(0)
    if r.ok:
        print("REPLAY-PASSES")
        sys.exit(0)
    print("REPLAY-FAILS key=%s msg=%s" % (r.key, str(r.msg)[:2000]))
    sys.exit(1)


# ------------------------------------------------------------------ tools
def run(cmd, cwd=None, timeout=300, env=None, input=None):
    """run a command, returns (returncode, stdout, stderr); returncode -999 on timeout"""
    try:
        r = subprocess.run(cmd, cwd=cwd, stdout=subprocess.PIPE, stderr=subprocess.PIPE,
                           timeout=timeout, env=env, input=input)
        return r.returncode, r.stdout.decode(errors="replace"), r.stderr.decode(errors="replace")
    except subprocess.TimeoutExpired as e:
        return -999, (e.stdout or b"").decode(errors="replace"), (e.stderr or b"").decode(errors="replace")


_tree_digest = None


def header_tree_digest():
    """cheap digest (path, size, mtime) of the TFEL headers generated code depends on"""
    global _tree_digest
    if _tree_digest is None:
        h = hashlib.sha1()
        for root in (os.path.join(REPO, "include"), os.path.join(REPO, "mfront", "include"),
                     os.path.join(BUILD, "include")):
            for dp, dn, fn in os.walk(root):
                dn.sort()
                for f in sorted(fn):
                    p = os.path.join(dp, f)
                    st = os.stat(p)
                    h.update(("%s %d %d\n" % (p, st.st_size, st.st_mtime_ns)).encode())
        _tree_digest = h.hexdigest()
    return _tree_digest


CXXFLAGS_GENERATED = ["-std=c++20", "-O1", "-fPIC", "-shared", "-w", "-DNDEBUG"]


def mfront_generate(src, workdir, interface="generic", extra_args=(), timeout=120, kind="behaviour"):
    """run mfront (hooks tree) on `src` inside `workdir`; returns (rc, stdout, stderr)"""
    os.makedirs(workdir, exist_ok=True)
    cmd = [tool("mfront"), "--interface=" + interface] + list(extra_args) + [src]
    return run(cmd, cwd=workdir, timeout=timeout)


def compile_generated(workdir, libname, libs=("TFELMaterial", "TFELMath", "TFELUtilities", "TFELException", "TFELPhysicalConstants"),
                      extra_flags=(), timeout=900, sources=None):
    """compile workdir/src/*.cxx (generated by mfront) into workdir/src/lib<libname>.so.
    Cached in /verif/build/cache by a hash of the generated sources and of the
    TFEL header tree state.  Returns (path or None, error text)."""
    srcs = sources or sorted(glob.glob(os.path.join(workdir, "src", "*.cxx")))
    if not srcs:
        return None, "no generated source"
    h = hashlib.sha1()
    h.update(header_tree_digest().encode())
    h.update(" ".join(CXXFLAGS_GENERATED + list(extra_flags)).encode())
    for dp, dn, fn in os.walk(workdir):
        dn.sort()
        for f in sorted(fn):
            if f.endswith((".cxx", ".hxx", ".h", ".ixx")):
                h.update(f.encode())
                h.update(open(os.path.join(dp, f), "rb").read())
    key = h.hexdigest()
    cache = os.path.join(VERIF, "build", "cache")
    os.makedirs(cache, exist_ok=True)
    out = os.path.join(workdir, "src", "lib%s.so" % libname)
    cached = os.path.join(cache, key + ".so")
    if os.path.exists(cached):
        shutil.copyfile(cached, out)
        return out, ""
    ld = libdirs()
    cmd = ["g++"] + CXXFLAGS_GENERATED + list(extra_flags) + [
        "-I" + os.path.join(workdir, "include"), "-I" + os.path.join(REPO, "include"),
        "-I" + os.path.join(BUILD, "include"), "-I" + os.path.join(REPO, "mfront", "include")] + srcs + ["-o", out]
    for l in libs:
        if l in ld:
            cmd += ["-L" + ld[l], "-Wl,-rpath," + ld[l], "-l" + l]
    rc, so, se = run(cmd, cwd=workdir, timeout=timeout)
    if rc != 0:
        errs = [l for l in se.splitlines() if "error" in l or "undefined" in l]
        return None, "\n".join(errs[:20])[:4000]
    try:
        shutil.copyfile(out, cached + ".tmp%d" % os.getpid())
        os.replace(cached + ".tmp%d" % os.getpid(), cached)
    except OSError:
        pass
    return out, ""


def prune_cache(max_bytes=3 << 30):
    cache = os.path.join(VERIF, "build", "cache")
    if not os.path.isdir(cache):
        return
    files = sorted(((os.stat(p).st_atime, os.stat(p).st_size, p) for p in glob.glob(cache + "/*.so")))
    tot = sum(f[1] for f in files)
    while files and tot > max_bytes:
        a, s, p = files.pop(0)
        os.unlink(p)
        tot -= s


def parallel_map(fn, items, jobs=None):
    import concurrent.futures as cf
    with cf.ThreadPoolExecutor(max_workers=jobs or JOBS) as ex:
        return list(ex.map(fn, items))
