/*!
 * \file fourth.hxx
 * \brief Helpers shared by the harnesses working on fourth order tensors
 * (C02, C06): expansion of a TFEL-like fourth order object (anything with
 * `operator()(I,J)`) to a full ref::T4 through the *documented* bases of
 * refmath.hxx, component-wise comparison, generators of fourth order objects
 * and finite differences in long double.  No TFEL header is included.
 *
 * Kind of a fourth order object = (rowSym, colSym):
 *   st2tost2 (true,true)   t2tot2 (false,false)
 *   t2tost2  (true,false)  st2tot2 (false,true)
 * rows = basis of the result, columns = basis of the argument.
 */
#ifndef VERIF_FOURTH_HXX
#define VERIF_FOURTH_HXX

#include <string>
#include "gens.hxx"

namespace f4 {

  using ref::M3;
  using ref::R;
  using ref::T4;

  inline int dimOf(int N, bool symmetric) {
    return symmetric ? ref::stensorSize(N) : ref::tensorSize(N);
  }

  //! expansion of a TFEL-like object to the 3x3x3x3 array
  template <typename X>
  T4 toT4(const X& x, int N, bool rowSym, bool colSym) {
    return ref::toT4([&x](int I, int J) { return static_cast<R>(x(I, J)); },
                     dimOf(N, rowSym), rowSym, dimOf(N, colSym), colSym);
  }

  //! fill a TFEL-like object with the components of a T4 (rounded to its type)
  template <typename X>
  X fromT4(const T4& C, int N, bool rowSym, bool colSym) {
    X x;
    for (int I = 0; I < dimOf(N, rowSym); ++I)
      for (int J = 0; J < dimOf(N, colSym); ++J)
        x(I, J) = static_cast<std::decay_t<decltype(x(0, 0))>>(
            ref::componentOf(C, I, rowSym, J, colSym));
    return x;
  }

  //! compare every stored component of `x` with the one of the expected T4
  template <typename X>
  void cmp(verif::Case& c, const X& x, const T4& E, int N, bool rowSym, bool colSym,
           R tol, const std::string& key, const std::string& what) {
    for (int I = 0; I < dimOf(N, rowSym); ++I)
      for (int J = 0; J < dimOf(N, colSym); ++J)
        c.close(static_cast<R>(x(I, J)), ref::componentOf(E, I, rowSym, J, colSym), tol, key,
                what + " component (" + std::to_string(I) + "," + std::to_string(J) + ")");
  }

  //! restriction of a matrix to the components representable in dimension N
  inline M3 restrict(const M3& m, int N) {
    M3 r;
    for (int i = 0; i < 3; ++i)
      for (int j = 0; j < 3; ++j) {
        const bool ok = (i == j) || (N == 3) || (N == 2 && i < 2 && j < 2);
        r(i, j) = ok ? m(i, j) : R(0);
      }
    return r;
  }

  /*!
   * a fourth order tensor of the given kind, valid in dimension N, returned
   * as a T4 (to be rounded by fromT4).  Classes: dense components (1/2), isotropic
   * (lambda IxI + 2 mu Is [+ a skew part for non symmetric arguments]),
   * cubic, dyadic product A (x) B, small integers, sparse, zero.
   */
  inline T4 gen(verif::Case& c, int N, bool rowSym, bool colSym, double s = 1.) {
    T4 r;
    const int nr = dimOf(N, rowSym), nc = dimOf(N, colSym);
    // classes 0,1,2,8,9: fully dense (every stored component drawn, non-zero almost surely)
    const auto cls = c.integer(0, 9, "t4_class");
    auto fromComponents = [&](const std::function<R()>& v) {
      std::vector<R> m(static_cast<std::size_t>(nr * nc));
      for (auto& x : m) x = v();
      return ref::toT4([&](int I, int J) { return m[static_cast<std::size_t>(I * nc + J)]; }, nr,
                       rowSym, nc, colSym);
    };
    switch (cls) {
      case 0:
      case 1:
      case 2:
      case 8:
      case 9:
        c.tag("t4.dense");
        r = fromComponents([&] { return R(c.sreal(1., "c")); });
        break;
      case 3: {
        c.tag("t4.isotropic");
        const R l = c.sreal(1., "lambda"), m = c.sreal(1., "mu"), w = c.sreal(1., "skew");
        r = l * ref::IxI() + (2 * m) * ref::Id4s();
        if (!rowSym && !colSym) r = r + w * (ref::Id4() - ref::Tr4());
        break;
      }
      case 4: {
        c.tag("t4.cubic");
        const R c11 = c.sreal(1., "c11"), c12 = c.sreal(1., "c12"), c44 = c.sreal(1., "c44");
        r = c12 * ref::IxI() + (2 * c44) * ref::Id4s();
        for (int i = 0; i < 3; ++i) r(i, i, i, i) = c11;
        break;
      }
      case 5: {
        c.tag("t4.dyadic");
        M3 a = gen::dense(c, N), b = gen::dense(c, N);
        if (rowSym) a = ref::sym(a);
        if (colSym) b = ref::sym(b);
        r = ref::otimes(a, b);
        break;
      }
      case 6:
        c.tag("t4.small_int");
        r = fromComponents([&] { return R(c.integer(-2, 2, "c")); });
        break;
      default:
        if (c.chance(1, 4, "zero")) {
          c.tag("t4.zero");
        } else {
          c.tag("t4.sparse");
          r = fromComponents([&] { return c.chance(1, 4, "nz") ? R(c.sreal(1., "c")) : R(0); });
        }
    }
    return R(s) * r;
  }

  //! max |component|
  inline R maxabs(const T4& C) {
    R m = 0;
    REF_FOR4 m = std::max(m, std::fabs(C.a[i][j][k][l]));
    return m;
  }

}  // namespace f4

#endif /* VERIF_FOURTH_HXX */
