/*!
 * \file gens.hxx
 * \brief Generators shared by the tensor-level harnesses.  They produce
 * reference objects (ref::M3 ...) from draws of a verif::Case and tag the
 * class of each generated object.  Conversion to TFEL objects is done by
 * generic templates that only use operator[] and the *documented* storage
 * convention (see refmath.hxx).
 */
#ifndef VERIF_GENS_HXX
#define VERIF_GENS_HXX

#include "refmath.hxx"
#include "verif.hxx"

namespace gen {

  using ref::M3;
  using ref::R;

  //! 10^k, k uniform integer or real in [-kmax, kmax]; 1 with probability 1/3
  inline double scale(verif::Case& c, int kmax = 30, const char* n = "scale") {
    if (c.chance(1, 3, "unit_scale")) return 1.;
    return c.log10real(-kmax, kmax, n);
  }

  //! an angle: special values {0, +-pi/2, pi, +-pi/4} or uniform in [-pi,pi]
  inline R angle(verif::Case& c, const char* n = "angle") {
    const auto k = c.integer(0, 9, "angle_class");
    switch (k) {
      case 0: return 0;
      case 1: return ref::pi / 2;
      case 2: return -ref::pi / 2;
      case 3: return ref::pi;
      case 4: return ref::pi / 4;
      default: return c.sreal(static_cast<double>(ref::pi), n);
    }
  }

  /*!
   * proper rotation matrix.  N==3: product of three elementary rotations;
   * N==2: rotation about z; N==1: identity.
   */
  inline M3 rot(verif::Case& c, int N = 3) {
    if (N == 1) return M3::Id();
    if (N == 2) return ref::rotationZ(angle(c, "rz"));
    const R a = angle(c, "rz"), b = angle(c, "ry"), d = angle(c, "rx");
    return ref::rotation(a, b, d);
  }
  //! how far a rotation is from a signed permutation (0 = axis aligned)
  inline R misalignment(const M3& r) {
    R m = 0;
    for (int i = 0; i < 3; ++i)
      for (int j = 0; j < 3; ++j) {
        const R x = std::fabs(r(i, j));
        m = std::max(m, std::min(x, 1 - x));
      }
    return m;
  }

  /*!
   * symmetric matrix valid in dimension N (N=1: diagonal, N=2: xx,yy,zz,xy).
   * Classes: dense, diagonal, spectral (eigenvalues + rotation), rank-one,
   * two equal / three equal eigenvalues (exact), nearly equal, wide spread,
   * zero, small integers.  The result is multiplied by `s`.
   */
  inline M3 sym(verif::Case& c, int N, double s = 1., bool allowZero = true) {
    M3 m;
    const auto cls = c.integer(0, 9, "sym_class");
    auto fillDense = [&](double a) {
      for (int i = 0; i < 3; ++i) m(i, i) = c.sreal(a, "d");
      if (N >= 2) m(0, 1) = m(1, 0) = c.sreal(a, "xy");
      if (N == 3) {
        m(0, 2) = m(2, 0) = c.sreal(a, "xz");
        m(1, 2) = m(2, 1) = c.sreal(a, "yz");
      }
    };
    auto spectral = [&](R l0, R l1, R l2) {
      M3 D;
      D(0, 0) = l0;
      D(1, 1) = l1;
      D(2, 2) = l2;
      const M3 r = rot(c, N);
      m = r * D * ref::transpose(r);
      m = ref::sym(m);
    };
    switch (cls) {
      case 0:
      case 1:
        c.tag("sym.dense");
        fillDense(1.);
        break;
      case 2:
        c.tag("sym.diagonal");
        for (int i = 0; i < 3; ++i) m(i, i) = c.sreal(1., "d");
        break;
      case 3:
        c.tag("sym.spectral");
        spectral(c.sreal(1., "l0"), c.sreal(1., "l1"), c.sreal(1., "l2"));
        break;
      case 4: {
        c.tag("sym.two_equal");
        const R a = c.sreal(1., "l0"), b = c.sreal(1., "l2");
        // in 2D the rotation is about z: put the repeated pair in-plane or not
        if (c.boolean("pair_inplane")) spectral(a, a, b);
        else spectral(a, b, b);
        break;
      }
      case 5: {
        c.tag("sym.three_equal");
        const R a = c.sreal(1., "l0");
        m(0, 0) = m(1, 1) = m(2, 2) = a;
        break;
      }
      case 6: {
        c.tag("sym.nearly_equal");
        const R a = c.real(0.1, 1., "l0");
        const R d1 = a * c.log10real(-15, -3, "gap1");
        const R d2 = a * c.log10real(-15, -3, "gap2");
        spectral(a, a + d1, c.boolean("third_far") ? -a : a - d2);
        break;
      }
      case 7: {
        c.tag("sym.rank_one");
        R u[3] = {c.sreal(1., "u0"), N >= 2 ? c.sreal(1., "u1") : 0,
                  N == 3 ? c.sreal(1., "u2") : 0};
        if (N <= 2 && c.boolean("axial")) {
          u[0] = u[1] = 0;
          u[2] = 1;
        }
        m = ref::dyad(u, u);
        break;
      }
      case 8: {
        c.tag("sym.small_int");
        for (int i = 0; i < 3; ++i) m(i, i) = static_cast<R>(c.integer(-3, 3, "d"));
        if (N >= 2) m(0, 1) = m(1, 0) = static_cast<R>(c.integer(-3, 3, "xy"));
        if (N == 3) {
          m(0, 2) = m(2, 0) = static_cast<R>(c.integer(-3, 3, "xz"));
          m(1, 2) = m(2, 1) = static_cast<R>(c.integer(-3, 3, "yz"));
        }
        break;
      }
      default:
        if (allowZero && c.chance(1, 4, "zero")) {
          c.tag("sym.zero");
        } else {
          c.tag("sym.spread");
          fillDense(1.);
          for (int i = 0; i < 3; ++i)
            for (int j = i; j < 3; ++j) {
              if (m(i, j) == 0) continue;
              const R f = c.log10real(-12, 0, "spread");
              m(i, j) *= f;
              m(j, i) = m(i, j);
            }
        }
    }
    return R(s) * m;
  }

  //! symmetric positive definite matrix with eigenvalues in [lo,hi]
  inline M3 spd(verif::Case& c, int N, double lo, double hi) {
    M3 D;
    const auto cls = c.integer(0, 5, "spd_class");
    R l[3];
    for (auto& x : l) x = c.real(lo, hi, "stretch");
    if (cls == 0) l[1] = l[0];                       // two equal
    if (cls == 1) l[2] = l[1] = l[0];                // three equal
    if (cls == 2) l[1] = l[0] * (1 + c.log10real(-14, -4, "gap"));  // nearly equal
    if (cls == 0) c.tag("spd.two_equal");
    else if (cls == 1) c.tag("spd.three_equal");
    else if (cls == 2) c.tag("spd.nearly_equal");
    else c.tag("spd.distinct");
    for (int i = 0; i < 3; ++i) D(i, i) = l[i];
    const M3 r = rot(c, N);
    return ref::sym(r * D * ref::transpose(r));
  }

  //! deformation gradient F = R.U, det > 0, principal stretches in [lo,hi]
  inline M3 F(verif::Case& c, int N, double lo = 0.5, double hi = 2.) {
    const M3 U = spd(c, N, lo, hi);
    const M3 Rm = rot(c, N);
    return Rm * U;
  }

  //! generic (non symmetric) matrix valid in dimension N
  inline M3 dense(verif::Case& c, int N, double a = 1.) {
    M3 m;
    const bool ints = c.chance(1, 8, "ints");
    auto v = [&](const char* n) -> R {
      return ints ? static_cast<R>(c.integer(-3, 3, n)) * a : c.sreal(a, n);
    };
    for (int i = 0; i < 3; ++i) m(i, i) = v("d");
    if (N >= 2) {
      m(0, 1) = v("xy");
      m(1, 0) = v("yx");
    }
    if (N == 3) {
      m(0, 2) = v("xz");
      m(2, 0) = v("zx");
      m(1, 2) = v("yz");
      m(2, 1) = v("zy");
    }
    return m;
  }

  //! fill a TFEL-like stensor (anything with operator[] and size()) from a matrix
  template <typename S>
  S toStensor(const M3& m) {
    S s;
    const auto v = ref::toStensor(m);
    for (std::size_t k = 0; k < s.size(); ++k)
      s[k] = static_cast<std::decay_t<decltype(s[0])>>(v[k]);
    return s;
  }
  template <typename T>
  T toTensor(const M3& m) {
    T t;
    const auto v = ref::toTensor(m);
    for (std::size_t k = 0; k < t.size(); ++k)
      t[k] = static_cast<std::decay_t<decltype(t[0])>>(v[k]);
    return t;
  }
  //! matrix actually represented by the rounded TFEL object (so the oracle is
  //! about the value actually passed)
  template <typename S>
  M3 stensorToM3(const S& s) {
    return ref::fromStensor(s, s.size() == 3 ? 1 : (s.size() == 4 ? 2 : 3));
  }
  template <typename T>
  M3 tensorToM3(const T& t) {
    return ref::fromTensor(t, t.size() == 3 ? 1 : (t.size() == 5 ? 2 : 3));
  }
  //! fill a TFEL rotation matrix (tmatrix<3,3,T>) through operator()(i,j)
  template <typename RM>
  RM toRotationMatrix(const M3& r) {
    RM m;
    for (unsigned short i = 0; i < 3; ++i)
      for (unsigned short j = 0; j < 3; ++j)
        m(i, j) = static_cast<std::decay_t<decltype(m(0, 0))>>(r(i, j));
    return m;
  }
  template <typename RM>
  M3 rotationMatrixToM3(const RM& m) {
    M3 r;
    for (unsigned short i = 0; i < 3; ++i)
      for (unsigned short j = 0; j < 3; ++j) r(i, j) = static_cast<R>(m(i, j));
    return r;
  }

}  // namespace gen

#endif /* VERIF_GENS_HXX */
