/*!
 * \file refmath.hxx
 * \brief Independent reference algebra used as oracle by the harnesses.
 *
 * Everything here is written from the textbook definitions in `long double`
 * on full 3x3 matrices and 3x3x3x3 arrays.  This file never includes a TFEL
 * header.  The only TFEL-related knowledge is the *documented* storage
 * convention (docs/web/tensors.md):
 *   stensor : (xx, yy, zz, sqrt2 xy, sqrt2 xz, sqrt2 yz)        sizes 3/4/6
 *   tensor  : (xx, yy, zz, xy, yx, xz, zx, yz, zy)              sizes 3/5/9
 */
#ifndef VERIF_REFMATH_HXX
#define VERIF_REFMATH_HXX

#include <array>
#include <cmath>
#include <cstddef>
#include <functional>
#include <utility>
#include <vector>

namespace ref {

  using R = long double;
  constexpr R sqrt2 = 1.41421356237309504880168872420969808L;
  constexpr R pi = 3.14159265358979323846264338327950288L;

  struct M3 {
    R a[3][3];
    M3() {
      for (auto& r : a)
        for (auto& x : r) x = 0;
    }
    R& operator()(int i, int j) { return a[i][j]; }
    R operator()(int i, int j) const { return a[i][j]; }
    static M3 Id() {
      M3 m;
      m.a[0][0] = m.a[1][1] = m.a[2][2] = 1;
      return m;
    }
  };
  inline M3 operator+(const M3& x, const M3& y) {
    M3 r;
    for (int i = 0; i < 3; ++i)
      for (int j = 0; j < 3; ++j) r.a[i][j] = x.a[i][j] + y.a[i][j];
    return r;
  }
  inline M3 operator-(const M3& x, const M3& y) {
    M3 r;
    for (int i = 0; i < 3; ++i)
      for (int j = 0; j < 3; ++j) r.a[i][j] = x.a[i][j] - y.a[i][j];
    return r;
  }
  inline M3 operator*(R s, const M3& x) {
    M3 r;
    for (int i = 0; i < 3; ++i)
      for (int j = 0; j < 3; ++j) r.a[i][j] = s * x.a[i][j];
    return r;
  }
  inline M3 operator*(const M3& x, const M3& y) {
    M3 r;
    for (int i = 0; i < 3; ++i)
      for (int j = 0; j < 3; ++j) {
        R s = 0;
        for (int k = 0; k < 3; ++k) s += x.a[i][k] * y.a[k][j];
        r.a[i][j] = s;
      }
    return r;
  }
  inline M3 transpose(const M3& x) {
    M3 r;
    for (int i = 0; i < 3; ++i)
      for (int j = 0; j < 3; ++j) r.a[i][j] = x.a[j][i];
    return r;
  }
  inline M3 sym(const M3& x) { return R(0.5) * (x + transpose(x)); }
  inline R trace(const M3& x) { return x.a[0][0] + x.a[1][1] + x.a[2][2]; }
  inline R ddot(const M3& x, const M3& y) {
    R s = 0;
    for (int i = 0; i < 3; ++i)
      for (int j = 0; j < 3; ++j) s += x.a[i][j] * y.a[i][j];
    return s;
  }
  inline R norm(const M3& x) { return std::sqrt(ddot(x, x)); }
  inline R maxabs(const M3& x) {
    R m = 0;
    for (int i = 0; i < 3; ++i)
      for (int j = 0; j < 3; ++j) m = std::max(m, std::fabs(x.a[i][j]));
    return m;
  }
  inline R det(const M3& m) {
    return m.a[0][0] * (m.a[1][1] * m.a[2][2] - m.a[1][2] * m.a[2][1]) -
           m.a[0][1] * (m.a[1][0] * m.a[2][2] - m.a[1][2] * m.a[2][0]) +
           m.a[0][2] * (m.a[1][0] * m.a[2][1] - m.a[1][1] * m.a[2][0]);
  }
  inline M3 cofactorT(const M3& m) {  // adjugate
    M3 r;
    for (int i = 0; i < 3; ++i)
      for (int j = 0; j < 3; ++j) {
        const int i1 = (i + 1) % 3, i2 = (i + 2) % 3;
        const int j1 = (j + 1) % 3, j2 = (j + 2) % 3;
        // cofactor C_ij ; adj = C^T
        r.a[j][i] = m.a[i1][j1] * m.a[i2][j2] - m.a[i1][j2] * m.a[i2][j1];
      }
    return r;
  }
  inline M3 inverse(const M3& m) { return (1 / det(m)) * cofactorT(m); }
  inline M3 dev(const M3& m) { return m - (trace(m) / 3) * M3::Id(); }
  inline R vonMises(const M3& m) {
    const M3 d = dev(m);
    return std::sqrt(R(1.5) * ddot(d, d));
  }
  inline M3 dyad(const R u[3], const R v[3]) {
    M3 r;
    for (int i = 0; i < 3; ++i)
      for (int j = 0; j < 3; ++j) r.a[i][j] = u[i] * v[j];
    return r;
  }

  //! rotation from three angles: Rz(a) * Ry(b) * Rx(c)
  inline M3 rotation(R a, R b, R c) {
    M3 rz = M3::Id(), ry = M3::Id(), rx = M3::Id();
    rz.a[0][0] = std::cos(a); rz.a[0][1] = -std::sin(a);
    rz.a[1][0] = std::sin(a); rz.a[1][1] = std::cos(a);
    ry.a[0][0] = std::cos(b); ry.a[0][2] = std::sin(b);
    ry.a[2][0] = -std::sin(b); ry.a[2][2] = std::cos(b);
    rx.a[1][1] = std::cos(c); rx.a[1][2] = -std::sin(c);
    rx.a[2][1] = std::sin(c); rx.a[2][2] = std::cos(c);
    return rz * ry * rx;
  }
  //! rotation about z only (valid in 2D hypotheses)
  inline M3 rotationZ(R a) { return rotation(a, 0, 0); }

  /*!
   * cyclic Jacobi for a symmetric matrix.  vp: eigenvalues, V: eigenvectors in
   * columns (A = V diag(vp) V^T).  Converges to ~1e-19 relative.
   */
  inline void jacobi(const M3& A, R vp[3], M3& V) {
    M3 a = sym(A);
    V = M3::Id();
    for (int sweep = 0; sweep < 60; ++sweep) {
      R off = 0, dg = 0;
      for (int i = 0; i < 3; ++i)
        for (int j = 0; j < 3; ++j) {
          if (i != j) off += a.a[i][j] * a.a[i][j];
          else dg += a.a[i][j] * a.a[i][j];
        }
      if (off == 0 || off <= 1e-42L * dg) break;
      for (int p = 0; p < 2; ++p)
        for (int q = p + 1; q < 3; ++q) {
          if (a.a[p][q] == 0) continue;
          const R theta = (a.a[q][q] - a.a[p][p]) / (2 * a.a[p][q]);
          const R t = (theta >= 0 ? 1 : -1) /
                      (std::fabs(theta) + std::sqrt(theta * theta + 1));
          const R cs = 1 / std::sqrt(t * t + 1), sn = t * cs;
          M3 J = M3::Id();
          J.a[p][p] = cs; J.a[q][q] = cs; J.a[p][q] = sn; J.a[q][p] = -sn;
          a = transpose(J) * a * J;
          a = sym(a);
          V = V * J;
        }
    }
    for (int i = 0; i < 3; ++i) vp[i] = a.a[i][i];
  }
  inline void sort3(R v[3]) {
    if (v[0] > v[1]) std::swap(v[0], v[1]);
    if (v[1] > v[2]) std::swap(v[1], v[2]);
    if (v[0] > v[1]) std::swap(v[0], v[1]);
  }
  //! isotropic function of a symmetric matrix through Jacobi
  inline M3 isoFunction(const M3& A, const std::function<R(R)>& f) {
    R vp[3];
    M3 V;
    jacobi(A, vp, V);
    M3 D;
    for (int i = 0; i < 3; ++i) D.a[i][i] = f(vp[i]);
    return V * D * transpose(V);
  }
  //! polar decomposition F = Rm U, U symmetric positive definite
  inline void polar(const M3& F, M3& Rm, M3& U) {
    const M3 C = transpose(F) * F;
    U = isoFunction(C, [](R x) { return std::sqrt(x); });
    Rm = F * inverse(U);
  }

  // ------------------------------------------------------------------
  // 4th order
  struct T4 {
    R a[3][3][3][3];
    T4() {
      for (int i = 0; i < 3; ++i)
        for (int j = 0; j < 3; ++j)
          for (int k = 0; k < 3; ++k)
            for (int l = 0; l < 3; ++l) a[i][j][k][l] = 0;
    }
    R& operator()(int i, int j, int k, int l) { return a[i][j][k][l]; }
    R operator()(int i, int j, int k, int l) const { return a[i][j][k][l]; }
  };
#define REF_FOR4 \
  for (int i = 0; i < 3; ++i) \
    for (int j = 0; j < 3; ++j) \
      for (int k = 0; k < 3; ++k) \
        for (int l = 0; l < 3; ++l)
  inline T4 operator+(const T4& x, const T4& y) {
    T4 r;
    REF_FOR4 r.a[i][j][k][l] = x.a[i][j][k][l] + y.a[i][j][k][l];
    return r;
  }
  inline T4 operator-(const T4& x, const T4& y) {
    T4 r;
    REF_FOR4 r.a[i][j][k][l] = x.a[i][j][k][l] - y.a[i][j][k][l];
    return r;
  }
  inline T4 operator*(R s, const T4& x) {
    T4 r;
    REF_FOR4 r.a[i][j][k][l] = s * x.a[i][j][k][l];
    return r;
  }
  //! (C:A)_ij = C_ijkl A_kl
  inline M3 ddot(const T4& C, const M3& A) {
    M3 r;
    REF_FOR4 r.a[i][j] += C.a[i][j][k][l] * A.a[k][l];
    return r;
  }
  //! (A:C)_kl = A_ij C_ijkl
  inline M3 ddot(const M3& A, const T4& C) {
    M3 r;
    REF_FOR4 r.a[k][l] += A.a[i][j] * C.a[i][j][k][l];
    return r;
  }
  //! (C:D)_ijkl = C_ijmn D_mnkl
  inline T4 ddot(const T4& C, const T4& D) {
    T4 r;
    REF_FOR4 {
      R s = 0;
      for (int m = 0; m < 3; ++m)
        for (int n = 0; n < 3; ++n) s += C.a[i][j][m][n] * D.a[m][n][k][l];
      r.a[i][j][k][l] = s;
    }
    return r;
  }
  inline T4 transpose(const T4& C) {  // major transposition
    T4 r;
    REF_FOR4 r.a[i][j][k][l] = C.a[k][l][i][j];
    return r;
  }
  inline R norm(const T4& C) {
    R s = 0;
    REF_FOR4 s += C.a[i][j][k][l] * C.a[i][j][k][l];
    return std::sqrt(s);
  }
  inline T4 otimes(const M3& A, const M3& B) {
    T4 r;
    REF_FOR4 r.a[i][j][k][l] = A.a[i][j] * B.a[k][l];
    return r;
  }
  //! identity on all second order tensors: I_ijkl = d_ik d_jl
  inline T4 Id4() {
    T4 r;
    REF_FOR4 r.a[i][j][k][l] = (i == k && j == l) ? 1 : 0;
    return r;
  }
  //! identity on symmetric tensors: (d_ik d_jl + d_il d_jk)/2
  inline T4 Id4s() {
    T4 r;
    REF_FOR4 r.a[i][j][k][l] =
        (((i == k && j == l) ? 1 : 0) + ((i == l && j == k) ? 1 : 0)) / R(2);
    return r;
  }
  //! transposition operator T_ijkl = d_il d_jk
  inline T4 Tr4() {
    T4 r;
    REF_FOR4 r.a[i][j][k][l] = (i == l && j == k) ? 1 : 0;
    return r;
  }
  inline T4 IxI() { return otimes(M3::Id(), M3::Id()); }
  //! C'_ijkl = Q_im Q_jn Q_kp Q_lq C_mnpq
  inline T4 rotate(const T4& C, const M3& Q) {
    T4 r;
    REF_FOR4 {
      R s = 0;
      for (int m = 0; m < 3; ++m)
        for (int n = 0; n < 3; ++n)
          for (int p = 0; p < 3; ++p)
            for (int q = 0; q < 3; ++q)
              s += Q.a[i][m] * Q.a[j][n] * Q.a[k][p] * Q.a[l][q] * C.a[m][n][p][q];
      r.a[i][j][k][l] = s;
    }
    return r;
  }
  //! push-forward F_iI F_jJ F_kK F_lL C_IJKL
  inline T4 pushForward(const T4& C, const M3& F) { return rotate(C, F); }

  // ------------------------------------------------------------------
  // storage conventions (documented)
  //! (row, col) of the k-th stensor component; k>=3 carry a sqrt2 factor
  inline void stensorIndex(int k, int& i, int& j) {
    static const int I[6] = {0, 1, 2, 0, 0, 1};
    static const int J[6] = {0, 1, 2, 1, 2, 2};
    i = I[k];
    j = J[k];
  }
  //! (row, col) of the k-th tensor component
  inline void tensorIndex(int k, int& i, int& j) {
    static const int I[9] = {0, 1, 2, 0, 1, 0, 2, 1, 2};
    static const int J[9] = {0, 1, 2, 1, 0, 2, 0, 2, 1};
    i = I[k];
    j = J[k];
  }
  inline int stensorSize(int N) { return N == 1 ? 3 : (N == 2 ? 4 : 6); }
  inline int tensorSize(int N) { return N == 1 ? 3 : (N == 2 ? 5 : 9); }
  //! Mandel vector -> matrix
  template <typename V>
  M3 fromStensor(const V& v, int N) {
    M3 m;
    for (int k = 0; k < stensorSize(N); ++k) {
      int i, j;
      stensorIndex(k, i, j);
      if (k < 3) {
        m.a[i][j] = static_cast<R>(v[k]);
      } else {
        m.a[i][j] = m.a[j][i] = static_cast<R>(v[k]) / sqrt2;
      }
    }
    return m;
  }
  //! matrix (assumed symmetric) -> Mandel components
  inline std::array<R, 6> toStensor(const M3& m) {
    std::array<R, 6> v{};
    for (int k = 0; k < 6; ++k) {
      int i, j;
      stensorIndex(k, i, j);
      v[k] = k < 3 ? m.a[i][j] : (m.a[i][j] + m.a[j][i]) / 2 * sqrt2;
    }
    return v;
  }
  template <typename V>
  M3 fromTensor(const V& v, int N) {
    M3 m;
    for (int k = 0; k < tensorSize(N); ++k) {
      int i, j;
      tensorIndex(k, i, j);
      m.a[i][j] = static_cast<R>(v[k]);
    }
    return m;
  }
  inline std::array<R, 9> toTensor(const M3& m) {
    std::array<R, 9> v{};
    for (int k = 0; k < 9; ++k) {
      int i, j;
      tensorIndex(k, i, j);
      v[k] = m.a[i][j];
    }
    return v;
  }
  //! k-th element of the orthonormal Mandel basis of symmetric tensors
  inline M3 stensorBasis(int k) {
    M3 m;
    int i, j;
    stensorIndex(k, i, j);
    if (k < 3) {
      m.a[i][j] = 1;
    } else {
      m.a[i][j] = m.a[j][i] = 1 / sqrt2;
    }
    return m;
  }
  inline M3 tensorBasis(int k) {
    M3 m;
    int i, j;
    tensorIndex(k, i, j);
    m.a[i][j] = 1;
    return m;
  }
  /*!
   * Expand a matrix of components `c(I,J)` (rows: basis of the result,
   * columns: basis of the argument) to a T4:  C = sum c_IJ  E_I (x) G_J with
   * E, G the stensor (Mandel) or tensor bases.
   */
  template <typename Acc>
  T4 toT4(const Acc& c, int nrow, bool rowSym, int ncol, bool colSym) {
    T4 r;
    for (int I = 0; I < nrow; ++I)
      for (int J = 0; J < ncol; ++J) {
        const M3 E = rowSym ? stensorBasis(I) : tensorBasis(I);
        const M3 G = colSym ? stensorBasis(J) : tensorBasis(J);
        const R v = static_cast<R>(c(I, J));
        if (v == 0) continue;
        REF_FOR4 r.a[i][j][k][l] += v * E.a[i][j] * G.a[k][l];
      }
    return r;
  }
  //! component (I,J) of a T4 in the given bases (dual basis == basis: orthonormal)
  inline R componentOf(const T4& C, int I, bool rowSym, int J, bool colSym) {
    const M3 E = rowSym ? stensorBasis(I) : tensorBasis(I);
    const M3 G = colSym ? stensorBasis(J) : tensorBasis(J);
    return ddot(E, ddot(C, G));
  }

  // ------------------------------------------------------------------
  // dense n x n helpers (row-major std::vector)
  using Vec = std::vector<R>;
  //! solve A x = b by Gaussian elimination with full pivoting; returns false if singular
  inline bool solve(int n, Vec A, Vec b, Vec& x) {
    std::vector<int> colperm(n);
    for (int i = 0; i < n; ++i) colperm[i] = i;
    for (int k = 0; k < n; ++k) {
      int pi_ = k, pj = k;
      R best = 0;
      for (int i = k; i < n; ++i)
        for (int j = k; j < n; ++j)
          if (std::fabs(A[i * n + j]) > best) {
            best = std::fabs(A[i * n + j]);
            pi_ = i;
            pj = j;
          }
      if (best == 0) return false;
      if (pi_ != k) {
        for (int j = 0; j < n; ++j) std::swap(A[k * n + j], A[pi_ * n + j]);
        std::swap(b[k], b[pi_]);
      }
      if (pj != k) {
        for (int i = 0; i < n; ++i) std::swap(A[i * n + k], A[i * n + pj]);
        std::swap(colperm[k], colperm[pj]);
      }
      for (int i = k + 1; i < n; ++i) {
        const R f = A[i * n + k] / A[k * n + k];
        if (f == 0) continue;
        for (int j = k; j < n; ++j) A[i * n + j] -= f * A[k * n + j];
        b[i] -= f * b[k];
      }
    }
    Vec y(n);
    for (int i = n - 1; i >= 0; --i) {
      R s = b[i];
      for (int j = i + 1; j < n; ++j) s -= A[i * n + j] * y[j];
      y[i] = s / A[i * n + i];
    }
    x.assign(n, 0);
    for (int i = 0; i < n; ++i) x[colperm[i]] = y[i];
    return true;
  }
  inline R detN(int n, Vec A) {
    R d = 1;
    for (int k = 0; k < n; ++k) {
      int p = k;
      for (int i = k + 1; i < n; ++i)
        if (std::fabs(A[i * n + k]) > std::fabs(A[p * n + k])) p = i;
      if (A[p * n + k] == 0) return 0;
      if (p != k) {
        for (int j = 0; j < n; ++j) std::swap(A[k * n + j], A[p * n + j]);
        d = -d;
      }
      d *= A[k * n + k];
      for (int i = k + 1; i < n; ++i) {
        const R f = A[i * n + k] / A[k * n + k];
        for (int j = k; j < n; ++j) A[i * n + j] -= f * A[k * n + j];
      }
    }
    return d;
  }
  inline Vec matvec(int n, const Vec& A, const Vec& x) {
    Vec r(n, 0);
    for (int i = 0; i < n; ++i)
      for (int j = 0; j < n; ++j) r[i] += A[i * n + j] * x[j];
    return r;
  }
  inline R normInf(const Vec& v) {
    R m = 0;
    for (auto x : v) m = std::max(m, std::fabs(x));
    return m;
  }
  inline R matNormInf(int n, const Vec& A) {
    R m = 0;
    for (int i = 0; i < n; ++i) {
      R s = 0;
      for (int j = 0; j < n; ++j) s += std::fabs(A[i * n + j]);
      m = std::max(m, s);
    }
    return m;
  }
  //! inverse through n solves; false if singular
  inline bool inverseN(int n, const Vec& A, Vec& inv) {
    inv.assign(n * n, 0);
    for (int c = 0; c < n; ++c) {
      Vec e(n, 0), x;
      e[c] = 1;
      if (!solve(n, A, e, x)) return false;
      for (int i = 0; i < n; ++i) inv[i * n + c] = x[i];
    }
    return true;
  }
  //! 6x6 Mandel matrix of a T4 with minor symmetries
  inline Vec mandel66(const T4& C) {
    Vec m(36);
    for (int I = 0; I < 6; ++I)
      for (int J = 0; J < 6; ++J) m[I * 6 + J] = componentOf(C, I, true, J, true);
    return m;
  }
  inline T4 fromMandel66(const Vec& m) {
    return toT4([&m](int I, int J) { return m[I * 6 + J]; }, 6, true, 6, true);
  }

}  // namespace ref

#endif /* VERIF_REFMATH_HXX */
