/*!
 * \file verif.hxx
 * \brief Tiny protocol layer shared by every C++ harness of /verif.
 *
 * A harness is a set of *sub-checks*; each sub-check is a plain function
 * `void body(verif::Case&)`.  All random choices are made through the Case
 * (`c.real(..)`, `c.integer(..)`, `c.pick(..)` ...).  In generation mode the
 * Case forwards to rapidcheck generators (so shrinking works); in replay mode
 * it reads the recorded draws back from a text file and never touches
 * rapidcheck: the replay is a plain regression run of the same body.
 *
 * Unit result protocol (read by /verif/check): the harness writes a JSON file
 * to $VERIF_OUT holding, per sub-check, the number of evaluations, the number
 * of distinct non-trivial cases (FNV-1a hash of the recorded draws), class
 * counters, the largest normalised errors, samples, failures (with replay
 * file) and hits of known findings.
 */
#ifndef VERIF_HXX
#define VERIF_HXX

#include <rapidcheck.h>
#include <rapidcheck/detail/TestListenerAdapter.h>
#include <algorithm>
#include <cinttypes>
#include <csignal>
#include <unistd.h>
#include <cmath>
#include <cstdint>
#include <cstdio>
#include <cstdlib>
#include <cstring>
#include <fstream>
#include <functional>
#include <iostream>
#include <map>
#include <set>
#include <sstream>
#include <stdexcept>
#include <string>
#include <unordered_set>
#include <vector>

namespace verif {

  //! thrown (in replay mode) or converted to RC_FAIL (generation mode)
  struct Failure {
    std::string key;
    std::string msg;
  };
  //! thrown when a failing assertion belongs to a listed known finding
  struct KnownHit {
    std::string key;
  };
  //! thrown by Case::discard
  struct Discard {};

  inline std::string jsonEscape(const std::string& s) {
    std::string r;
    for (unsigned char ch : s) {
      switch (ch) {
        case '"': r += "\\\""; break;
        case '\\': r += "\\\\"; break;
        case '\n': r += "\\n"; break;
        case '\t': r += "\\t"; break;
        case '\r': r += "\\r"; break;
        default:
          if (ch < 0x20 || ch >= 0x7f) {
            char b[8];
            std::snprintf(b, sizeof b, "\\u%04x", ch);
            r += b;
          } else {
            r += static_cast<char>(ch);
          }
      }
    }
    return r;
  }

  struct Draw {
    char kind;  // 'i' or 'r'
    std::int64_t i;
    double r;
    std::string name;
  };

  struct SubStats {
    std::uint64_t evaluations = 0;
    std::uint64_t nontrivial = 0;
    std::uint64_t discarded = 0;
    std::uint64_t excluded_known = 0;
    std::unordered_set<std::uint64_t> hashes;
    std::map<std::string, std::uint64_t> classes;
    std::map<std::string, double> maxerr;
    std::vector<std::string> samples;
  };

  struct FailureRecord {
    std::string sub, key, msg, replay;
  };
  struct KnownRecord {
    std::string sub, key, msg, replay;
    std::uint64_t count = 0;
  };

  struct Global {
    std::string unit;
    std::map<std::string, SubStats> subs;
    std::vector<FailureRecord> failures;
    std::map<std::string, KnownRecord> known_hits;
    std::set<std::string> known_keys;
    std::string replay_dir = ".";
    std::uint64_t seed = 1;
    // last failing execution of the body currently checked by rapidcheck
    bool have_last = false;
    std::string last_serialised, last_key, last_msg;
    std::vector<std::string> notes;
    //! case being executed (for the fatal-signal handler)
    const class Case* current = nullptr;
    std::string out_path;
    static Global& get() {
      static Global g;
      return g;
    }
  };

  class Case {
   public:
    enum Mode { GENERATE, REPLAY };
    Case(const std::string& sub, Mode m) : sub_(sub), mode_(m) {}
    Case(const std::string& sub, std::vector<Draw> d)
        : sub_(sub), mode_(REPLAY), replay_(std::move(d)) {}

    //! integer uniformly in [lo, hi] (inclusive)
    std::int64_t integer(std::int64_t lo, std::int64_t hi, const char* n = "") {
      std::int64_t v;
      if (mode_ == GENERATE) {
        if (hi <= lo) {
          v = lo;
        } else {
          v = *rc::gen::resize(rc::kNominalSize,
                               rc::gen::inRange<std::int64_t>(lo, hi + 1));
        }
      } else {
        v = next('i').i;
        if (v < lo) v = lo;
        if (v > hi) v = hi;
      }
      draws_.push_back({'i', v, 0., n});
      return v;
    }
    //! index in [0,n)
    std::size_t pick(std::size_t n, const char* nm = "") {
      return static_cast<std::size_t>(integer(0, static_cast<std::int64_t>(n) - 1, nm));
    }
    bool boolean(const char* n = "") { return integer(0, 1, n) == 1; }
    //! true with probability ~ num/den
    bool chance(int num, int den, const char* n = "") {
      return integer(0, den - 1, n) < num;
    }
    //! real uniformly in [lo, hi]; shrinks towards lo
    double real(double lo, double hi, const char* n = "") {
      double v;
      if (mode_ == GENERATE) {
        const auto k = *rc::gen::resize(
            rc::kNominalSize,
            rc::gen::inRange<std::int64_t>(0, (std::int64_t(1) << 52) + 1));
        const double u = std::ldexp(static_cast<double>(k), -52);
        v = lo + (hi - lo) * u;
        if (v < lo) v = lo;
        if (v > hi) v = hi;
      } else {
        v = next('r').r;
      }
      draws_.push_back({'r', 0, v, n});
      return v;
    }
    //! real symmetric around 0 in [-a,a], shrinks towards 0
    double sreal(double a, const char* n = "") {
      double v;
      if (mode_ == GENERATE) {
        const auto k = *rc::gen::resize(
            rc::kNominalSize,
            rc::gen::inRange<std::int64_t>(-(std::int64_t(1) << 52),
                                           (std::int64_t(1) << 52) + 1));
        v = a * std::ldexp(static_cast<double>(k), -52);
      } else {
        v = next('r').r;
      }
      draws_.push_back({'r', 0, v, n});
      return v;
    }
    //! 10^u with u uniform in [klo,khi]
    double log10real(double klo, double khi, const char* n = "") {
      double v;
      if (mode_ == GENERATE) {
        const auto k = *rc::gen::resize(
            rc::kNominalSize,
            rc::gen::inRange<std::int64_t>(0, (std::int64_t(1) << 52) + 1));
        const double u = std::ldexp(static_cast<double>(k), -52);
        v = std::pow(10., klo + (khi - klo) * u);
      } else {
        v = next('r').r;
      }
      draws_.push_back({'r', 0, v, n});
      return v;
    }
    //! arbitrary bit pattern (64 bits)
    std::uint64_t bits64(const char* n = "") {
      std::int64_t v;
      if (mode_ == GENERATE) {
        v = static_cast<std::int64_t>(*rc::gen::arbitrary<std::uint64_t>());
      } else {
        v = next('i').i;
      }
      draws_.push_back({'i', v, 0., n});
      return static_cast<std::uint64_t>(v);
    }
    //! current rapidcheck size hint (constant 100 in replay)
    int sizeHint() const { return 100; }

    //! mark the case as non trivial by the property's stated rule
    void nontrivial(bool b = true) { nontrivial_ = nontrivial_ || b; }
    //! count the case in a class
    void tag(const std::string& cls) { tags_.push_back(cls); }
    //! record a normalised error (|err|/tolerance); the maximum is reported
    void err(const std::string& name, double v) {
      auto p = errs_.find(name);
      if (p == errs_.end()) {
        errs_[name] = v;
      } else if (v > p->second || std::isnan(v)) {
        p->second = v;
      }
    }
    //! free-form annotation kept in samples / replay files
    void note(const std::string& s) { notes_.push_back(s); }
    //! reject the case (outside the domain); counted
    [[noreturn]] void discard() { throw Discard{}; }

    /*!
     * assertion.  `key` identifies the *kind* of failure (sub-claim and input
     * class); it is what known-findings.json entries are matched against.
     */
    void check(bool ok, const std::string& key, const std::string& msg) {
      if (ok) return;
      auto& g = Global::get();
      if (g.known_keys.count(key)) throw KnownHit{key + "\x1f" + msg};
      throw Failure{key, msg};
    }
    //! |a-b| <= tol, records the normalised error
    void close(long double a, long double b, long double tol,
               const std::string& key, const std::string& what) {
      const long double e = std::fabs(a - b);
      const bool finite = std::isfinite(static_cast<double>(a)) &&
                          std::isfinite(static_cast<double>(b));
      const double ne =
          tol > 0 ? static_cast<double>(e / tol) : (e == 0 ? 0. : INFINITY);
      if (finite) err(key, ne);
      if (!finite || !(e <= tol)) {
        std::ostringstream os;
        os.precision(17);
        os << what << ": got " << static_cast<double>(a) << " expected "
           << static_cast<double>(b) << " |diff|=" << static_cast<double>(e)
           << " tol=" << static_cast<double>(tol);
        check(false, key, os.str());
      }
    }

    std::string serialise() const {
      std::ostringstream os;
      os << "sub " << sub_ << "\n";
      for (const auto& d : draws_) {
        char b[128];
        if (d.kind == 'i') {
          std::snprintf(b, sizeof b, "i %" PRId64, d.i);
        } else {
          std::snprintf(b, sizeof b, "r %a", d.r);
        }
        os << b;
        if (!d.name.empty()) os << " # " << d.name;
        if (d.kind == 'r') {
          char c2[64];
          std::snprintf(c2, sizeof c2, " (%.17g)", d.r);
          if (d.name.empty()) os << " #";
          os << c2;
        }
        os << "\n";
      }
      return os.str();
    }
    //! compact human-readable form for samples
    std::string pretty() const {
      std::ostringstream os;
      os << sub_ << ":";
      std::size_t n = 0;
      for (const auto& d : draws_) {
        if (++n > 40) {
          os << " ...(" << draws_.size() << " draws)";
          break;
        }
        os << ' ';
        if (!d.name.empty()) os << d.name << '=';
        if (d.kind == 'i') {
          os << d.i;
        } else {
          char b[40];
          std::snprintf(b, sizeof b, "%.6g", d.r);
          os << b;
        }
      }
      for (const auto& t : tags_) os << " [" << t << "]";
      for (const auto& t : notes_) os << " {" << t << "}";
      return os.str();
    }
    std::uint64_t hash() const {
      std::uint64_t h = 1469598103934665603ull;
      auto mix = [&h](const void* p, std::size_t n) {
        const auto* b = static_cast<const unsigned char*>(p);
        for (std::size_t i = 0; i != n; ++i) {
          h ^= b[i];
          h *= 1099511628211ull;
        }
      };
      mix(sub_.data(), sub_.size());
      for (const auto& d : draws_) {
        mix(&d.kind, 1);
        if (d.kind == 'i') {
          mix(&d.i, sizeof d.i);
        } else {
          mix(&d.r, sizeof d.r);
        }
      }
      return h;
    }
    const std::string& sub() const { return sub_; }
    bool isNontrivial() const { return nontrivial_; }
    const std::vector<std::string>& tags() const { return tags_; }
    const std::map<std::string, double>& errs() const { return errs_; }
    Mode mode() const { return mode_; }

   private:
    Draw next(char k) {
      if (pos_ >= replay_.size()) {
        // a replay shorter than the body's needs: neutral values
        return Draw{k, 0, 0., ""};
      }
      Draw d = replay_[pos_++];
      if (d.kind != k) {
        // tolerate kind mismatch by conversion
        if (k == 'i') {
          d.i = static_cast<std::int64_t>(d.r);
        } else {
          d.r = static_cast<double>(d.i);
        }
        d.kind = k;
      }
      return d;
    }
    std::string sub_;
    Mode mode_;
    std::vector<Draw> draws_;
    std::vector<Draw> replay_;
    std::size_t pos_ = 0;
    bool nontrivial_ = false;
    std::vector<std::string> tags_;
    std::vector<std::string> notes_;
    std::map<std::string, double> errs_;
  };

  using Body = std::function<void(Case&)>;
  struct Sub {
    std::string name;
    Body body;
    double weight;  // share of the case budget
  };

  inline std::vector<Sub>& registry() {
    static std::vector<Sub> r;
    return r;
  }
  struct Registrar {
    Registrar(const char* n, Body b, double w = 1.) {
      registry().push_back({n, std::move(b), w});
    }
  };
#define VERIF_CAT2(a, b) a##b
#define VERIF_CAT(a, b) VERIF_CAT2(a, b)
//! VERIF_SUB(name){ ...body using `c`... }
#define VERIF_SUB(NAME)                                                   \
  static void VERIF_CAT(verif_body_, NAME)(verif::Case & c);              \
  static verif::Registrar VERIF_CAT(verif_reg_, NAME)(                    \
      #NAME, VERIF_CAT(verif_body_, NAME));                               \
  static void VERIF_CAT(verif_body_, NAME)(verif::Case & c)
//! same with a weight on the case budget (e.g. 0.1 for expensive bodies)
#define VERIF_SUB_W(NAME, W)                                              \
  static void VERIF_CAT(verif_body_, NAME)(verif::Case & c);              \
  static verif::Registrar VERIF_CAT(verif_reg_, NAME)(                    \
      #NAME, VERIF_CAT(verif_body_, NAME), W);                            \
  static void VERIF_CAT(verif_body_, NAME)(verif::Case & c)

  inline void accountSuccess(const Case& c) {
    auto& s = Global::get().subs[c.sub()];
    ++s.evaluations;
    for (const auto& t : c.tags()) ++s.classes[t];
    for (const auto& e : c.errs()) {
      auto p = s.maxerr.find(e.first);
      if (p == s.maxerr.end() || e.second > p->second) s.maxerr[e.first] = e.second;
    }
    if (c.isNontrivial()) {
      ++s.nontrivial;
      const bool fresh = s.hashes.insert(c.hash()).second;
      if (fresh && s.samples.size() < 3) s.samples.push_back(c.pretty());
    } else if (s.samples.empty() && s.evaluations > 50 && s.nontrivial == 0) {
      s.samples.push_back("(trivial) " + c.pretty());
    }
  }

  inline std::string writeReplay(const std::string& sub, const std::string& key,
                                 const std::string& msg,
                                 const std::string& serialised,
                                 const char* prefix) {
    auto& g = Global::get();
    std::string k = key;
    for (auto& ch : k)
      if (!(std::isalnum(static_cast<unsigned char>(ch)) || ch == '.' ||
            ch == '_' || ch == '-'))
        ch = '_';
    std::ostringstream p;
    p << g.replay_dir << "/" << prefix << g.unit << "." << sub << "." << k
      << ".seed" << g.seed << ".replay";
    std::ofstream f(p.str());
    f << "# unit " << g.unit << "\n# key " << key << "\n# msg ";
    for (char ch : msg) f << (ch == '\n' ? ' ' : ch);
    f << "\n" << serialised;
    return p.str();
  }

  //! run body once; returns 0 ok, 1 failure, 2 known hit, 3 discard
  inline int runOnce(const Sub& s, Case& c, std::string& key, std::string& msg) {
    try {
      s.body(c);
    } catch (const Failure& f) {
      key = f.key;
      msg = f.msg;
      return 1;
    } catch (const KnownHit& k) {
      const auto p = k.key.find('\x1f');
      key = k.key.substr(0, p);
      msg = p == std::string::npos ? "" : k.key.substr(p + 1);
      return 2;
    } catch (const Discard&) {
      return 3;
    } catch (const rc::detail::CaseResult&) {
      throw;
    } catch (const rc::GenerationFailure&) {
      throw;
    } catch (const std::exception& e) {
      key = c.sub() + ".unexpected_exception";
      msg = std::string("unexpected exception: ") + e.what();
      auto& g = Global::get();
      if (g.known_keys.count(key)) return 2;
      return 1;
    }
    return 0;
  }

  inline std::vector<Draw> readReplay(const std::string& path, std::string& sub) {
    std::ifstream f(path);
    if (!f) throw std::runtime_error("can't open replay file " + path);
    std::vector<Draw> d;
    std::string line;
    while (std::getline(f, line)) {
      if (line.empty() || line[0] == '#') continue;
      std::istringstream is(line);
      std::string k;
      is >> k;
      if (k == "sub") {
        is >> sub;
      } else if (k == "i") {
        Draw x{'i', 0, 0., ""};
        is >> x.i;
        d.push_back(x);
      } else if (k == "r") {
        std::string tok;
        is >> tok;
        Draw x{'r', 0, std::strtod(tok.c_str(), nullptr), ""};
        d.push_back(x);
      }
    }
    return d;
  }

  inline void writeOut(const std::string& path) {
    auto& g = Global::get();
    std::ofstream f(path);
    f.precision(6);
    f << "{\"unit\":\"" << jsonEscape(g.unit) << "\",\"seed\":" << g.seed
      << ",\"subs\":{";
    bool first = true;
    for (const auto& kv : g.subs) {
      const auto& s = kv.second;
      if (!first) f << ",";
      first = false;
      f << "\"" << jsonEscape(kv.first) << "\":{\"evaluations\":" << s.evaluations
        << ",\"nontrivial\":" << s.nontrivial
        << ",\"distinct_nontrivial\":" << s.hashes.size()
        << ",\"discarded\":" << s.discarded
        << ",\"excluded_known\":" << s.excluded_known << ",\"classes\":{";
      bool f2 = true;
      for (const auto& c : s.classes) {
        if (!f2) f << ",";
        f2 = false;
        f << "\"" << jsonEscape(c.first) << "\":" << c.second;
      }
      f << "},\"max_normalised_error\":{";
      f2 = true;
      for (const auto& c : s.maxerr) {
        if (!f2) f << ",";
        f2 = false;
        f << "\"" << jsonEscape(c.first) << "\":";
        if (std::isfinite(c.second)) {
          f << c.second;
        } else {
          f << "\"" << (std::isnan(c.second) ? "nan" : "inf") << "\"";
        }
      }
      f << "},\"samples\":[";
      f2 = true;
      for (const auto& c : s.samples) {
        if (!f2) f << ",";
        f2 = false;
        f << "\"" << jsonEscape(c) << "\"";
      }
      f << "],\"hashes\":[";
      f2 = true;
      for (const auto h : s.hashes) {
        if (!f2) f << ",";
        f2 = false;
        f << "\"" << std::hex << h << std::dec << "\"";
      }
      f << "]}";
    }
    f << "},\"failures\":[";
    first = true;
    for (const auto& r : g.failures) {
      if (!first) f << ",";
      first = false;
      f << "{\"sub\":\"" << jsonEscape(r.sub) << "\",\"key\":\"" << jsonEscape(r.key)
        << "\",\"msg\":\"" << jsonEscape(r.msg) << "\",\"replay\":\""
        << jsonEscape(r.replay) << "\"}";
    }
    f << "],\"known_hits\":[";
    first = true;
    for (const auto& kv : g.known_hits) {
      const auto& r = kv.second;
      if (!first) f << ",";
      first = false;
      f << "{\"sub\":\"" << jsonEscape(r.sub) << "\",\"key\":\"" << jsonEscape(r.key)
        << "\",\"msg\":\"" << jsonEscape(r.msg) << "\",\"replay\":\""
        << jsonEscape(r.replay) << "\",\"count\":" << r.count << "}";
    }
    f << "],\"notes\":[";
    first = true;
    for (const auto& n : g.notes) {
      if (!first) f << ",";
      first = false;
      f << "\"" << jsonEscape(n) << "\"";
    }
    f << "]}\n";
  }

  //! fatal signal inside the tested code: save the running case as a failure
  inline void fatalSignal(int sig) {
    auto& g = Global::get();
    static volatile int entered = 0;
    if (entered++) _exit(3);
    FailureRecord fr;
    if (g.current != nullptr) {
      fr.sub = g.current->sub();
      fr.key = fr.sub + ".fatal_signal";
      fr.msg = "fatal signal " + std::to_string(sig) + " while executing the case";
      fr.replay = writeReplay(fr.sub, fr.key, fr.msg, g.current->serialise(), "crash.");
      g.failures.push_back(fr);
      std::cout << "FALSIFIED sub=" << fr.sub << " key=" << fr.key << " msg=" << fr.msg
                << " replay=" << fr.replay << std::endl;
    }
    if (!g.out_path.empty()) writeOut(g.out_path);
    _exit(g.current != nullptr ? 1 : 3);
  }

  /*!
   * Entry point.
   *   harness                      generation mode; env: VERIF_SEED, VERIF_CASES
   *                                (cases per sub-check of weight 1), VERIF_OUT,
   *                                VERIF_KNOWN (comma separated keys),
   *                                VERIF_REPLAY_DIR, VERIF_ONLY (sub name filter)
   *   harness --replay <file>      exit 0: passes, 1: fails again (prints key/msg)
   */
  inline int main(int argc, char** argv, const char* unit) {
    auto& g = Global::get();
    g.unit = unit;
    if (const char* k = std::getenv("VERIF_KNOWN")) {
      std::istringstream is(k);
      std::string t;
      while (std::getline(is, t, ','))
        if (!t.empty()) g.known_keys.insert(t);
    }
    if (const char* o = std::getenv("VERIF_OUT")) g.out_path = o;
    if (const char* s = std::getenv("VERIF_REPLAY_DIR")) g.replay_dir = s;
    if (!(argc >= 3 && std::string(argv[1]) == "--replay")) {
      for (int sig : {SIGSEGV, SIGBUS, SIGFPE, SIGILL, SIGABRT}) std::signal(sig, fatalSignal);
    }
    if (argc >= 3 && std::string(argv[1]) == "--replay") {
      std::string sub;
      const auto d = readReplay(argv[2], sub);
      // in replay mode nothing is "known": we want the raw verdict
      const bool ignore_known = std::getenv("VERIF_REPLAY_HONOUR_KNOWN") == nullptr;
      if (ignore_known) g.known_keys.clear();
      for (const auto& s : registry()) {
        if (s.name != sub) continue;
        Case c(sub, d);
        std::string key, msg;
        const int r = runOnce(s, c, key, msg);
        if (r == 1 || r == 2) {
          std::cout << "REPLAY-FAILS key=" << key << " msg=" << msg << std::endl;
          return 1;
        }
        std::cout << (r == 3 ? "REPLAY-DISCARDED" : "REPLAY-PASSES") << std::endl;
        return 0;
      }
      std::cerr << "unknown sub-check '" << sub << "'\n";
      return 2;
    }
    g.seed = 1;
    if (const char* s = std::getenv("VERIF_SEED")) g.seed = std::strtoull(s, nullptr, 10);
    if (g.seed == 0) g.seed = 1;
    std::uint64_t cases = 1000;
    if (const char* s = std::getenv("VERIF_CASES")) cases = std::strtoull(s, nullptr, 10);
    if (const char* s = std::getenv("VERIF_REPLAY_DIR")) g.replay_dir = s;
    std::string only;
    if (const char* s = std::getenv("VERIF_ONLY")) only = s;
    int rcode = 0;
    for (const auto& s : registry()) {
      if (!only.empty() && s.name.find(only) == std::string::npos) continue;
      auto& st = g.subs[s.name];
      (void)st;
      g.have_last = false;
      rc::detail::TestParams params;
      params.seed = g.seed * 7919u + std::hash<std::string>{}(s.name) % 1000003u;
      params.maxSuccess = std::max<int>(1, static_cast<int>(cases * s.weight));
      params.maxSize = 100;
      params.maxDiscardRatio = 20;
      const auto prop = [&s]() {
        auto& gg = Global::get();
        Case c(s.name, Case::GENERATE);
        std::string key, msg;
        gg.current = &c;
        const int r = runOnce(s, c, key, msg);
        gg.current = nullptr;
        if (r == 0) {
          // executions made while shrinking a failure are not generated cases
          if (!gg.have_last) accountSuccess(c);
          return;
        }
        if (r == 3) {
          ++gg.subs[s.name].discarded;
          RC_DISCARD("outside domain");
        }
        if (r == 2) {
          auto& st2 = gg.subs[s.name];
          ++st2.excluded_known;
          auto& kh = gg.known_hits[key];
          if (kh.count++ == 0) {
            kh.sub = s.name;
            kh.key = key;
            kh.msg = msg;
            kh.replay = writeReplay(s.name, key, msg, c.serialise(), "known.");
          }
          // excluded by construction: the case is dropped (not counted as an
          // evaluation), the search continues behind it
          return;
        }
        gg.have_last = true;
        gg.last_serialised = c.serialise();
        gg.last_key = key;
        gg.last_msg = msg;
        RC_FAIL(key + ": " + msg);
      };
      rc::detail::TestMetadata md;
      md.id = s.name;
      md.description = s.name;
      // silent listener: we do our own reporting
      rc::detail::TestListenerAdapter listener;
      const auto result =
          rc::detail::checkProperty(rc::detail::toProperty(prop), md, params, listener);
      if (result.template is<rc::detail::FailureResult>()) {
        rcode = 1;
        FailureRecord fr;
        fr.sub = s.name;
        if (g.have_last) {
          fr.key = g.last_key;
          fr.msg = g.last_msg;
          fr.replay = writeReplay(s.name, fr.key, fr.msg, g.last_serialised, "");
        } else {
          fr.key = s.name + ".no_record";
          fr.msg = "rapidcheck failure without recorded case";
        }
        std::cout << "FALSIFIED sub=" << s.name << " key=" << fr.key << " msg=" << fr.msg
                  << " replay=" << fr.replay << std::endl;
        g.failures.push_back(fr);
      } else if (result.template is<rc::detail::GaveUpResult>()) {
        g.notes.push_back("gave up (too many discards) in " + s.name);
        std::cout << "GAVE-UP sub=" << s.name << std::endl;
      } else if (result.template is<rc::detail::Error>()) {
        rcode = 1;
        FailureRecord fr;
        fr.sub = s.name;
        fr.key = s.name + ".harness_error";
        fr.msg = result.template get<rc::detail::Error>().description;
        g.failures.push_back(fr);
        std::cout << "ERROR sub=" << s.name << " " << fr.msg << std::endl;
      }
    }
    if (const char* o = std::getenv("VERIF_OUT")) writeOut(o);
    for (const auto& kv : g.subs) {
      std::cout << "sub " << kv.first << ": evaluations=" << kv.second.evaluations
                << " nontrivial=" << kv.second.nontrivial
                << " distinct=" << kv.second.hashes.size()
                << " discarded=" << kv.second.discarded
                << " excluded_known=" << kv.second.excluded_known;
      for (const auto& c : kv.second.classes) std::cout << " " << c.first << "=" << c.second;
      std::cout << "\n";
      for (const auto& e : kv.second.maxerr)
        std::cout << "    maxerr " << e.first << " = " << e.second << "\n";
    }
    return rcode;
  }

}  // namespace verif

#define VERIF_MAIN(UNIT) \
  int main(int argc, char** argv) { return verif::main(argc, argv, UNIT); }

#endif /* VERIF_HXX */
