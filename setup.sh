#!/bin/sh
# Build, offline, everything the checks need from /repo's current tree.
set -e
cd "$(dirname "$0")"
mkdir -p build
python3 - <<'PY'
import importlib.util, os, sys
spec = importlib.util.spec_from_loader("check", loader=None)
src = open("check").read()
mod = type(sys)("check")
mod.__file__ = os.path.abspath("check")
exec(compile(src.replace('if __name__ == "__main__":', 'if False:'), "check", "exec"), mod.__dict__)
mod.ensure_ninja(["all"])
print("hooks tree ready:", mod.BUILD)
# the sanitized tree of the libFuzzer units (only the targets their specs name), so that the first quick run of
# C13 / C31 / C35 / C54 does not pay for it
import glob, json
targets = []
for f in sorted(glob.glob("engine/specs/C*.json")):
    for u in json.load(open(f)).get("units", []):
        for t in u.get("ninja_asan", []):
            if t not in targets:
                targets.append(t)
if targets:
    mod.ensure_ninja(targets, "asan")
    print("asan tree ready:", mod.TREES["asan"][0], " ".join(targets))
PY
