#!/bin/sh
# Build, offline, everything the checks need from /repo's current tree.
set -e
cd "$(dirname "$0")"
mkdir -p build
python3 - <<'PY'
import importlib.util, os, sys
spec = importlib.util.spec_from_loader("check", loader=None)
src = open("check").read()
mod = type(sys)("check")
mod.__file__ = os.path.abspath("check")
exec(compile(src.replace('if __name__ == "__main__":', 'if False:'), "check", "exec"), mod.__dict__)
mod.ensure_ninja(["all"])
print("hooks tree ready:", mod.BUILD)
PY
